#!/bin/bash
# usage: tools_seed2.sh <PROP> <n-in-out-dir> [check-prop [only-harness]]
# round-2 seeds (notes.txt format). 1. confirms the change in the scratch worktree /tmp/seed_<PROP>
# (existing tests pass with it, demo fails with it / passes without). 2. runs the check with -repo
# pointing at the patched worktree (so /repo is not touched while other checks are running).
export GOFLAGS=-mod=mod GOPROXY=off GOSUMDB=off GOTOOLCHAIN=local
P=$1; N=$2; HP=${3:-$P}; ONLY=$4
OUT=/tmp/seed_${P}_out/$N; WT=/tmp/seed_$P
DEMODIR=$(sed -n 's/^demo_dir: *//p' $OUT/notes.txt | head -1 | sed 's|^\./||')
PKGS=$(sed -n 's/^test_pkgs: *//p' $OUT/notes.txt | head -1)
FLAGS=$(sed -n 's/^flags: *//p' $OUT/notes.txt | head -1 | sed 's/`//g' | awk '{o="";for(i=1;i<=NF;i++){if(substr($i,1,1)=="-")o=o" "$i;else break};print o}')
cd $WT || exit 9
git checkout -q -- . ; rm -f $DEMODIR/zz_demo_test.go
git apply $OUT/patch.diff || { echo "SEED: patch does not apply in worktree"; exit 9; }
T1=skipped
if [ -z "$SKIPTESTS" ]; then
  T1=0
  for pk in $PKGS; do
    if ! go test -vet=off -count=1 $pk > /tmp/seed_t_$P.log 2>&1; then
      go test -modfile=/tmp/seed_${P}_out/repo_alt.mod -ldflags=-checklinkname=0 -vet=off -count=1 $pk > /tmp/seed_t_$P.log 2>&1 || { T1=1; echo "  existing tests FAIL in $pk"; tail -5 /tmp/seed_t_$P.log; }
    fi
  done
fi
cp $OUT/demo_test.go $DEMODIR/zz_demo_test.go
go test $FLAGS -vet=off -count=1 -run 'ZZ|Demo' ./$DEMODIR > /tmp/seed_d1_$P.log 2>&1; D1=$?
# NOTE: no git stash here - the stash is shared by all worktrees of a repository
mv $DEMODIR/zz_demo_test.go /tmp/seed_demo_$P.go; git checkout -q -- .; mv /tmp/seed_demo_$P.go $DEMODIR/zz_demo_test.go
go test $FLAGS -vet=off -count=1 -run 'ZZ|Demo' ./$DEMODIR > /tmp/seed_d0_$P.log 2>&1; D0=$?
git apply $OUT/patch.diff
rm -f $DEMODIR/zz_demo_test.go
echo "SEED $P/$N: existing-tests-with-patch exit=$T1 (want 0); demo-with-patch exit=$D1 (want !=0); demo-without exit=$D0 (want 0)"
git status --short | head -5
cd /verif
if [ -n "$ONLY" ]; then
  ./build/symgo -repo $WT -suite harness/$HP/harness.json -no-evidence -budget 20m -only "$ONLY" 2>&1 | grep -v "time budget" | tail -8 | cut -c1-220
else
  ./build/symgo -repo $WT -suite harness/$HP/harness.json -no-evidence -budget 20m 2>&1 | grep -v "time budget" | grep -v KNOWN-FINDING | tail -14 | cut -c1-220
fi
cd $WT && git checkout -q -- . && git status --short
