#!/usr/bin/env python3
"""Runs the repository's baseline test command (guard off) and compares with /root/.vp/BASELINE.json stable_pass."""
import json, subprocess, os, sys
env = dict(os.environ, GOFLAGS="-mod=mod", GOPROXY="off", GOSUMDB="off", GOTOOLCHAIN="local")
p = subprocess.run("cd /repo && go test -mod=mod -json -vet=off -count=1 -timeout 25m ./...", shell=True, env=env, capture_output=True, text=True)
passed = set()
failed = set()
for line in p.stdout.splitlines():
    try:
        e = json.loads(line)
    except Exception:
        continue
    if e.get('Test') and e.get('Action') in ('pass', 'fail'):
        name = f"{e['Package']}::{e['Test']}"
        (passed if e['Action'] == 'pass' else failed).add(name)
base = set(json.load(open('/root/.vp/BASELINE.json'))['stable_pass'])
missing = sorted(base - passed)
print(f"baseline stable_pass={len(base)} passed_now={len(passed & base)} missing={len(missing)}")
for m in missing[:40]:
    print("  MISSING:", m, "(failed)" if m in failed else "")
sys.exit(1 if missing else 0)
