// Package http3 is a compile-only stand-in for quic-go's http3 package
// (quic-go v0.27.2 does not build with go1.23). Only the surface used by
// pkg/object/httpserver/runtime.go is present.
package http3

import (
	"errors"
	"net/http"
)

// Server mirrors http3.Server as used by easegress.
type Server struct {
	*http.Server
}

// ListenAndServe is not available in the stub.
func (s *Server) ListenAndServe() error { return errors.New("http3 stub") }

// Close closes nothing.
func (s *Server) Close() error { return nil }
