#!/usr/bin/env python3
"""Regenerates MANIFEST.json from manifest_src.json (claimed checks) + properties.jsonl (everything else -> not_applicable)."""
import json, sys
src = json.load(open('/verif/manifest_src.json'))
props = [json.loads(l)['id'] for l in open('/verif/properties.jsonl')]
checks = []
for pid in props:
    c = src['checks'].get(pid)
    if not c: continue
    checks.append({
        "property_id": pid,
        "quick_cmd": f"./check {pid} quick",
        "thorough_cmd": f"./check {pid} thorough",
        "evidence_file": f"/verif/evidence/{pid}.json",
        "replay_cmd_template": "./check replay {path}",
        "engine": "symgo",
        "level_claimed": {"category": "model_checking", "text": c['text'], "design_ref": c.get('design_ref', 'DESIGN.md §4 ' + pid)},
        "level_note": c['note'],
        "technique": c.get('technique', "bounded symbolic execution of the Go SSA of the real functions (own engine symgo) with SMT (z3 5.1 QF_BV) deciding every branch and assertion"),
    })
na = [{"property_id": pid, "reason": src['not_applicable'].get(pid, "check not built yet in this session; no claim is made")} for pid in props if pid not in src['checks']]
m = {
    "version": 1,
    "setup_cmd": "cd /verif/engine && GOFLAGS=-mod=mod GOPROXY=off GOSUMDB=off GOTOOLCHAIN=local go build -o ../build/symgo ./cmd/symgo && cd /verif && ./check selftest",
    "hooks": {"guard": "verif", "enable": "no hooks: harnesses are injected as go/packages overlays, /repo is not modified", "baseline_off_cmd": json.load(open('/root/.vp/BASELINE.json'))['cmd'], "source_commits": [], "add_only": True},
    "engines": [{"name": "symgo", "path": "/verif/engine", "serves_properties": [c['property_id'] for c in checks], "kind_free_text": "symbolic executor for Go SSA (golang.org/x/tools/go/ssa) emitting SMT-LIB2 to z3/cvc5; replay-based DFS over solver-decided decision points; threads, channels, vector-clock race detector"}],
    "checks": checks,
    "not_applicable": na,
    "notes": src.get('notes', ''),
}
json.dump(m, open('/verif/MANIFEST.json', 'w'), indent=1)
print("checks:", [c['property_id'] for c in checks], "n/a:", len(na))
