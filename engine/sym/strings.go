package sym

import (
	"fmt"
	"go/types"
)

func (m *Machine) c64(v int) *Term { return m.tt.Const(64, uint64(v)) }

// symStr returns the symbolic representation (length term + byte terms) of any string.
func (m *Machine) symStr(s *StrV) (*Term, []*Term) {
	if s.Sym {
		return s.Len, s.B
	}
	b := make([]*Term, len(s.S))
	for i := 0; i < len(s.S); i++ {
		b[i] = m.tt.Const(8, uint64(s.S[i]))
	}
	return m.c64(len(s.S)), b
}

// normStr turns an all-constant symbolic string into a concrete one.
func (m *Machine) normStr(ln *Term, b []*Term) *StrV {
	if ln.IsConst() {
		n := int(ln.Val)
		if n > len(b) {
			panic(m.unsupported("string length %d beyond capacity %d", n, len(b)))
		}
		all := true
		for i := 0; i < n; i++ {
			if !b[i].IsConst() {
				all = false
				break
			}
		}
		if all {
			bs := make([]byte, n)
			for i := 0; i < n; i++ {
				bs[i] = byte(b[i].Val)
			}
			return concStr(string(bs))
		}
		return &StrV{Sym: true, Len: ln, B: b[:n]}
	}
	return &StrV{Sym: true, Len: ln, B: b}
}

// newSymString creates a fresh symbolic string of capacity cap (ASCII bytes).
func (m *Machine) newSymString(name string, cap int) *StrV {
	name = m.freshName(name)
	ln := m.newInput(name+".len", BV(64), "len")
	b := make([]*Term, cap)
	for i := 0; i < cap; i++ {
		b[i] = m.newInput(fmt.Sprintf("%s[%d]", name, i), BV(8), "byte")
	}
	if m.concrete == nil {
		c := m.tt.Cmp(OpULE, ln, m.c64(cap))
		for i := 0; i < cap; i++ {
			c = m.tt.And(c, m.tt.Cmp(OpULT, b[i], m.tt.Const(8, 0x80)))
		}
		m.assume(c)
	}
	return m.normStr(ln, b)
}

func (m *Machine) strLen(s *StrV) *Term {
	if !s.Sym {
		return m.c64(len(s.S))
	}
	return s.Len
}

func (m *Machine) strEq(a, b *StrV) *Term {
	if !a.Sym && !b.Sym {
		return m.tt.Bool(a.S == b.S)
	}
	la, ba := m.symStr(a)
	lb, bb := m.symStr(b)
	r := m.tt.Eq(la, lb)
	if r.IsFalse() {
		return r
	}
	n := len(ba)
	if len(bb) < n {
		n = len(bb)
	}
	// lengths beyond the smaller capacity cannot be equal
	if len(ba) != len(bb) {
		r = m.tt.And(r, m.tt.Cmp(OpULE, la, m.c64(n)))
	}
	for i := 0; i < n; i++ {
		in := m.tt.Cmp(OpULT, m.c64(i), la)
		r = m.tt.And(r, m.tt.Implies(in, m.tt.Eq(ba[i], bb[i])))
	}
	return r
}

func (m *Machine) strLess(a, b *StrV) *Term {
	if !a.Sym && !b.Sym {
		return m.tt.Bool(a.S < b.S)
	}
	la, ba := m.symStr(a)
	lb, bb := m.symStr(b)
	n := len(ba)
	if len(bb) > n {
		n = len(bb)
	}
	// from the last position backwards: less_k = decision starting at position k
	// at position k: if k >= la: (k < lb)  [a ended: a<b iff b continues]
	//                else if k >= lb: false
	//                else if a_k < b_k: true; if a_k > b_k: false; else less_{k+1}
	res := m.tt.Cmp(OpULT, la, lb) // k == n: both ended or beyond capacities
	for k := n - 1; k >= 0; k-- {
		kc := m.c64(k)
		aEnd := m.tt.Not(m.tt.Cmp(OpULT, kc, la))
		bEnd := m.tt.Not(m.tt.Cmp(OpULT, kc, lb))
		var ak, bk *Term
		if k < len(ba) {
			ak = ba[k]
		} else {
			ak = m.tt.Const(8, 0)
		}
		if k < len(bb) {
			bk = bb[k]
		} else {
			bk = m.tt.Const(8, 0)
		}
		lt := m.tt.Cmp(OpULT, ak, bk)
		gt := m.tt.Cmp(OpULT, bk, ak)
		inner := m.tt.Ite(lt, m.tt.True, m.tt.Ite(gt, m.tt.False, res))
		res = m.tt.Ite(aEnd, m.tt.Not(bEnd), m.tt.Ite(bEnd, m.tt.False, inner))
	}
	return res
}

func (m *Machine) strConcat(a, b *StrV) *StrV {
	if !a.Sym && !b.Sym {
		return concStr(a.S + b.S)
	}
	if !a.Sym && a.S == "" {
		return b
	}
	if !b.Sym && b.S == "" {
		return a
	}
	la, ba := m.symStr(a)
	lb, bb := m.symStr(b)
	ln := m.tt.BinBV(OpAdd, la, lb)
	if la.IsConst() {
		n := int(la.Val)
		r := make([]*Term, 0, n+len(bb))
		r = append(r, ba[:n]...)
		r = append(r, bb...)
		return m.normStr(ln, r)
	}
	cp := len(ba) + len(bb)
	if cp > m.P.Cfg.MaxStr {
		cp = m.P.Cfg.MaxStr
		// unwinding-style check: the result must fit
		if !m.branch(m.tt.Cmp(OpULE, ln, m.c64(cp))) {
			m.endPath("limit", fmt.Sprintf("string concatenation exceeds maxStr=%d (unwinding bound)", cp))
		}
	}
	r := make([]*Term, cp)
	for k := 0; k < cp; k++ {
		// r_k = k < la ? a_k : b[k-la]
		var bsel *Term = m.tt.Const(8, 0)
		// possible la values j with 0 <= k-j < len(bb), j <= len(ba)
		for j := 0; j <= k && j <= len(ba); j++ {
			if k-j < len(bb) {
				bsel = m.tt.Ite(m.tt.Eq(la, m.c64(j)), bb[k-j], bsel)
			}
		}
		if k < len(ba) {
			r[k] = m.tt.Ite(m.tt.Cmp(OpULT, m.c64(k), la), ba[k], bsel)
		} else {
			r[k] = bsel
		}
	}
	return m.normStr(ln, r)
}

// strIndex returns s[idx] with a bounds check.
func (m *Machine) strIndex(s *StrV, idx *Term) Value {
	ln := m.strLen(s)
	if idx.S.W != 64 {
		idx = m.tt.ZExt(idx, 64)
	}
	if !m.branch(m.tt.Cmp(OpULT, idx, ln)) {
		m.goPanic("runtime error: index out of range (string)")
	}
	if idx.IsConst() {
		if !s.Sym {
			return m.tt.Const(8, uint64(s.S[idx.Val]))
		}
		return s.B[idx.Val]
	}
	_, b := m.symStr(s)
	return m.selByte(b, idx)
}

// selByte builds an ite chain b[idx].
func (m *Machine) selByte(b []*Term, idx *Term) *Term {
	if len(b) == 0 {
		return m.tt.Const(8, 0)
	}
	r := b[len(b)-1]
	for i := len(b) - 2; i >= 0; i-- {
		r = m.tt.Ite(m.tt.Eq(idx, m.c64(i)), b[i], r)
	}
	return r
}

// strSlice computes s[lo:hi] (nil = omitted) with bounds checks.
func (m *Machine) strSlice(s *StrV, lo, hi *Term) *StrV {
	ln := m.strLen(s)
	if lo == nil {
		lo = m.c64(0)
	}
	if hi == nil {
		hi = ln
	}
	ok := m.tt.And(m.tt.Cmp(OpULE, lo, hi), m.tt.Cmp(OpULE, hi, ln))
	if !m.branch(ok) {
		m.goPanic("runtime error: slice bounds out of range (string)")
	}
	if !s.Sym && lo.IsConst() && hi.IsConst() {
		return concStr(s.S[lo.Val:hi.Val])
	}
	_, b := m.symStr(s)
	nl := m.tt.BinBV(OpSub, hi, lo)
	if lo.IsConst() {
		k := int(lo.Val)
		return m.normStr(nl, b[k:])
	}
	// symbolic offset: r_k = b[lo+k]
	cp := len(b)
	r := make([]*Term, cp)
	for k := 0; k < cp; k++ {
		var sel *Term = m.tt.Const(8, 0)
		for j := cp - 1 - k; j >= 0; j-- {
			sel = m.tt.Ite(m.tt.Eq(lo, m.c64(j)), b[j+k], sel)
		}
		r[k] = sel
	}
	return m.normStr(nl, r)
}

// strToSlice converts a string to []byte (length is concretised).
func (m *Machine) strToSlice(s *StrV, st types.Type) *SliceV {
	et := st.Underlying().(*types.Slice).Elem()
	if b, ok := et.Underlying().(*types.Basic); !ok || b.Kind() != types.Uint8 {
		if !s.Sym {
			// []rune
			var vals []Value
			for _, r := range s.S {
				vals = append(vals, m.tt.Const(32, uint64(r)))
			}
			return m.sliceFromValues(et, vals)
		}
		panic(m.unsupported("[]rune of symbolic string"))
	}
	ln, b := m.symStr(s)
	n := m.concretize(ln, len(b), "string length")
	vals := make([]Value, n)
	for i := 0; i < n; i++ {
		vals[i] = b[i]
	}
	if n == 0 {
		return m.makeSlice(et, 0, 0)
	}
	return m.sliceFromValues(et, vals)
}

func (m *Machine) bytesToStr(s *SliceV, st types.Type) *StrV {
	et := st.Underlying().(*types.Slice).Elem()
	if b, ok := et.Underlying().(*types.Basic); !ok || b.Kind() != types.Uint8 {
		// []rune -> string
		var rs []rune
		for _, e := range m.sliceElems(s) {
			t := e.(*Term)
			if !t.IsConst() {
				panic(m.unsupported("string of symbolic []rune"))
			}
			rs = append(rs, rune(sext(t.Val, t.S.W)))
		}
		return concStr(string(rs))
	}
	el := m.sliceElems(s)
	b := make([]*Term, len(el))
	for i, e := range el {
		b[i] = e.(*Term)
	}
	return m.normStr(m.c64(len(b)), b)
}

// ---- string intrinsics (terms, no forking) ---------------------------------

func (m *Machine) strHasPrefix(s, p *StrV) *Term {
	if !s.Sym && !p.Sym {
		return m.tt.Bool(len(s.S) >= len(p.S) && s.S[:len(p.S)] == p.S)
	}
	ls, bs := m.symStr(s)
	lp, bp := m.symStr(p)
	r := m.tt.Cmp(OpULE, lp, ls)
	for i := 0; i < len(bp); i++ {
		in := m.tt.Cmp(OpULT, m.c64(i), lp)
		if i >= len(bs) {
			r = m.tt.And(r, m.tt.Not(in))
			break
		}
		r = m.tt.And(r, m.tt.Implies(in, m.tt.Eq(bs[i], bp[i])))
	}
	return r
}

func (m *Machine) strHasSuffix(s, p *StrV) *Term {
	if !s.Sym && !p.Sym {
		return m.tt.Bool(len(s.S) >= len(p.S) && s.S[len(s.S)-len(p.S):] == p.S)
	}
	ls, bs := m.symStr(s)
	lp, bp := m.symStr(p)
	r := m.tt.Cmp(OpULE, lp, ls)
	off := m.tt.BinBV(OpSub, ls, lp)
	for i := 0; i < len(bp); i++ {
		in := m.tt.Cmp(OpULT, m.c64(i), lp)
		r = m.tt.And(r, m.tt.Implies(in, m.tt.Eq(m.selByte(bs, m.tt.BinBV(OpAdd, off, m.c64(i))), bp[i])))
	}
	return r
}

// strIndexByte returns the first index of c in s, or -1 (as a BV64 term).
func (m *Machine) strIndexByte(s *StrV, c *Term) *Term {
	ls, bs := m.symStr(s)
	r := m.tt.Const(64, ^uint64(0))
	for i := len(bs) - 1; i >= 0; i-- {
		hit := m.tt.And(m.tt.Cmp(OpULT, m.c64(i), ls), m.tt.Eq(bs[i], c))
		r = m.tt.Ite(hit, m.c64(i), r)
	}
	return r
}

func (m *Machine) strLastIndexByte(s *StrV, c *Term) *Term {
	ls, bs := m.symStr(s)
	r := m.tt.Const(64, ^uint64(0))
	for i := 0; i < len(bs); i++ {
		hit := m.tt.And(m.tt.Cmp(OpULT, m.c64(i), ls), m.tt.Eq(bs[i], c))
		r = m.tt.Ite(hit, m.c64(i), r)
	}
	return r
}

// strMatchAt: does sub occur in s at offset k (concrete k).
func (m *Machine) strMatchAt(ls *Term, bs []*Term, lsub *Term, bsub []*Term, k int) *Term {
	// k + lsub <= ls  and bytes equal
	r := m.tt.Cmp(OpULE, m.tt.BinBV(OpAdd, m.c64(k), lsub), ls)
	for i := 0; i < len(bsub); i++ {
		in := m.tt.Cmp(OpULT, m.c64(i), lsub)
		if k+i >= len(bs) {
			r = m.tt.And(r, m.tt.Not(in))
			break
		}
		r = m.tt.And(r, m.tt.Implies(in, m.tt.Eq(bs[k+i], bsub[i])))
	}
	return r
}

// strIndexStr returns the first index of sub in s or -1.
func (m *Machine) strIndexStr(s, sub *StrV) *Term {
	ls, bs := m.symStr(s)
	lsub, bsub := m.symStr(sub)
	r := m.tt.Const(64, ^uint64(0))
	for k := len(bs); k >= 0; k-- {
		r = m.tt.Ite(m.strMatchAt(ls, bs, lsub, bsub, k), m.c64(k), r)
	}
	return r
}

func (m *Machine) strCountByte(s *StrV, c *Term) *Term {
	ls, bs := m.symStr(s)
	r := m.c64(0)
	for i := 0; i < len(bs); i++ {
		hit := m.tt.And(m.tt.Cmp(OpULT, m.c64(i), ls), m.tt.Eq(bs[i], c))
		r = m.tt.BinBV(OpAdd, r, m.tt.Ite(hit, m.c64(1), m.c64(0)))
	}
	return r
}

func (m *Machine) strMapBytes(s *StrV, f func(b *Term) *Term) *StrV {
	ls, bs := m.symStr(s)
	r := make([]*Term, len(bs))
	for i, b := range bs {
		r[i] = f(b)
	}
	return m.normStr(ls, r)
}

func (m *Machine) byteToLower(b *Term) *Term {
	isUp := m.tt.And(m.tt.Cmp(OpULE, m.tt.Const(8, 'A'), b), m.tt.Cmp(OpULE, b, m.tt.Const(8, 'Z')))
	return m.tt.Ite(isUp, m.tt.BinBV(OpAdd, b, m.tt.Const(8, 32)), b)
}

func (m *Machine) byteToUpper(b *Term) *Term {
	isLo := m.tt.And(m.tt.Cmp(OpULE, m.tt.Const(8, 'a'), b), m.tt.Cmp(OpULE, b, m.tt.Const(8, 'z')))
	return m.tt.Ite(isLo, m.tt.BinBV(OpSub, b, m.tt.Const(8, 32)), b)
}
