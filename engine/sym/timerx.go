package sym

import (
	"go/types"

	"golang.org/x/tools/go/ssa"
)

// time.AfterFunc: the passage of time is not modelled, so the timer may fire at any scheduling
// point after its creation unless it was stopped first (an over-approximation of every
// duration). The callback runs in its own goroutine, as in the runtime.
type afterFuncState struct {
	stopped bool
	fired   bool
}

func init() {
	intrinsics["time.AfterFunc"] = func(m *Machine, th *Thread, fn *ssa.Function, a []Value, site ssa.Instruction) Value {
		timerT := fn.Signature.Results().At(0).Type().(*types.Pointer).Elem()
		obj := m.newObj(timerT, m.zero(timerT), "time.AfterFunc")
		st := &afterFuncState{}
		if m.afterFuncs == nil {
			m.afterFuncs = map[*Obj]*afterFuncState{}
		}
		m.afterFuncs[obj] = st
		f := a[1]
		body := &FuncV{}
		body.native = func(t *Thread) Value {
			m.yield(t)
			if !st.stopped {
				st.fired = true
				m.callFn(t, f, nil, site)
			}
			return nil
		}
		m.spawn(th, body, nil, site)
		return &Ptr{Obj: obj}
	}
}

// timerStop handles (*time.Timer).Stop for timers created by the AfterFunc model; ok=false for
// any other timer.
func (m *Machine) timerStop(p *Ptr) (Value, bool) {
	if p == nil || p.Obj == nil || m.afterFuncs == nil {
		return nil, false
	}
	st, ok := m.afterFuncs[p.Obj]
	if !ok {
		return nil, false
	}
	was := !st.stopped && !st.fired
	st.stopped = true
	return m.tt.Bool(was), true
}
