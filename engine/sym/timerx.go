package sym

import (
	"go/types"

	"golang.org/x/tools/go/ssa"
)

// time.AfterFunc: the passage of time is not modelled, so the timer may fire at any scheduling
// point after its creation unless it was stopped first (an over-approximation of every
// duration). The callback runs in its own goroutine, as in the runtime.
type afterFuncState struct {
	stopped bool
	fired   bool
}

func init() {
	intrinsics["time.AfterFunc"] = func(m *Machine, th *Thread, fn *ssa.Function, a []Value, site ssa.Instruction) Value {
		timerT := fn.Signature.Results().At(0).Type().(*types.Pointer).Elem()
		obj := m.newObj(timerT, m.zero(timerT), "time.AfterFunc")
		if m.P.Cfg.VirtualAfterFunc {
			// on the virtual clock: the callback runs, in its own goroutine, when the deadline
			// falls due (every goroutine blocked, or verifAdvance), unless stopped before
			if m.vtimers == nil {
				m.vtimers = map[*Obj]*vTimer{}
			}
			t := &vTimer{deadline: m.vnow + m.intArg(a[0]), armed: true, seq: len(m.vtimerList), fn: a[1], site: site, vc: vcCopy(th.vc)}
			m.vcTick(th)
			m.vtimers[obj] = t
			m.vtimerList = append(m.vtimerList, t)
			return &Ptr{Obj: obj}
		}
		st := &afterFuncState{}
		if m.afterFuncs == nil {
			m.afterFuncs = map[*Obj]*afterFuncState{}
		}
		m.afterFuncs[obj] = st
		f := a[1]
		body := &FuncV{}
		body.native = func(t *Thread) Value {
			m.yield(t)
			if !st.stopped {
				st.fired = true
				m.callFn(t, f, nil, site)
			}
			return nil
		}
		m.spawn(th, body, nil, site)
		return &Ptr{Obj: obj}
	}
}

// timerStop handles (*time.Timer).Stop for timers created by the AfterFunc model; ok=false for
// any other timer.
func (m *Machine) timerStop(p *Ptr) (Value, bool) {
	if t := m.vtimerOf(p); t != nil {
		was := t.armed
		t.armed = false
		return m.tt.Bool(was), true
	}
	if p == nil || p.Obj == nil || m.afterFuncs == nil {
		return nil, false
	}
	st, ok := m.afterFuncs[p.Obj]
	if !ok {
		return nil, false
	}
	was := !st.stopped && !st.fired
	st.stopped = true
	return m.tt.Bool(was), true
}

// ---------------------------------------------------------------------------
// Virtual-time timers: time.NewTimer / (*Timer).Reset / Stop (and, when the harness does not
// replace it, time.After, whose real body calls NewTimer). The machine keeps a virtual clock
// (nanoseconds, concrete). Time passes only (a) when every goroutine is blocked: the clock jumps
// to the earliest armed deadline and that timer fires, and (b) when the harness calls
// verifAdvance(d) ("this step took d"): every timer that falls due fires in deadline order.
// Firing = a non-blocking send on the timer's channel of capacity 1, as in the runtime. Reset and
// Stop do NOT drain the channel (the semantics of modules below go 1.23, which is what the
// repository's go.mod selects). Durations must be concrete.
// ---------------------------------------------------------------------------

type vTimer struct {
	ch       *ChanV
	deadline int64
	armed    bool
	seq      int
	period   int64 // > 0: a ticker, re-armed at every tick
	// time.AfterFunc on the virtual clock: the callback, its call site and the creator's clock
	fn   Value
	site ssa.Instruction
	vc   []int
}

func (m *Machine) vtimerOf(p *Ptr) *vTimer {
	if p == nil || p.Obj == nil || m.vtimers == nil {
		return nil
	}
	return m.vtimers[p.Obj]
}

func (m *Machine) vtimerFire(t *vTimer) {
	t.armed = false
	if t.deadline > m.vnow {
		m.vnow = t.deadline
	}
	if t.period > 0 {
		t.deadline += t.period
		t.armed = true
	}
	if t.fn != nil {
		// AfterFunc: the callback runs in a goroutine of its own, ordered after the creation of
		// the timer (no scheduling point here: the new goroutine is picked up by the scheduler)
		nt := m.newThread()
		m.vcJoin(nt, t.vc)
		fn, site := t.fn, t.site
		m.wg.Add(1)
		go m.threadMain(nt, func() {
			m.callFn(nt, fn, nil, site)
		})
		nt.started = true
		return
	}
	if len(t.ch.buf) < t.ch.cap {
		t.ch.buf = append(t.ch.buf, sendItem{v: m.zero(t.ch.et)})
	}
}

// earliest armed timer (ties: creation order)
func (m *Machine) vtimerEarliest() *vTimer {
	var best *vTimer
	for _, t := range m.vtimerList {
		if t.armed && (best == nil || t.deadline < best.deadline) {
			best = t
		}
	}
	return best
}

// fireOnIdle: every goroutine is blocked - let time pass until the next timer is due.
func (m *Machine) fireOnIdle() bool {
	t := m.vtimerEarliest()
	if t == nil {
		return false
	}
	m.idleFires++
	if m.idleFires > 10000 {
		panic(m.unsupported("virtual time diverges: more than 10000 timer firings with every goroutine blocked"))
	}
	m.vtimerFire(t)
	return true
}

func (m *Machine) vtimerAdvance(d int64) {
	target := m.vnow + d
	for {
		t := m.vtimerEarliest()
		if t == nil || t.deadline > target {
			break
		}
		m.vtimerFire(t)
	}
	m.vnow = target
}

func init() {
	intrinsics["time.NewTimer"] = func(m *Machine, th *Thread, fn *ssa.Function, a []Value, site ssa.Instruction) Value {
		d := m.intArg(a[0])
		timerT := fn.Signature.Results().At(0).Type().(*types.Pointer).Elem()
		obj := m.newObj(timerT, m.zero(timerT), "time.NewTimer")
		st := timerT.Underlying().(*types.Struct)
		var ch *ChanV
		for i := 0; i < st.NumFields(); i++ {
			if st.Field(i).Name() == "C" {
				ct := types.NewChan(types.SendRecv, st.Field(i).Type().Underlying().(*types.Chan).Elem())
				ch = m.newChan(1, ct)
				m.store((&Ptr{Obj: obj}).sub(i), ch)
			}
		}
		if ch == nil {
			panic(m.unsupported("time.Timer without field C"))
		}
		if m.vtimers == nil {
			m.vtimers = map[*Obj]*vTimer{}
		}
		t := &vTimer{ch: ch, deadline: m.vnow + d, armed: true, seq: len(m.vtimerList)}
		m.vtimers[obj] = t
		m.vtimerList = append(m.vtimerList, t)
		return &Ptr{Obj: obj}
	}
	intrinsics["time.NewTicker"] = func(m *Machine, th *Thread, fn *ssa.Function, a []Value, site ssa.Instruction) Value {
		d := m.intArg(a[0])
		if d <= 0 {
			m.goPanic("non-positive interval for NewTicker")
		}
		tickerT := fn.Signature.Results().At(0).Type().(*types.Pointer).Elem()
		obj := m.newObj(tickerT, m.zero(tickerT), "time.NewTicker")
		st := tickerT.Underlying().(*types.Struct)
		var ch *ChanV
		for i := 0; i < st.NumFields(); i++ {
			if st.Field(i).Name() == "C" {
				ct := types.NewChan(types.SendRecv, st.Field(i).Type().Underlying().(*types.Chan).Elem())
				ch = m.newChan(1, ct)
				m.store((&Ptr{Obj: obj}).sub(i), ch)
			}
		}
		if m.vtimers == nil {
			m.vtimers = map[*Obj]*vTimer{}
		}
		t := &vTimer{ch: ch, deadline: m.vnow + d, armed: true, seq: len(m.vtimerList), period: d}
		m.vtimers[obj] = t
		m.vtimerList = append(m.vtimerList, t)
		return &Ptr{Obj: obj}
	}
	intrinsics["(*time.Ticker).Stop"] = func(m *Machine, th *Thread, fn *ssa.Function, a []Value, site ssa.Instruction) Value {
		p, _ := a[0].(*Ptr)
		if t := m.vtimerOf(p); t != nil {
			t.armed = false
			return nil
		}
		panic(m.unsupported("(*time.Ticker).Stop on a ticker the engine did not create"))
	}
	intrinsics["(*time.Ticker).Reset"] = func(m *Machine, th *Thread, fn *ssa.Function, a []Value, site ssa.Instruction) Value {
		p, _ := a[0].(*Ptr)
		t := m.vtimerOf(p)
		if t == nil {
			panic(m.unsupported("(*time.Ticker).Reset on a ticker the engine did not create"))
		}
		t.period = m.intArg(a[1])
		t.deadline = m.vnow + t.period
		t.armed = true
		return nil
	}
	intrinsics["(*time.Timer).Reset"] = func(m *Machine, th *Thread, fn *ssa.Function, a []Value, site ssa.Instruction) Value {
		p, _ := a[0].(*Ptr)
		t := m.vtimerOf(p)
		if t == nil {
			panic(m.unsupported("(*time.Timer).Reset on a timer the engine did not create"))
		}
		was := t.armed
		t.deadline = m.vnow + m.intArg(a[1])
		t.armed = true
		return m.tt.Bool(was)
	}
	intrinsics["verifAdvance"] = func(m *Machine, th *Thread, fn *ssa.Function, a []Value, site ssa.Instruction) Value {
		m.vtimerAdvance(m.intArg(a[0]))
		return nil
	}
	intrinsics["verifClock"] = func(m *Machine, th *Thread, fn *ssa.Function, a []Value, site ssa.Instruction) Value {
		return m.tt.Const(64, uint64(m.vnow))
	}
}

// time.Until / time.Since on the virtual clock, for Time values of the monotonic flavour whose
// reading was taken from that clock (vNowClock-style harness clocks: ext = verifClock()).
func init() {
	ext := func(m *Machine, v Value) int64 {
		sv, ok := v.(*StructV)
		if !ok || len(sv.F) < 2 {
			panic(m.unsupported("time.Until/Since: unexpected time.Time representation"))
		}
		wall, ok1 := sv.F[0].(*Term)
		e, ok2 := sv.F[1].(*Term)
		if !ok1 || !ok2 || !wall.IsConst() || !e.IsConst() || wall.Val>>63 == 0 {
			panic(m.unsupported("time.Until/Since need a concrete monotonic time (harness clock)"))
		}
		return sext(e.Val, 64)
	}
	intrinsics["time.Until"] = func(m *Machine, th *Thread, fn *ssa.Function, a []Value, site ssa.Instruction) Value {
		return m.tt.Const(64, uint64(ext(m, a[0])-m.vnow))
	}
	intrinsics["time.Since"] = func(m *Machine, th *Thread, fn *ssa.Function, a []Value, site ssa.Instruction) Value {
		return m.tt.Const(64, uint64(m.vnow-ext(m, a[0])))
	}
}
