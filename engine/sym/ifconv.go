package sym

import (
	"go/token"

	"golang.org/x/tools/go/ssa"
)

// If-conversion of pure regions: when an If on an undecided symbolic condition
// heads a small single-entry region of side-effect-free blocks whose every exit
// jumps to one join block, both sides are evaluated and the join's phi nodes
// become ite terms. No decision is recorded and no path is forked. Anything
// that could fork, panic, allocate or write aborts the attempt and the If is
// handled by the ordinary forking branch.

type specAbort struct{}

type specLeaf struct {
	cond *Term
	from *ssa.BasicBlock
	ret  []Value // leaf is a Return with these results
	isRet bool
}

const (
	maxSpecBlocks = 12
	maxSpecInstrs = 120
)

func (m *Machine) tryIfConv(fr *Frame, ifi *ssa.If, c *Term) (ok bool) {
	if m.raceOn || m.noIfConv {
		return false
	}
	b := fr.block
	var leaves []specLeaf
	var join *ssa.BasicBlock
	blocks, instrs := 0, 0
	var defined []ssa.Value
	defer func() {
		if r := recover(); r != nil {
			m.spec = false
			for _, v := range defined {
				delete(fr.env, v)
			}
			switch r.(type) {
			case specAbort, *goPanicV:
				ok = false
			case pathEnd:
				ok = false
			default:
				panic(r)
			}
		}
	}()
	m.spec = true
	var walk func(from, blk *ssa.BasicBlock, cond *Term)
	walk = func(from, blk *ssa.BasicBlock, cond *Term) {
		if len(blk.Preds) != 1 {
			// a join candidate
			if join == nil {
				join = blk
			} else if join != blk {
				panic(specAbort{})
			}
			leaves = append(leaves, specLeaf{cond: cond, from: from})
			return
		}
		blocks++
		if blocks > maxSpecBlocks {
			panic(specAbort{})
		}
		for _, in := range blk.Instrs {
			instrs++
			if instrs > maxSpecInstrs {
				panic(specAbort{})
			}
			switch in := in.(type) {
			case *ssa.Return:
				if fr.defers != nil || fr.fn.Recover != nil {
					panic(specAbort{})
				}
				lf := specLeaf{cond: cond, from: blk, isRet: true}
				for _, r := range in.Results {
					lf.ret = append(lf.ret, fr.get(r))
				}
				leaves = append(leaves, lf)
				return
			case *ssa.Jump:
				walk(blk, blk.Succs[0], cond)
				return
			case *ssa.If:
				ic := fr.get(in.Cond).(*Term)
				if v, known := m.litKnown(ic); known {
					if v {
						walk(blk, blk.Succs[0], cond)
					} else {
						walk(blk, blk.Succs[1], cond)
					}
					return
				}
				walk(blk, blk.Succs[0], m.tt.And(cond, ic))
				walk(blk, blk.Succs[1], m.tt.And(cond, m.tt.Not(ic)))
				return
			default:
				if !specAllowed(in) {
					panic(specAbort{})
				}
				if v, isVal := in.(ssa.Value); isVal {
					defined = append(defined, v)
				}
				fr.cur = in
				m.visit(fr, in)
			}
		}
		panic(specAbort{})
	}
	walk(b, b.Succs[0], c)
	walk(b, b.Succs[1], m.tt.Not(c))
	m.spec = false
	nret := 0
	for _, lf := range leaves {
		if lf.isRet {
			nret++
		}
	}
	if nret > 0 {
		// every leaf must return, and the region must not have defers pending
		if nret != len(leaves) || join != nil || fr.defers != nil {
			panic(specAbort{})
		}
		nres := len(leaves[0].ret)
		merged := make([]Value, nres)
		for k := 0; k < nres; k++ {
			var mv Value
			for li := len(leaves) - 1; li >= 0; li-- {
				v := leaves[li].ret[k]
				if mv == nil {
					mv = v
					continue
				}
				x, okm := m.mergeValues(leaves[li].cond, v, mv)
				if !okm {
					panic(specAbort{})
				}
				mv = x
			}
			merged[k] = mv
		}
		switch nres {
		case 0:
		case 1:
			fr.result = merged[0]
		default:
			fr.result = TupleV(merged)
		}
		fr.block = nil
		m.ifConvs++
		fr.retByConv = true
		return true
	}
	if join == nil || len(leaves) < 2 {
		panic(specAbort{})
	}
	// merge the phis of the join
	var phis []*ssa.Phi
	for _, in := range join.Instrs {
		p, isPhi := in.(*ssa.Phi)
		if !isPhi {
			break
		}
		phis = append(phis, p)
	}
	vals := make([]Value, len(phis))
	for pi, p := range phis {
		var merged Value
		for li := len(leaves) - 1; li >= 0; li-- {
			lf := leaves[li]
			ei := -1
			for k, pr := range join.Preds {
				if pr == lf.from {
					ei = k
					break
				}
			}
			if ei < 0 {
				panic(specAbort{})
			}
			v := fr.get(p.Edges[ei])
			if merged == nil {
				merged = v
				continue
			}
			mv, okm := m.mergeValues(lf.cond, v, merged)
			if !okm {
				panic(specAbort{})
			}
			merged = mv
		}
		vals[pi] = merged
	}
	for pi, p := range phis {
		fr.env[p] = vals[pi]
	}
	fr.prev = leaves[0].from
	fr.block = join
	fr.skipPhis = true
	m.ifConvs++
	return true
}

// mergeValues builds ite(c, a, b) for mergeable values.
func (m *Machine) mergeValues(c *Term, a, b Value) (Value, bool) {
	switch x := a.(type) {
	case *Term:
		y, ok := b.(*Term)
		if !ok || x.S != y.S {
			return nil, false
		}
		if x.S.K == KFP && x != y {
			return nil, false
		}
		return m.tt.Ite(c, x, y), true
	case *StrV:
		y, ok := b.(*StrV)
		if !ok {
			return nil, false
		}
		if !x.Sym && !y.Sym && x.S == y.S {
			return x, true
		}
		lx, bx := m.symStr(x)
		ly, by := m.symStr(y)
		n := len(bx)
		if len(by) > n {
			n = len(by)
		}
		if n > m.P.Cfg.MaxStr {
			return nil, false
		}
		r := make([]*Term, n)
		zero := m.tt.Const(8, 0)
		for i := 0; i < n; i++ {
			ax, ay := zero, zero
			if i < len(bx) {
				ax = bx[i]
			}
			if i < len(by) {
				ay = by[i]
			}
			r[i] = m.tt.Ite(c, ax, ay)
		}
		return m.normStr(m.tt.Ite(c, lx, ly), r), true
	case *Ptr:
		y, ok := b.(*Ptr)
		if ok && ptrEq(x, y) {
			return x, true
		}
	case *IfaceV:
		y, ok := b.(*IfaceV)
		if ok && x.T == nil && y.T == nil {
			return x, true
		}
		if ok && x == y {
			return x, true
		}
	case *SliceV:
		y, ok := b.(*SliceV)
		if ok && x.Arr == y.Arr && x.Off == y.Off && x.Len == y.Len && x.Cap == y.Cap && ptrEq(&Ptr{Obj: x.Arr, Path: x.Base}, &Ptr{Obj: y.Arr, Path: y.Base}) {
			return x, true
		}
	case *MapV:
		y, ok := b.(*MapV)
		if ok && x == y {
			return x, true
		}
	}
	return nil, false
}

func specAllowed(in ssa.Instruction) bool {
	switch in := in.(type) {
	case *ssa.DebugRef, *ssa.ChangeType, *ssa.ChangeInterface, *ssa.MakeInterface, *ssa.Field, *ssa.FieldAddr,
		*ssa.IndexAddr, *ssa.Index, *ssa.Extract, *ssa.Slice, *ssa.Lookup, *ssa.Convert:
		return true
	case *ssa.BinOp:
		return in.Op != token.QUO && in.Op != token.REM
	case *ssa.UnOp:
		return in.Op != token.ARROW
	case *ssa.TypeAssert:
		return in.CommaOk
	case *ssa.Call:
		if b, ok := in.Call.Value.(*ssa.Builtin); ok {
			return b.Name() == "len" || b.Name() == "cap"
		}
		if f, ok := in.Call.Value.(*ssa.Function); ok && in.Call.Method == nil {
			return pureIntrinsics[fnKey(f)]
		}
	}
	return false
}

var pureIntrinsics = map[string]bool{
	"strings.HasPrefix": true, "strings.HasSuffix": true, "strings.IndexByte": true, "strings.LastIndexByte": true,
	"strings.Index": true, "strings.Contains": true, "strings.ContainsRune": true, "strings.EqualFold": true,
	"strings.ToLower": true, "strings.ToUpper": true, "bytes.Equal": true,
}
