package sym

import (
	"fmt"
	"go/types"
	"strings"

	"golang.org/x/tools/go/ssa"
)

type intrinsic func(m *Machine, th *Thread, fn *ssa.Function, args []Value, site ssa.Instruction) Value

type ufCall struct {
	args []Value
	res  *Term
}

var intrinsics = map[string]intrinsic{}

func init() {
	registerVerif()
	registerStrings()
	registerSync()
	registerMisc()
}

func fnKey(fn *ssa.Function) string {
	if o := fn.Origin(); o != nil {
		return o.String()
	}
	return fn.String()
}

// dispatchSpecial handles replacements, intrinsics and no-op packages.
func (m *Machine) dispatchSpecial(th *Thread, fn *ssa.Function, args []Value, site ssa.Instruction) (Value, bool) {
	key := fnKey(fn)
	if key == "(*time.Timer).Stop" && len(args) == 1 {
		if p, isPtr := args[0].(*Ptr); isPtr {
			if v, handled := m.timerStop(p); handled {
				return v, true
			}
		}
	}
	if r, ok := m.P.Repl[key]; ok {
		if r == nil {
			// no-op replacement: zero results
			return m.zeroResults(fn), true
		}
		if r != fn {
			return m.callSSA(th, r, args, nil, site), true
		}
	}
	name := fn.Name()
	if strings.HasPrefix(name, "verif") && fn.Signature.Recv() == nil {
		if in, ok := intrinsics[name]; ok {
			return in(m, th, fn, args, site), true
		}
	}
	if in, ok := intrinsics[key]; ok {
		return in(m, th, fn, args, site), true
	}
	if in, ok := concreteIntrinsics[key]; ok {
		// native call-out only when every string argument is concrete; the real code otherwise
		conc := true
		for _, a := range args {
			if sv, isStr := a.(*StrV); isStr && sv.Sym {
				conc = false
			}
		}
		if conc {
			return in(m, th, fn, args, site), true
		}
	}
	if len(m.P.Suite.NoopTypes) > 0 && fn.Signature.Recv() != nil {
		rt := fn.Signature.Recv().Type()
		if pt, ok := rt.Underlying().(*types.Pointer); ok {
			rt = pt.Elem()
		}
		if nt, ok := rt.(*types.Named); ok && nt.Obj().Pkg() != nil {
			full := nt.Obj().Pkg().Path() + "." + nt.Obj().Name()
			for _, n := range m.P.Suite.NoopTypes {
				if n == full {
					return m.noopResult(fn, args), true
				}
			}
		}
	}
	if fn.Pkg != nil {
		pp := fn.Pkg.Pkg.Path()
		for _, p := range m.P.Cfg.NoopPkgs {
			if pp == p {
				return m.zeroResults(fn), true
			}
		}
	} else if fn.Signature.Recv() != nil {
		// methods of instantiated generics etc. have Pkg == nil; use the receiver's package
	}
	return nil, false
}

// noopResult: zero results, except that a result of an interface type which
// the receiver's type implements is the receiver itself (NewChild-style methods).
func (m *Machine) noopResult(fn *ssa.Function, args []Value) Value {
	res := fn.Signature.Results()
	recvT := fn.Signature.Recv().Type()
	one := func(t types.Type) Value {
		if it, ok := t.Underlying().(*types.Interface); ok && it.NumMethods() > 0 && m.implementsPtr(recvT, it) {
			return &IfaceV{T: recvT, V: args[0]}
		}
		return m.zero(t)
	}
	switch res.Len() {
	case 0:
		return nil
	case 1:
		return one(res.At(0).Type())
	}
	tv := make(TupleV, res.Len())
	for i := range tv {
		tv[i] = one(res.At(i).Type())
	}
	return tv
}

// concreteIntrinsics are native call-outs used only for concrete arguments.
var concreteIntrinsics = map[string]func(m *Machine, th *Thread, fn *ssa.Function, a []Value, site ssa.Instruction) Value{}

func (m *Machine) strArg(v Value) string {
	s, ok := v.(*StrV)
	if !ok || s.Sym {
		panic(m.unsupported("intrinsic needs a concrete string argument"))
	}
	return s.S
}

func (m *Machine) intArg(v Value) int64 {
	t := v.(*Term)
	if !t.IsConst() {
		panic(m.unsupported("intrinsic needs a concrete integer argument"))
	}
	return sext(t.Val, t.S.W)
}

func (m *Machine) variadic(v Value) []Value {
	s, ok := v.(*SliceV)
	if !ok || s.Arr == nil {
		return nil
	}
	return m.sliceElems(s)
}

func registerVerif() {
	intrinsics["verifInt"] = func(m *Machine, th *Thread, fn *ssa.Function, a []Value, site ssa.Instruction) Value {
		name := m.strArg(a[0])
		lo, hi := m.intArg(a[1]), m.intArg(a[2])
		if lo == hi {
			return m.tt.Const(64, uint64(lo))
		}
		t := m.newInput(name, BV(64), "int")
		if m.concrete == nil {
			m.assume(m.tt.And(m.tt.Cmp(OpSLE, m.tt.Const(64, uint64(lo)), t), m.tt.Cmp(OpSLE, t, m.tt.Const(64, uint64(hi)))))
		}
		return t
	}
	intrinsics["verifUint"] = func(m *Machine, th *Thread, fn *ssa.Function, a []Value, site ssa.Instruction) Value {
		name := m.strArg(a[0])
		lo, hi := uint64(m.intArg(a[1])), uint64(m.intArg(a[2]))
		if lo == hi {
			return m.tt.Const(64, lo)
		}
		t := m.newInput(name, BV(64), "uint")
		if m.concrete == nil {
			m.assume(m.tt.And(m.tt.Cmp(OpULE, m.tt.Const(64, lo), t), m.tt.Cmp(OpULE, t, m.tt.Const(64, hi))))
		}
		return t
	}
	intrinsics["verifChoose"] = func(m *Machine, th *Thread, fn *ssa.Function, a []Value, site ssa.Instruction) Value {
		name := m.strArg(a[0])
		n := m.intArg(a[1])
		if n <= 1 {
			return m.tt.Const(64, 0)
		}
		t := m.newInput(name, BV(64), "int")
		if m.concrete == nil {
			m.assume(m.tt.Cmp(OpULT, t, m.tt.Const(64, uint64(n))))
		}
		// concretise immediately: a choice is meant to select shapes/operations
		return m.tt.Const(64, uint64(m.concretize(t, int(n)-1, "verifChoose")))
	}
	intrinsics["verifBool"] = func(m *Machine, th *Thread, fn *ssa.Function, a []Value, site ssa.Instruction) Value {
		return m.newInput(m.strArg(a[0]), BoolSort, "bool")
	}
	intrinsics["verifByte"] = func(m *Machine, th *Thread, fn *ssa.Function, a []Value, site ssa.Instruction) Value {
		return m.newInput(m.strArg(a[0]), BV(8), "byte")
	}
	intrinsics["verifString"] = func(m *Machine, th *Thread, fn *ssa.Function, a []Value, site ssa.Instruction) Value {
		return m.newSymString(m.strArg(a[0]), int(m.intArg(a[1])))
	}
	intrinsics["verifBytes"] = func(m *Machine, th *Thread, fn *ssa.Function, a []Value, site ssa.Instruction) Value {
		name := m.strArg(a[0])
		n := int(m.intArg(a[1]))
		vals := make([]Value, n)
		for i := range vals {
			vals[i] = m.newInput(fmt.Sprintf("%s[%d]", name, i), BV(8), "byte")
		}
		return m.sliceFromValues(types.Typ[types.Byte], vals)
	}
	intrinsics["verifAssume"] = func(m *Machine, th *Thread, fn *ssa.Function, a []Value, site ssa.Instruction) Value {
		m.assume(a[0].(*Term))
		return nil
	}
	intrinsics["verifAssert"] = func(m *Machine, th *Thread, fn *ssa.Function, a []Value, site ssa.Instruction) Value {
		m.check(a[0].(*Term), "assert", m.strArg(a[1]))
		return nil
	}
	intrinsics["verifCover"] = func(m *Machine, th *Thread, fn *ssa.Function, a []Value, site ssa.Instruction) Value {
		m.covers[m.strArg(a[0])] = true
		return nil
	}
	intrinsics["verifBound"] = func(m *Machine, th *Thread, fn *ssa.Function, a []Value, site ssa.Instruction) Value {
		name := m.strArg(a[0])
		v, ok := m.bounds[name]
		if !ok {
			panic(m.unsupported("verifBound(%q): no such bound in harness.json", name))
		}
		return m.tt.Const(64, uint64(v))
	}
	intrinsics["verifConcrete"] = func(m *Machine, th *Thread, fn *ssa.Function, a []Value, site ssa.Instruction) Value {
		// verifConcrete(x int64, max int64) int64: case-split x over 0..max
		t := a[0].(*Term)
		return m.tt.Const(64, uint64(m.concretize(t, int(m.intArg(a[1])), "verifConcrete")))
	}
	intrinsics["verifIsSymbolic"] = func(m *Machine, th *Thread, fn *ssa.Function, a []Value, site ssa.Instruction) Value {
		return m.tt.Bool(m.concrete == nil)
	}
	intrinsics["verifTrace"] = func(m *Machine, th *Thread, fn *ssa.Function, a []Value, site ssa.Instruction) Value {
		msg := m.strArg(a[0])
		for _, v := range m.variadic(a[1]) {
			if iv, ok := v.(*IfaceV); ok {
				msg += " " + m.show(iv.V)
			}
		}
		m.traceLog = append(m.traceLog, msg)
		return nil
	}
	intrinsics["verifYield"] = func(m *Machine, th *Thread, fn *ssa.Function, a []Value, site ssa.Instruction) Value {
		m.yield(th)
		return nil
	}
	// verifQuiesce blocks the caller until no other thread can make progress
	intrinsics["verifQuiesce"] = func(m *Machine, th *Thread, fn *ssa.Function, a []Value, site ssa.Instruction) Value {
		quiet := func() bool {
			for _, t := range m.threads {
				if t != th && m.enabled(t) {
					return false
				}
			}
			return true
		}
		for !quiet() {
			th.blocked = quiet
			th.what = "verifQuiesce"
			var cand []*Thread
			for _, t := range m.threads {
				if t != th && m.enabled(t) {
					cand = append(cand, t)
				}
			}
			k := m.chooseEnum(len(cand))
			m.switchTo(th, cand[k])
		}
		th.blocked = nil
		return nil
	}
	intrinsics["verifUFBool"] = func(m *Machine, th *Thread, fn *ssa.Function, a []Value, site ssa.Instruction) Value {
		return m.uf(m.strArg(a[0]), BoolSort, m.variadic(a[1]))
	}
	intrinsics["verifUFInt"] = func(m *Machine, th *Thread, fn *ssa.Function, a []Value, site ssa.Instruction) Value {
		lo, hi := m.intArg(a[1]), m.intArg(a[2])
		t := m.uf(m.strArg(a[0]), BV(64), m.variadic(a[3]))
		if m.concrete == nil {
			m.assume(m.tt.And(m.tt.Cmp(OpSLE, m.tt.Const(64, uint64(lo)), t), m.tt.Cmp(OpSLE, t, m.tt.Const(64, uint64(hi)))))
		}
		return t
	}
	intrinsics["verifSetField"] = func(m *Machine, th *Thread, fn *ssa.Function, a []Value, site ssa.Instruction) Value {
		p, st := m.fieldOf(a[0], m.strArg(a[1]))
		v := a[2].(*IfaceV)
		var val Value
		if v.T == nil {
			val = m.zero(st)
		} else {
			val = v.V
			// interface-typed field: keep the interface
			if _, isI := st.Underlying().(*types.Interface); isI {
				val = v
			}
		}
		m.store(p, val)
		return nil
	}
	intrinsics["verifGetField"] = func(m *Machine, th *Thread, fn *ssa.Function, a []Value, site ssa.Instruction) Value {
		p, st := m.fieldOf(a[0], m.strArg(a[1]))
		v := m.load(p)
		if _, isI := st.Underlying().(*types.Interface); isI {
			return v
		}
		return &IfaceV{T: st, V: v}
	}
	// verifInitMaps(ptr): every nil map field of the struct ptr points to becomes an empty map
	// (what a constructor bypassed by the harness would have done)
	intrinsics["verifInitMaps"] = func(m *Machine, th *Thread, fn *ssa.Function, a []Value, site ssa.Instruction) Value {
		iv := a[0].(*IfaceV)
		p, ok := iv.V.(*Ptr)
		if !ok || p.Obj == nil {
			panic(m.unsupported("verifInitMaps needs a non-nil struct pointer"))
		}
		pt, ok := iv.T.Underlying().(*types.Pointer)
		if !ok {
			panic(m.unsupported("verifInitMaps: not a pointer: %v", iv.T))
		}
		st, ok := pt.Elem().Underlying().(*types.Struct)
		if !ok {
			panic(m.unsupported("verifInitMaps: not a struct pointer: %v", iv.T))
		}
		for i := 0; i < st.NumFields(); i++ {
			mt, isMap := st.Field(i).Type().Underlying().(*types.Map)
			if !isMap {
				continue
			}
			fp := p.sub(i)
			if mv, _ := m.peek(fp).(*MapV); mv == nil {
				m.mapSeq++
				m.store(fp, &MapV{ID: m.mapSeq, KT: mt.Key(), VT: mt.Elem()})
			}
		}
		return nil
	}
	intrinsics["verifFieldPtr"] = func(m *Machine, th *Thread, fn *ssa.Function, a []Value, site ssa.Instruction) Value {
		p, st := m.fieldOf(a[0], m.strArg(a[1]))
		return &IfaceV{T: types.NewPointer(st), V: p}
	}
	intrinsics["verifRaceScope"] = func(m *Machine, th *Thread, fn *ssa.Function, a []Value, site ssa.Instruction) Value {
		iv := a[0].(*IfaceV)
		p, ok := iv.V.(*Ptr)
		if !ok || p.Obj == nil {
			panic(m.unsupported("verifRaceScope needs a non-nil pointer"))
		}
		p.Obj.Race = &raceInfo{w: map[string]access{}, rd: map[string][]access{}}
		p.Obj.Label = m.strArg(a[1])
		m.raceOn = true
		return nil
	}
	// verifRaceScopeDeep(ptr, label): the object ptr points to and every heap object reachable
	// from it (through pointers, slices, interfaces, closures' captured variables excluded)
	// is watched by the race detector - so that state hanging off a shared object is covered
	// whatever field holds it.
	intrinsics["verifRaceScopeDeep"] = func(m *Machine, th *Thread, fn *ssa.Function, a []Value, site ssa.Instruction) Value {
		iv := a[0].(*IfaceV)
		p, ok := iv.V.(*Ptr)
		if !ok || p.Obj == nil {
			panic(m.unsupported("verifRaceScopeDeep needs a non-nil pointer"))
		}
		label := m.strArg(a[1])
		seen := map[*Obj]bool{}
		var walk func(v Value, depth int)
		mark := func(o *Obj, depth int) {
			if o == nil || seen[o] || len(seen) > 200 {
				return
			}
			seen[o] = true
			if o.Race == nil {
				o.Race = &raceInfo{w: map[string]access{}, rd: map[string][]access{}}
				if o.Label == "" {
					o.Label = label + " (reachable)"
				}
			}
			walk(o.V, depth+1)
		}
		walk = func(v Value, depth int) {
			if depth > 8 {
				return
			}
			switch x := v.(type) {
			case *Ptr:
				mark(x.Obj, depth)
			case *StructV:
				for _, f := range x.F {
					walk(f, depth)
				}
			case *ArrayV:
				for _, e := range x.E {
					walk(e, depth)
				}
			case *SliceV:
				mark(x.Arr, depth)
			case *IfaceV:
				if x.T != nil {
					walk(x.V, depth)
				}
			}
		}
		mark(p.Obj, 0)
		p.Obj.Label = label
		m.raceOn = true
		return nil
	}
	intrinsics["verifMapOrderAny"] = func(m *Machine, th *Thread, fn *ssa.Function, a []Value, site ssa.Instruction) Value {
		return nil
	}
}

// fieldOf resolves (pointer-to-struct, field name) to a field pointer, including unexported fields.
func (m *Machine) fieldOf(v Value, field string) (*Ptr, types.Type) {
	iv := v.(*IfaceV)
	p, ok := iv.V.(*Ptr)
	if !ok || p.Obj == nil {
		panic(m.unsupported("verifSetField/GetField needs a non-nil struct pointer"))
	}
	st, ok := deref(iv.T).Underlying().(*types.Struct)
	if !ok {
		panic(m.unsupported("verifSetField/GetField: not a struct pointer: %v", iv.T))
	}
	for i := 0; i < st.NumFields(); i++ {
		if st.Field(i).Name() == field {
			return p.sub(i), st.Field(i).Type()
		}
	}
	panic(m.unsupported("no field %s in %v", field, iv.T))
}

// uf applies an uninterpreted function (functional consistency by construction).
func (m *Machine) uf(name string, s Sort, args []Value) *Term {
	// strip interface wrappers
	vals := make([]Value, len(args))
	for i, a := range args {
		if iv, ok := a.(*IfaceV); ok && iv.T != nil {
			vals[i] = iv.V
		} else {
			vals[i] = a
		}
	}
	// identical argument tuple: same result (no fresh variable needed)
	for _, prev := range m.ufs[name] {
		if len(prev.args) != len(vals) {
			continue
		}
		same := true
		for i := range vals {
			if !sameValue(prev.args[i], vals[i]) {
				same = false
				break
			}
		}
		if same {
			return prev.res
		}
	}
	r := m.newInput("uf."+name, s, "uf")
	if m.concrete == nil {
		cons := m.tt.True
		for _, prev := range m.ufs[name] {
			eq := m.tt.True
			if len(prev.args) != len(vals) {
				continue
			}
			for i := range vals {
				eq = m.tt.And(eq, m.valEq(prev.args[i], vals[i]))
			}
			cons = m.tt.And(cons, m.tt.Implies(eq, m.tt.Eq(r, prev.res)))
		}
		if !cons.IsTrue() {
			m.assume(cons)
		}
	}
	m.ufs[name] = append(m.ufs[name], ufCall{args: vals, res: r})
	return r
}

// sameValue: syntactic identity of two engine values (cheap, conservative).
func sameValue(a, b Value) bool {
	switch x := a.(type) {
	case *Term:
		y, ok := b.(*Term)
		return ok && x == y
	case *Ptr:
		y, ok := b.(*Ptr)
		return ok && ptrEq(x, y)
	case *StrV:
		y, ok := b.(*StrV)
		if !ok {
			return false
		}
		if x == y {
			return true
		}
		if !x.Sym && !y.Sym {
			return x.S == y.S
		}
		if x.Sym && y.Sym && x.Len == y.Len && len(x.B) == len(y.B) {
			for i := range x.B {
				if x.B[i] != y.B[i] {
					return false
				}
			}
			return true
		}
	}
	return false
}

func registerStrings() {
	str := func(v Value) *StrV { return v.(*StrV) }
	intrinsics["strings.HasPrefix"] = func(m *Machine, th *Thread, fn *ssa.Function, a []Value, site ssa.Instruction) Value {
		return m.strHasPrefix(str(a[0]), str(a[1]))
	}
	intrinsics["strings.HasSuffix"] = func(m *Machine, th *Thread, fn *ssa.Function, a []Value, site ssa.Instruction) Value {
		return m.strHasSuffix(str(a[0]), str(a[1]))
	}
	intrinsics["strings.IndexByte"] = func(m *Machine, th *Thread, fn *ssa.Function, a []Value, site ssa.Instruction) Value {
		return m.strIndexByte(str(a[0]), a[1].(*Term))
	}
	intrinsics["internal/bytealg.IndexByteString"] = intrinsics["strings.IndexByte"]
	intrinsics["strings.LastIndexByte"] = func(m *Machine, th *Thread, fn *ssa.Function, a []Value, site ssa.Instruction) Value {
		return m.strLastIndexByte(str(a[0]), a[1].(*Term))
	}
	intrinsics["internal/bytealg.LastIndexByteString"] = intrinsics["strings.LastIndexByte"]
	intrinsics["strings.Index"] = func(m *Machine, th *Thread, fn *ssa.Function, a []Value, site ssa.Instruction) Value {
		return m.strIndexStr(str(a[0]), str(a[1]))
	}
	intrinsics["internal/bytealg.IndexString"] = intrinsics["strings.Index"]
	intrinsics["strings.Contains"] = func(m *Machine, th *Thread, fn *ssa.Function, a []Value, site ssa.Instruction) Value {
		idx := m.strIndexStr(str(a[0]), str(a[1]))
		return m.tt.Not(m.tt.Eq(idx, m.tt.Const(64, ^uint64(0))))
	}
	intrinsics["strings.ContainsRune"] = func(m *Machine, th *Thread, fn *ssa.Function, a []Value, site ssa.Instruction) Value {
		r := a[1].(*Term)
		idx := m.strIndexByte(str(a[0]), m.tt.Extract(r, 7, 0))
		return m.tt.And(m.tt.Cmp(OpULT, r, m.tt.Const(32, 0x80)), m.tt.Not(m.tt.Eq(idx, m.tt.Const(64, ^uint64(0)))))
	}
	intrinsics["internal/bytealg.CountString"] = func(m *Machine, th *Thread, fn *ssa.Function, a []Value, site ssa.Instruction) Value {
		return m.strCountByte(str(a[0]), a[1].(*Term))
	}
	intrinsics["strings.ToLower"] = func(m *Machine, th *Thread, fn *ssa.Function, a []Value, site ssa.Instruction) Value {
		s := str(a[0])
		if !s.Sym {
			return concStr(strings.ToLower(s.S))
		}
		return m.strMapBytes(s, m.byteToLower)
	}
	intrinsics["strings.ToUpper"] = func(m *Machine, th *Thread, fn *ssa.Function, a []Value, site ssa.Instruction) Value {
		s := str(a[0])
		if !s.Sym {
			return concStr(strings.ToUpper(s.S))
		}
		return m.strMapBytes(s, m.byteToUpper)
	}
	intrinsics["strings.EqualFold"] = func(m *Machine, th *Thread, fn *ssa.Function, a []Value, site ssa.Instruction) Value {
		x, y := str(a[0]), str(a[1])
		if !x.Sym && !y.Sym {
			return m.tt.Bool(strings.EqualFold(x.S, y.S))
		}
		return m.strEq(m.strMapBytes(x, m.byteToLower), m.strMapBytes(y, m.byteToLower))
	}
	intrinsics["internal/bytealg.Equal"] = func(m *Machine, th *Thread, fn *ssa.Function, a []Value, site ssa.Instruction) Value {
		x, y := a[0].(*SliceV), a[1].(*SliceV)
		if x.Len != y.Len {
			return m.tt.False
		}
		r := m.tt.True
		xe, ye := m.sliceElems(x), m.sliceElems(y)
		for i := range xe {
			r = m.tt.And(r, m.tt.Eq(xe[i].(*Term), ye[i].(*Term)))
		}
		return r
	}
	intrinsics["bytes.Equal"] = intrinsics["internal/bytealg.Equal"]
	intrinsics["internal/bytealg.IndexByte"] = func(m *Machine, th *Thread, fn *ssa.Function, a []Value, site ssa.Instruction) Value {
		x := a[0].(*SliceV)
		c := a[1].(*Term)
		r := m.tt.Const(64, ^uint64(0))
		xe := m.sliceElems(x)
		for i := len(xe) - 1; i >= 0; i-- {
			r = m.tt.Ite(m.tt.Eq(xe[i].(*Term), c), m.c64(i), r)
		}
		return r
	}
	intrinsics["internal/stringslite.HasPrefix"] = intrinsics["strings.HasPrefix"]
	intrinsics["internal/stringslite.HasSuffix"] = intrinsics["strings.HasSuffix"]
	intrinsics["internal/stringslite.IndexByte"] = intrinsics["strings.IndexByte"]
	intrinsics["internal/stringslite.Index"] = intrinsics["strings.Index"]
}

func registerSync() {
	ptr := func(v Value) *Ptr { return v.(*Ptr) }
	intrinsics["(*sync.Mutex).Lock"] = func(m *Machine, th *Thread, fn *ssa.Function, a []Value, site ssa.Instruction) Value {
		m.mutexLock(th, ptr(a[0]))
		return nil
	}
	intrinsics["(*sync.Mutex).Unlock"] = func(m *Machine, th *Thread, fn *ssa.Function, a []Value, site ssa.Instruction) Value {
		m.mutexUnlock(th, ptr(a[0]))
		return nil
	}
	intrinsics["(*sync.Mutex).TryLock"] = func(m *Machine, th *Thread, fn *ssa.Function, a []Value, site ssa.Instruction) Value {
		return m.tt.Bool(m.mutexTryLock(th, ptr(a[0])))
	}
	intrinsics["(*sync.RWMutex).Lock"] = intrinsics["(*sync.Mutex).Lock"]
	intrinsics["(*sync.RWMutex).Unlock"] = intrinsics["(*sync.Mutex).Unlock"]
	intrinsics["(*sync.RWMutex).RLock"] = func(m *Machine, th *Thread, fn *ssa.Function, a []Value, site ssa.Instruction) Value {
		m.rwRLock(th, ptr(a[0]))
		return nil
	}
	intrinsics["(*sync.RWMutex).RUnlock"] = func(m *Machine, th *Thread, fn *ssa.Function, a []Value, site ssa.Instruction) Value {
		m.rwRUnlock(th, ptr(a[0]))
		return nil
	}
	intrinsics["(*sync.WaitGroup).Add"] = func(m *Machine, th *Thread, fn *ssa.Function, a []Value, site ssa.Instruction) Value {
		s := m.syncState(ptr(a[0]))
		d := int(m.intArg(a[1]))
		if d < 0 {
			m.releaseHB(th, s)
		}
		s.count += d
		if s.count < 0 {
			m.goPanic("sync: negative WaitGroup counter")
		}
		return nil
	}
	intrinsics["(*sync.WaitGroup).Done"] = func(m *Machine, th *Thread, fn *ssa.Function, a []Value, site ssa.Instruction) Value {
		s := m.syncState(ptr(a[0]))
		m.releaseHB(th, s)
		s.count--
		if s.count < 0 {
			m.goPanic("sync: negative WaitGroup counter")
		}
		return nil
	}
	intrinsics["(*sync.WaitGroup).Wait"] = func(m *Machine, th *Thread, fn *ssa.Function, a []Value, site ssa.Instruction) Value {
		s := m.syncState(ptr(a[0]))
		m.yield(th)
		m.block(th, "WaitGroup.Wait", func() bool { return s.count == 0 })
		m.acquireHB(th, s)
		return nil
	}
	intrinsics["(*sync.Once).Do"] = func(m *Machine, th *Thread, fn *ssa.Function, a []Value, site ssa.Instruction) Value {
		s := m.syncState(ptr(a[0]))
		m.yield(th)
		m.block(th, "Once.Do", func() bool { return !s.running })
		if s.doneOnce {
			m.acquireHB(th, s)
			return nil
		}
		s.running = true
		defer func() {
			s.running = false
			s.doneOnce = true
			m.releaseHB(th, s)
		}()
		m.callFn(th, a[1], nil, site)
		return nil
	}
	// atomics: each is one indivisible step preceded by a preemption point
	atomicOp := func(f func(m *Machine, th *Thread, p *Ptr, a []Value) Value) intrinsic {
		return func(m *Machine, th *Thread, fn *ssa.Function, a []Value, site ssa.Instruction) Value {
			p := ptr(a[0])
			if p.Obj == nil {
				m.goPanic("runtime error: invalid memory address or nil pointer dereference")
			}
			m.yield(th)
			s := m.syncState(p)
			m.acquireHB(th, s)
			saved := m.raceOn
			m.raceOn = false // atomic accesses do not race with each other
			r := f(m, th, p, a)
			m.raceOn = saved
			m.releaseHB(th, s)
			return r
		}
	}
	load := atomicOp(func(m *Machine, th *Thread, p *Ptr, a []Value) Value { return m.load(p) })
	store := atomicOp(func(m *Machine, th *Thread, p *Ptr, a []Value) Value { m.store(p, a[1]); return nil })
	add := atomicOp(func(m *Machine, th *Thread, p *Ptr, a []Value) Value {
		v := m.tt.BinBV(OpAdd, m.load(p).(*Term), a[1].(*Term))
		m.store(p, v)
		return v
	})
	swap := atomicOp(func(m *Machine, th *Thread, p *Ptr, a []Value) Value {
		old := m.load(p)
		m.store(p, a[1])
		return old
	})
	cas := atomicOp(func(m *Machine, th *Thread, p *Ptr, a []Value) Value {
		old := m.load(p)
		if m.branch(m.valEq(old, a[1])) {
			m.store(p, a[2])
			return m.tt.True
		}
		return m.tt.False
	})
	for _, t := range []string{"Int32", "Int64", "Uint32", "Uint64", "Uintptr", "Pointer"} {
		intrinsics["sync/atomic.Load"+t] = load
		intrinsics["sync/atomic.Store"+t] = store
		intrinsics["sync/atomic.Swap"+t] = swap
		intrinsics["sync/atomic.CompareAndSwap"+t] = cas
		if t != "Pointer" {
			intrinsics["sync/atomic.Add"+t] = add
		}
	}
	// atomic.Value: the struct has one field v interface{}
	intrinsics["(*sync/atomic.Value).Load"] = atomicOp(func(m *Machine, th *Thread, p *Ptr, a []Value) Value {
		return m.load(p.sub(0))
	})
	intrinsics["(*sync/atomic.Value).Store"] = atomicOp(func(m *Machine, th *Thread, p *Ptr, a []Value) Value {
		v := a[1].(*IfaceV)
		if v.T == nil {
			m.goPanic("sync/atomic: store of nil value into Value")
		}
		// every Store must use the concrete type of the first one
		if old, ok := m.load(p.sub(0)).(*IfaceV); ok && old.T != nil && !types.Identical(old.T, v.T) {
			m.goPanic("sync/atomic: store of inconsistently typed value into Value")
		}
		m.store(p.sub(0), v)
		return nil
	})
}

func registerMisc() {
	opaque := func(m *Machine, th *Thread, fn *ssa.Function, a []Value, site ssa.Instruction) Value {
		return m.formatLike(fn, a)
	}
	intrinsics["fmt.Sprintf"] = opaque
	intrinsics["fmt.Sprint"] = opaque
	intrinsics["fmt.Sprintln"] = opaque
	intrinsics["fmt.Errorf"] = func(m *Machine, th *Thread, fn *ssa.Function, a []Value, site ssa.Instruction) Value {
		s := m.formatLike(fn, a).(*StrV)
		return m.newError(s)
	}
	noop := func(m *Machine, th *Thread, fn *ssa.Function, a []Value, site ssa.Instruction) Value {
		return m.zeroResults(fn)
	}
	for _, n := range []string{"fmt.Printf", "fmt.Println", "fmt.Print", "fmt.Fprintf", "fmt.Fprintln", "fmt.Fprint",
		"runtime.KeepAlive", "runtime.GC", "runtime.Gosched", "runtime/debug.PrintStack", "runtime.SetFinalizer",
		"log.Printf", "log.Println", "log.Print"} {
		intrinsics[n] = noop
	}
	// time.Sleep: the passage of time is not modelled; sleeping is a scheduling point
	intrinsics["time.Sleep"] = func(m *Machine, th *Thread, fn *ssa.Function, a []Value, site ssa.Instruction) Value {
		m.yield(th)
		return nil
	}
	intrinsics["syscall.Getpagesize"] = func(m *Machine, th *Thread, fn *ssa.Function, a []Value, site ssa.Instruction) Value {
		return m.tt.Const(64, 4096)
	}
	intrinsics["runtime/debug.Stack"] = func(m *Machine, th *Thread, fn *ssa.Function, a []Value, site ssa.Instruction) Value {
		return m.makeSlice(types.Typ[types.Byte], 0, 0)
	}
	intrinsics["math/rand.Intn"] = func(m *Machine, th *Thread, fn *ssa.Function, a []Value, site ssa.Instruction) Value {
		n := a[0].(*Term)
		if m.branch(m.tt.Cmp(OpSLE, n, m.tt.Const(64, 0))) {
			m.goPanic("invalid argument to Intn")
		}
		r := m.newInput("rand.Intn", BV(64), "int")
		if m.concrete == nil {
			m.assume(m.tt.Cmp(OpULT, r, n))
		}
		return r
	}
	intrinsics["math/rand.Int63n"] = intrinsics["math/rand.Intn"]
	// rand.Shuffle: an arbitrary permutation (Fisher-Yates with every choice explored); n concrete
	intrinsics["math/rand.Shuffle"] = func(m *Machine, th *Thread, fn *ssa.Function, a []Value, site ssa.Instruction) Value {
		n := m.intArg(a[0])
		if n < 0 {
			m.goPanic("invalid argument to Shuffle")
		}
		for i := n - 1; i > 0; i-- {
			j := int64(m.chooseEnum(int(i + 1)))
			m.callFn(th, a[1], []Value{m.tt.Const(64, uint64(i)), m.tt.Const(64, uint64(j))}, site)
		}
		return nil
	}
	intrinsics["math/rand.Float64"] = func(m *Machine, th *Thread, fn *ssa.Function, a []Value, site ssa.Instruction) Value {
		// the smallest, a middle and (nearly) the largest value of [0,1); floats are concrete in the engine
		vals := []float64{0, 0.5, 0.9999999}
		return m.tt.FConst(mathBits(vals[m.chooseEnum(3)]))
	}
	intrinsics["math/rand.Uint32"] = func(m *Machine, th *Thread, fn *ssa.Function, a []Value, site ssa.Instruction) Value {
		return m.newInput("rand.Uint32", BV(32), "int")
	}
	intrinsics["math/rand.Uint64"] = func(m *Machine, th *Thread, fn *ssa.Function, a []Value, site ssa.Instruction) Value {
		return m.newInput("rand.Uint64", BV(64), "int")
	}
	intrinsics["math/rand.Int"] = func(m *Machine, th *Thread, fn *ssa.Function, a []Value, site ssa.Instruction) Value {
		r := m.newInput("rand.Int", BV(64), "int")
		if m.concrete == nil {
			m.assume(m.tt.Cmp(OpSLE, m.tt.Const(64, 0), r))
		}
		return r
	}
	intrinsics["errors.New"] = func(m *Machine, th *Thread, fn *ssa.Function, a []Value, site ssa.Instruction) Value {
		return m.newError(a[0].(*StrV))
	}
	intrinsics["os.Getenv"] = func(m *Machine, th *Thread, fn *ssa.Function, a []Value, site ssa.Instruction) Value {
		return concStr("")
	}
}

// newError builds an *errors.errorString value wrapped as an error interface.
func (m *Machine) newError(s *StrV) Value {
	et := m.P.errStringType
	o := m.newObj(et, &StructV{F: []Value{s}}, "error")
	return &IfaceV{T: types.NewPointer(et), V: &Ptr{Obj: o}}
}

// formatLike models fmt.Sprintf & co: native when all arguments are concrete
// basic values, an opaque constant otherwise.
func (m *Machine) formatLike(fn *ssa.Function, a []Value) Value {
	var format string
	var rest []Value
	hasFmt := strings.HasSuffix(fn.Name(), "f")
	if hasFmt {
		fs, ok := a[0].(*StrV)
		if !ok || fs.Sym {
			return concStr("<fmt:symbolic-format>")
		}
		format = fs.S
		rest = m.variadic(a[1])
	} else {
		rest = m.variadic(a[0])
	}
	nat := make([]interface{}, len(rest))
	for i, v := range rest {
		n, ok := m.toNative(v)
		if !ok {
			return concStr("<fmt:" + format + ">")
		}
		nat[i] = n
	}
	switch fn.Name() {
	case "Sprintf", "Errorf":
		// %w is only valid in Errorf; the text is the same as %v
		return concStr(fmt.Sprintf(strings.ReplaceAll(format, "%w", "%v"), nat...))
	case "Sprint":
		return concStr(fmt.Sprint(nat...))
	default:
		return concStr(fmt.Sprintln(nat...))
	}
}

// toNative converts a concrete engine value (inside an interface) to a Go value for formatting.
func (m *Machine) toNative(v Value) (interface{}, bool) {
	iv, ok := v.(*IfaceV)
	if !ok {
		return nil, false
	}
	if iv.T == nil {
		return nil, true
	}
	switch x := iv.V.(type) {
	case *StrV:
		if x.Sym {
			return nil, false
		}
		return x.S, true
	case *Term:
		if !x.IsConst() {
			return nil, false
		}
		switch {
		case x.S.K == KBool:
			return x.Val == 1, true
		case x.S.K == KFP:
			return m.fval(x), true
		case isSigned(iv.T):
			return sext(x.Val, x.S.W), true
		default:
			return x.Val, true
		}
	case *Ptr:
		// error values created by newError / errors.New
		if x.Obj != nil && x.Obj.T == m.P.errStringType {
			if s, ok := x.Obj.V.(*StructV).F[0].(*StrV); ok && !s.Sym {
				return fmt.Errorf("%s", s.S), true
			}
		}
	}
	return nil, false
}
