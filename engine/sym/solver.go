package sym

import (
	"bufio"
	"fmt"
	"io"
	"os"
	"os/exec"
	"strconv"
	"strings"
	"time"
)

// Solver is one long-lived SMT solver process driven over pipes.
type Solver struct {
	Kind    string // "z3-new", "z3", "cvc5", "cvc5-int"
	cmd     *exec.Cmd
	in      *bufio.Writer
	out     *bufio.Reader
	defined map[int]bool    // term ids with a define-fun
	decl    map[string]bool // declared variable names
	depth   int
	Queries int
	Sat     int
	Unsat   int
	Unknown int
	Errors  int
	Time    time.Duration
	log     io.Writer
	dead    bool
	LastErr string
}

func solverArgv(kind string, timeoutMs int) []string {
	switch kind {
	case "z3":
		return []string{"z3", "-in", fmt.Sprintf("-t:%d", timeoutMs)}
	case "cvc5":
		return []string{"cvc5", "--incremental", "--produce-models", "--lang=smt2", fmt.Sprintf("--tlimit-per=%d", timeoutMs)}
	case "cvc5-int":
		return []string{"cvc5", "--incremental", "--produce-models", "--lang=smt2", "--solve-bv-as-int=sum", fmt.Sprintf("--tlimit-per=%d", timeoutMs)}
	default:
		return []string{"z3-new", "-in", fmt.Sprintf("-t:%d", timeoutMs)}
	}
}

// NewSolver starts a solver process.
func NewSolver(kind string, timeoutMs int, logw io.Writer) (*Solver, error) {
	argv := solverArgv(kind, timeoutMs)
	cmd := exec.Command(argv[0], argv[1:]...)
	stdin, err := cmd.StdinPipe()
	if err != nil {
		return nil, err
	}
	stdout, err := cmd.StdoutPipe()
	if err != nil {
		return nil, err
	}
	cmd.Stderr = os.Stderr
	if err := cmd.Start(); err != nil {
		return nil, err
	}
	s := &Solver{Kind: kind, cmd: cmd, in: bufio.NewWriterSize(stdin, 1<<16), out: bufio.NewReaderSize(stdout, 1<<16),
		defined: map[int]bool{}, decl: map[string]bool{}, log: logw}
	s.send("(set-option :global-declarations true)")
	s.send("(set-option :produce-models true)")
	if strings.HasPrefix(kind, "cvc5") {
		s.send("(set-logic ALL)")
	}
	return s, nil
}

func (s *Solver) send(line string) {
	if s.log != nil {
		fmt.Fprintln(s.log, line)
	}
	s.in.WriteString(line)
	s.in.WriteByte('\n')
}

// Close terminates the process.
func (s *Solver) Close() {
	if s.cmd != nil && s.cmd.Process != nil {
		s.send("(exit)")
		s.in.Flush()
		s.cmd.Process.Kill()
		s.cmd.Wait()
	}
}

// define emits declarations/definitions needed to reference t.
func (s *Solver) define(t *Term) {
	switch t.Op {
	case OpConst:
		return
	case OpVar:
		if !s.decl[t.Name] {
			s.decl[t.Name] = true
			s.send(fmt.Sprintf("(declare-const %s %s)", quoteName(t.Name), t.S))
		}
		return
	}
	if s.defined[t.ID] {
		return
	}
	for _, a := range t.Args {
		s.define(a)
	}
	s.defined[t.ID] = true
	s.send(fmt.Sprintf("(define-fun t%d () %s %s)", t.ID, t.S, body(t)))
}

// Push asserts t on a new level.
func (s *Solver) Push(t *Term) {
	s.define(t)
	s.send("(push 1)")
	s.send(fmt.Sprintf("(assert %s)", ref(t)))
	s.depth++
}

// Pop removes n levels.
func (s *Solver) Pop(n int) {
	if n <= 0 {
		return
	}
	s.send(fmt.Sprintf("(pop %d)", n))
	s.depth -= n
}

func (s *Solver) Depth() int { return s.depth }

// Result of a check.
type Result int

const (
	Unsat Result = iota
	Sat
	Unknown
)

func (r Result) String() string { return [...]string{"unsat", "sat", "unknown"}[r] }

func (s *Solver) readLine() (string, error) {
	for {
		line, err := s.out.ReadString('\n')
		if err != nil {
			s.dead = true
			return "", err
		}
		line = strings.TrimSpace(line)
		if line == "" {
			continue
		}
		return line, nil
	}
}

// Check runs check-sat on the current stack.
func (s *Solver) Check() Result {
	if s.dead {
		s.Unknown++
		return Unknown
	}
	start := time.Now()
	s.send("(check-sat)")
	s.in.Flush()
	s.Queries++
	defer func() { s.Time += time.Since(start) }()
	for {
		line, err := s.readLine()
		if err != nil {
			s.LastErr = "solver died: " + err.Error()
			s.Errors++
			return Unknown
		}
		switch {
		case line == "sat":
			s.Sat++
			return Sat
		case line == "unsat":
			s.Unsat++
			return Unsat
		case line == "unknown" || line == "timeout":
			s.Unknown++
			return Unknown
		case strings.HasPrefix(line, "(error"):
			s.LastErr = line
			s.Errors++
			// keep reading: the check-sat answer follows, but it cannot be trusted
			// drain until sat/unsat/unknown
			for {
				l2, err := s.readLine()
				if err != nil || l2 == "sat" || l2 == "unsat" || l2 == "unknown" {
					break
				}
			}
			return Unknown
		default:
			// unexpected output, ignore (e.g. warnings)
		}
	}
}

// CheckWith checks the stack plus one extra assertion, leaving the stack unchanged.
func (s *Solver) CheckWith(t *Term) Result {
	s.Push(t)
	r := s.Check()
	s.Pop(1)
	return r
}

// Values asks for the model values of the given variable terms (after a Sat check).
func (s *Solver) Values(vars []*Term) (map[string]uint64, error) {
	res := map[string]uint64{}
	if len(vars) == 0 {
		return res, nil
	}
	const chunk = 200
	for i := 0; i < len(vars); i += chunk {
		j := i + chunk
		if j > len(vars) {
			j = len(vars)
		}
		var sb strings.Builder
		sb.WriteString("(get-value (")
		for _, v := range vars[i:j] {
			s.define(v)
			sb.WriteString(ref(v))
			sb.WriteString(" ")
		}
		sb.WriteString("))")
		s.send(sb.String())
		s.in.Flush()
		txt, err := s.readSexp()
		if err != nil {
			return nil, err
		}
		if strings.HasPrefix(txt, "(error") {
			return nil, fmt.Errorf("get-value: %s", txt)
		}
		vals := parseValues(txt)
		if len(vals) != j-i {
			return nil, fmt.Errorf("get-value: expected %d values, got %d in %q", j-i, len(vals), txt)
		}
		for k, v := range vars[i:j] {
			res[v.Name] = vals[k]
		}
	}
	return res, nil
}

func (s *Solver) readSexp() (string, error) {
	var sb strings.Builder
	depth := 0
	started := false
	inBar := false
	for {
		c, err := s.out.ReadByte()
		if err != nil {
			s.dead = true
			return "", err
		}
		if !started && (c == ' ' || c == '\n' || c == '\r' || c == '\t') {
			continue
		}
		sb.WriteByte(c)
		if c == '|' {
			inBar = !inBar
		}
		if inBar {
			continue
		}
		if c == '(' {
			depth++
			started = true
		} else if c == ')' {
			depth--
			if depth == 0 {
				return sb.String(), nil
			}
		} else if !started {
			// atom response (e.g. "unsupported")
			rest, _ := s.out.ReadString('\n')
			return sb.String() + rest, nil
		}
	}
}

// parseValues parses "((name val) (name val) ...)" returning the values in order.
func parseValues(txt string) []uint64 {
	var vals []uint64
	// tokenise
	i := 0
	n := len(txt)
	depth := 0
	for i < n {
		c := txt[i]
		switch {
		case c == '(':
			depth++
			i++
		case c == ')':
			depth--
			i++
		case c == ' ' || c == '\n' || c == '\t' || c == '\r':
			i++
		case c == '|':
			j := strings.IndexByte(txt[i+1:], '|')
			i += j + 2
		default:
			j := i
			for j < n && txt[j] != ' ' && txt[j] != ')' && txt[j] != '(' && txt[j] != '\n' {
				j++
			}
			tok := txt[i:j]
			i = j
			if depth == 2 {
				switch {
				case strings.HasPrefix(tok, "#x"):
					v, _ := strconv.ParseUint(tok[2:], 16, 64)
					vals = append(vals, v)
				case strings.HasPrefix(tok, "#b"):
					v, _ := strconv.ParseUint(tok[2:], 2, 64)
					vals = append(vals, v)
				case tok == "true":
					vals = append(vals, 1)
				case tok == "false":
					vals = append(vals, 0)
				}
			} else if depth == 3 && tok == "_" {
				// (_ bvN w)
				rest := txt[i:]
				rest = strings.TrimLeft(rest, " ")
				if strings.HasPrefix(rest, "bv") {
					k := 2
					for k < len(rest) && rest[k] >= '0' && rest[k] <= '9' {
						k++
					}
					v, _ := strconv.ParseUint(rest[2:k], 10, 64)
					vals = append(vals, v)
				}
			}
		}
	}
	return vals
}

// CheckWithValue checks the stack plus cond and, when sat, returns the model value of t.
func (s *Solver) CheckWithValue(cond, t *Term) (Result, uint64) {
	s.Push(cond)
	r := s.Check()
	var v uint64
	if r == Sat {
		vals, err := s.ValuesOfTerms([]*Term{t})
		if err != nil || len(vals) != 1 {
			s.LastErr = fmt.Sprint("get-value failed: ", err)
			r = Unknown
		} else {
			v = vals[0]
		}
	}
	s.Pop(1)
	return r, v
}

// ValuesOfTerms evaluates arbitrary terms in the current model.
func (s *Solver) ValuesOfTerms(ts []*Term) ([]uint64, error) {
	var sb strings.Builder
	sb.WriteString("(get-value (")
	for _, t := range ts {
		s.define(t)
		sb.WriteString(ref(t))
		sb.WriteString(" ")
	}
	sb.WriteString("))")
	s.send(sb.String())
	s.in.Flush()
	txt, err := s.readSexp()
	if err != nil {
		return nil, err
	}
	if strings.HasPrefix(txt, "(error") {
		return nil, fmt.Errorf("get-value: %s", txt)
	}
	vals := parseValues(txt)
	if len(vals) != len(ts) {
		return nil, fmt.Errorf("get-value: expected %d values, got %d in %q", len(ts), len(vals), txt)
	}
	return vals, nil
}
