package sym

import (
	"go/types"

	"golang.org/x/tools/go/ssa"
)

func (m *Machine) methodByName(t types.Type, name string) *ssa.Function {
	m.P.mu.Lock()
	defer m.P.mu.Unlock()
	ms := m.P.Prog.MethodSets.MethodSet(t)
	for i := 0; i < ms.Len(); i++ {
		sel := ms.At(i)
		if sel.Obj().Name() == name {
			return m.P.Prog.MethodValue(sel)
		}
	}
	return nil
}

func isComparableType(t types.Type) bool { return types.Comparable(t) }

// unwrapErr returns the next error in the chain (single Unwrap only).
func (m *Machine) unwrapErr(th *Thread, e *IfaceV) (*IfaceV, []Value) {
	f := m.methodByName(e.T, "Unwrap")
	if f == nil {
		return nil, nil
	}
	res := f.Signature.Results()
	if res.Len() != 1 {
		return nil, nil
	}
	r := m.callSSA(th, f, []Value{e.V}, nil, nil)
	if sl, ok := r.(*SliceV); ok {
		return nil, m.sliceElems(sl)
	}
	if iv, ok := r.(*IfaceV); ok {
		return iv, nil
	}
	return nil, nil
}

func (m *Machine) errorsIs(th *Thread, err, target *IfaceV) bool {
	if err.T == nil || target.T == nil {
		return err.T == nil && target.T == nil
	}
	for {
		if isComparableType(target.T) && types.Identical(err.T, target.T) {
			if m.branch(m.valEq(err, target)) {
				return true
			}
		}
		if f := m.methodByName(err.T, "Is"); f != nil && f.Signature.Params().Len() == 1 {
			r := m.callSSA(th, f, []Value{err.V, target}, nil, nil)
			if t, ok := r.(*Term); ok && m.branch(t) {
				return true
			}
		}
		next, multi := m.unwrapErr(th, err)
		if multi != nil {
			for _, e := range multi {
				if ev, ok := e.(*IfaceV); ok && ev.T != nil && m.errorsIs(th, ev, target) {
					return true
				}
			}
			return false
		}
		if next == nil || next.T == nil {
			return false
		}
		err = next
	}
}

func (m *Machine) errorsAs(th *Thread, err, target *IfaceV) bool {
	if err.T == nil {
		return false
	}
	if target.T == nil {
		m.goPanic("errors: target cannot be nil")
	}
	pt, ok := target.T.Underlying().(*types.Pointer)
	if !ok {
		m.goPanic("errors: target must be a non-nil pointer")
	}
	want := pt.Elem()
	p := target.V.(*Ptr)
	for {
		if it, isI := want.Underlying().(*types.Interface); isI {
			if m.implementsPtr(err.T, it) {
				m.store(p, err)
				return true
			}
		} else if types.Identical(err.T, want) {
			m.store(p, err.V)
			return true
		}
		next, multi := m.unwrapErr(th, err)
		if multi != nil {
			for _, e := range multi {
				if ev, ok := e.(*IfaceV); ok && ev.T != nil && m.errorsAs(th, ev, target) {
					return true
				}
			}
			return false
		}
		if next == nil || next.T == nil {
			return false
		}
		err = next
	}
}

func init() {
	intrinsics["errors.Is"] = func(m *Machine, th *Thread, fn *ssa.Function, a []Value, site ssa.Instruction) Value {
		return m.tt.Bool(m.errorsIs(th, a[0].(*IfaceV), a[1].(*IfaceV)))
	}
	intrinsics["errors.As"] = func(m *Machine, th *Thread, fn *ssa.Function, a []Value, site ssa.Instruction) Value {
		return m.tt.Bool(m.errorsAs(th, a[0].(*IfaceV), a[1].(*IfaceV)))
	}
}
