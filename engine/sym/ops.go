package sym

import (
	"fmt"
	"go/token"
	"go/types"
	"math"

	"golang.org/x/tools/go/ssa"
)

func (m *Machine) unop(fr *Frame, instr *ssa.UnOp) Value {
	x := fr.get(instr.X)
	switch instr.Op {
	case token.MUL: // load
		return m.load(x.(*Ptr))
	case token.NOT:
		return m.tt.Not(x.(*Term))
	case token.SUB:
		t := x.(*Term)
		if t.S.K == KFP {
			return m.tt.FConst(math.Float64bits(-m.fval(t)))
		}
		return m.tt.Neg(t)
	case token.XOR:
		return m.tt.BNot(x.(*Term))
	case token.ARROW:
		v, ok := m.chanRecv(fr.th, x.(*ChanV))
		if instr.CommaOk {
			return TupleV{v, m.tt.Bool(ok)}
		}
		return v
	}
	panic(m.unsupported("unop %v", instr.Op))
}

func (m *Machine) fval(t *Term) float64 {
	if !t.IsConst() {
		panic(m.unsupported("symbolic floating point value"))
	}
	return math.Float64frombits(t.Val)
}

// valEq returns a boolean term for a == b.
func (m *Machine) valEq(a, b Value) *Term {
	switch a := a.(type) {
	case *Term:
		bt, ok := b.(*Term)
		if !ok {
			return m.tt.False
		}
		if a.S.K == KFP {
			return m.tt.Bool(m.fval(a) == m.fval(bt))
		}
		if a.S != bt.S {
			return m.tt.False
		}
		return m.tt.Eq(a, bt)
	case *StrV:
		bs, ok := b.(*StrV)
		if !ok {
			return m.tt.False
		}
		return m.strEq(a, bs)
	case *Ptr:
		bp, ok := b.(*Ptr)
		if !ok {
			return m.tt.False
		}
		return m.tt.Bool(ptrEq(a, bp))
	case *IfaceV:
		bi, ok := b.(*IfaceV)
		if !ok {
			return m.tt.False
		}
		if a.T == nil || bi.T == nil {
			return m.tt.Bool(a.T == nil && bi.T == nil)
		}
		if !types.Identical(a.T, bi.T) {
			return m.tt.False
		}
		switch a.T.Underlying().(type) {
		case *types.Slice, *types.Map, *types.Signature:
			m.goPanic("runtime error: comparing uncomparable type " + typeKey(a.T))
		}
		return m.valEq(a.V, bi.V)
	case *StructV:
		bs := b.(*StructV)
		r := m.tt.True
		for i := range a.F {
			r = m.tt.And(r, m.valEq(a.F[i], bs.F[i]))
		}
		return r
	case *ArrayV:
		bs := b.(*ArrayV)
		r := m.tt.True
		for i := range a.E {
			r = m.tt.And(r, m.valEq(a.E[i], bs.E[i]))
		}
		return r
	case *SliceV:
		bs := b.(*SliceV)
		// only comparison with nil is legal
		if bs.Arr == nil {
			return m.tt.Bool(a.Arr == nil)
		}
		if a.Arr == nil {
			return m.tt.Bool(bs.Arr == nil)
		}
		panic(m.unsupported("slice comparison"))
	case *MapV:
		bm, _ := b.(*MapV)
		return m.tt.Bool(a == bm)
	case *FuncV:
		bf, _ := b.(*FuncV)
		if a == nil || bf == nil {
			return m.tt.Bool(a == nil && bf == nil)
		}
		panic(m.unsupported("func comparison"))
	case *ChanV:
		bc, _ := b.(*ChanV)
		return m.tt.Bool(a == bc)
	case *NativeV:
		bn, ok := b.(*NativeV)
		if !ok {
			return m.tt.False
		}
		return m.tt.Bool(a == bn || (a.Kind == bn.Kind && a.V == bn.V))
	case nil:
		return m.tt.Bool(b == nil)
	}
	panic(m.unsupported("valEq on %T", a))
}

func (m *Machine) binop(op token.Token, t types.Type, x, y Value) Value {
	switch op {
	case token.EQL:
		return m.valEq(x, y)
	case token.NEQ:
		return m.tt.Not(m.valEq(x, y))
	}
	if xs, ok := x.(*StrV); ok {
		ys := y.(*StrV)
		switch op {
		case token.ADD:
			return m.strConcat(xs, ys)
		case token.LSS:
			return m.strLess(xs, ys)
		case token.GTR:
			return m.strLess(ys, xs)
		case token.LEQ:
			return m.tt.Not(m.strLess(ys, xs))
		case token.GEQ:
			return m.tt.Not(m.strLess(xs, ys))
		}
		panic(m.unsupported("string binop %v", op))
	}
	a, ok := x.(*Term)
	if !ok {
		panic(m.unsupported("binop %v on %T", op, x))
	}
	b := y.(*Term)
	if a.S.K == KFP {
		return m.floatBinop(op, t, a, b)
	}
	if a.S.K == KBool {
		switch op {
		case token.AND, token.LAND:
			return m.tt.And(a, b)
		case token.OR, token.LOR:
			return m.tt.Or(a, b)
		}
		panic(m.unsupported("bool binop %v", op))
	}
	signed := isSigned(t)
	w := int(a.S.W)
	switch op {
	case token.ADD:
		return m.tt.BinBV(OpAdd, a, b)
	case token.SUB:
		return m.tt.BinBV(OpSub, a, b)
	case token.MUL:
		return m.tt.BinBV(OpMul, a, b)
	case token.QUO, token.REM:
		zero := m.tt.Eq(b, m.tt.Const(w, 0))
		if m.branch(zero) {
			m.goPanic("runtime error: integer divide by zero")
		}
		var o Op
		switch {
		case op == token.QUO && signed:
			o = OpSDiv
		case op == token.QUO:
			o = OpUDiv
		case signed:
			o = OpSRem
		default:
			o = OpURem
		}
		return m.tt.BinBV(o, a, b)
	case token.AND:
		return m.tt.BinBV(OpBAnd, a, b)
	case token.OR:
		return m.tt.BinBV(OpBOr, a, b)
	case token.XOR:
		return m.tt.BinBV(OpBXor, a, b)
	case token.AND_NOT:
		return m.tt.BinBV(OpBAnd, a, m.tt.BNot(b))
	case token.SHL, token.SHR:
		// shift count may have another width; Go: count >= width gives 0 / sign fill
		cnt := b
		if int(cnt.S.W) < w {
			cnt = m.tt.ZExt(cnt, w)
		} else if int(cnt.S.W) > w {
			// if any high bit set => large
			big := m.tt.Not(m.tt.Cmp(OpULT, cnt, m.tt.Const(int(cnt.S.W), uint64(w))))
			lowc := m.tt.Extract(cnt, w-1, 0)
			cnt = m.tt.Ite(big, m.tt.Const(w, uint64(w)), lowc)
		}
		switch {
		case op == token.SHL:
			return m.tt.BinBV(OpShl, a, cnt)
		case signed:
			return m.tt.BinBV(OpAShr, a, cnt)
		default:
			return m.tt.BinBV(OpLShr, a, cnt)
		}
	case token.LSS:
		if signed {
			return m.tt.Cmp(OpSLT, a, b)
		}
		return m.tt.Cmp(OpULT, a, b)
	case token.LEQ:
		if signed {
			return m.tt.Cmp(OpSLE, a, b)
		}
		return m.tt.Cmp(OpULE, a, b)
	case token.GTR:
		if signed {
			return m.tt.Cmp(OpSLT, b, a)
		}
		return m.tt.Cmp(OpULT, b, a)
	case token.GEQ:
		if signed {
			return m.tt.Cmp(OpSLE, b, a)
		}
		return m.tt.Cmp(OpULE, b, a)
	}
	panic(m.unsupported("binop %v", op))
}

func (m *Machine) floatBinop(op token.Token, t types.Type, a, b *Term) Value {
	x, y := m.fval(a), m.fval(b)
	is32 := false
	if bt, ok := t.Underlying().(*types.Basic); ok && bt.Kind() == types.Float32 {
		is32 = true
	}
	f := func(r float64) Value {
		if is32 {
			r = float64(float32(r))
		}
		return m.tt.FConst(math.Float64bits(r))
	}
	switch op {
	case token.ADD:
		return f(x + y)
	case token.SUB:
		return f(x - y)
	case token.MUL:
		return f(x * y)
	case token.QUO:
		return f(x / y)
	case token.LSS:
		return m.tt.Bool(x < y)
	case token.LEQ:
		return m.tt.Bool(x <= y)
	case token.GTR:
		return m.tt.Bool(x > y)
	case token.GEQ:
		return m.tt.Bool(x >= y)
	}
	panic(m.unsupported("float binop %v", op))
}

func (m *Machine) conv(dst, src types.Type, x Value) Value {
	ud, us := dst.Underlying(), src.Underlying()
	switch ud := ud.(type) {
	case *types.Basic:
		switch {
		case ud.Info()&types.IsInteger != 0:
			t, ok := x.(*Term)
			if !ok {
				if p, isP := x.(*Ptr); isP && ud.Kind() == types.Uintptr {
					// unsafe.Pointer -> uintptr: opaque id
					if p.Obj == nil {
						return m.tt.Const(64, 0)
					}
					return m.tt.Const(64, uint64(p.Obj.ID)*4096)
				}
				panic(m.unsupported("convert %T to integer", x))
			}
			w := m.intWidth(ud)
			if t.S.K == KFP {
				f := m.fval(t)
				if ud.Info()&types.IsUnsigned != 0 {
					return m.tt.Const(w, uint64(f))
				}
				return m.tt.Const(w, uint64(int64(f)))
			}
			if isSigned(src) {
				return m.tt.SExt(t, w)
			}
			return m.tt.ZExt(t, w)
		case ud.Info()&types.IsFloat != 0:
			t := x.(*Term)
			var f float64
			if t.S.K == KFP {
				f = m.fval(t)
			} else {
				if !t.IsConst() {
					panic(m.unsupported("symbolic int to float conversion"))
				}
				if isSigned(src) {
					f = float64(sext(t.Val, t.S.W))
				} else {
					f = float64(t.Val)
				}
			}
			if ud.Kind() == types.Float32 {
				f = float64(float32(f))
			}
			return m.tt.FConst(math.Float64bits(f))
		case ud.Info()&types.IsString != 0:
			switch xs := x.(type) {
			case *StrV:
				return xs
			case *SliceV:
				return m.bytesToStr(xs, us)
			case *Term:
				// string(rune)
				if !xs.IsConst() {
					// ASCII byte assumed: one-byte string
					b := m.tt.Extract(xs, 7, 0)
					return &StrV{Sym: true, Len: m.tt.Const(64, 1), B: []*Term{b}}
				}
				return concStr(string(rune(sext(xs.Val, xs.S.W))))
			}
		case ud.Kind() == types.UnsafePointer:
			return x
		}
	case *types.Slice:
		if s, ok := x.(*StrV); ok {
			return m.strToSlice(s, ud)
		}
		return x
	case *types.Pointer:
		return x
	}
	panic(m.unsupported("conversion %v -> %v (%T)", src, dst, x))
}

// ---- builtins ---------------------------------------------------------

func (m *Machine) callBuiltin(th *Thread, b *ssa.Builtin, args []Value, site ssa.Instruction) Value {
	switch b.Name() {
	case "len":
		switch x := args[0].(type) {
		case *StrV:
			return m.strLen(x)
		case *SliceV:
			return m.tt.Const(64, uint64(x.Len))
		case *MapV:
			if x == nil {
				return m.tt.Const(64, 0)
			}
			return m.tt.Const(64, uint64(len(x.Entries)))
		case *ArrayV:
			return m.tt.Const(64, uint64(len(x.E)))
		case *Ptr:
			if x.Obj == nil {
				return m.tt.Const(64, 0)
			}
			return m.tt.Const(64, uint64(len(m.peek(x).(*ArrayV).E)))
		case *ChanV:
			if x == nil {
				return m.tt.Const(64, 0)
			}
			return m.tt.Const(64, uint64(len(x.buf)))
		}
	case "cap":
		switch x := args[0].(type) {
		case *SliceV:
			return m.tt.Const(64, uint64(x.Cap))
		case *ArrayV:
			return m.tt.Const(64, uint64(len(x.E)))
		case *ChanV:
			if x == nil {
				return m.tt.Const(64, 0)
			}
			return m.tt.Const(64, uint64(x.cap))
		case *Ptr:
			return m.tt.Const(64, uint64(len(m.peek(x).(*ArrayV).E)))
		}
	case "append":
		s := args[0].(*SliceV)
		et := b.Type().(*types.Signature).Params().At(0).Type().Underlying().(*types.Slice).Elem()
		switch y := args[1].(type) {
		case *SliceV:
			return m.appendSlice(et, s, append([]Value(nil), m.sliceElems(y)...))
		case *StrV:
			bs := m.strToSlice(y, types.NewSlice(types.Typ[types.Byte]))
			return m.appendSlice(et, s, append([]Value(nil), m.sliceElems(bs)...))
		}
	case "copy":
		dst := args[0].(*SliceV)
		var src []Value
		switch y := args[1].(type) {
		case *SliceV:
			src = append([]Value(nil), m.sliceElems(y)...)
		case *StrV:
			bs := m.strToSlice(y, types.NewSlice(types.Typ[types.Byte]))
			src = m.sliceElems(bs)
		}
		n := len(src)
		if dst.Len < n {
			n = dst.Len
		}
		de := m.sliceElems(dst)
		for i := 0; i < n; i++ {
			de[i] = copyVal(src[i])
		}
		return m.tt.Const(64, uint64(n))
	case "delete":
		mv := args[0].(*MapV)
		if mv != nil {
			m.mapDelete(mv, args[1])
		}
		return nil
	case "close":
		m.chanClose(th, args[0].(*ChanV))
		return nil
	case "panic":
		v := args[0].(*IfaceV)
		panic(&goPanicV{V: v, Msg: m.panicText(v)})
	case "recover":
		// called from a deferred function: th.top is the deferred function's frame
		fr := th.top
		if fr != nil && fr.caller != nil && fr.caller.panicking {
			fr.caller.panicking = false
			v := fr.caller.panicV.V
			if v == nil {
				return nilIface
			}
			return v
		}
		return nilIface
	case "print", "println":
		return nil
	case "min", "max":
		r := args[0].(*Term)
		t := b.Type().(*types.Signature).Params().At(0).Type()
		for _, a := range args[1:] {
			at := a.(*Term)
			var less *Term
			if r.S.K == KFP {
				less = m.tt.Bool(m.fval(at) < m.fval(r))
			} else if isSigned(t) {
				less = m.tt.Cmp(OpSLT, at, r)
			} else {
				less = m.tt.Cmp(OpULT, at, r)
			}
			if b.Name() == "max" {
				less = m.tt.Not(less)
				if at == r {
					continue
				}
			}
			r = m.tt.Ite(less, at, r)
		}
		return r
	case "clear":
		switch x := args[0].(type) {
		case *MapV:
			if x != nil {
				x.Entries = nil
			}
			return nil
		case *SliceV:
			if x.Arr != nil {
				arr := x.backing()
				for i := x.Off; i < x.Off+x.Len; i++ {
					switch e := arr.E[i].(type) {
					case *Term:
						if e.S.K == KBool {
							arr.E[i] = m.tt.False
						} else if e.S.K == KBV {
							arr.E[i] = m.tt.Const(int(e.S.W), 0)
						} else {
							arr.E[i] = m.tt.FConst(0)
						}
					case *StrV:
						arr.E[i] = concStr("")
					case *Ptr:
						arr.E[i] = nilPtr
					default:
						at, ok := x.Arr.T.Underlying().(*types.Array)
						if !ok || len(x.Base) != 0 {
							panic(m.unsupported("clear of a slice of %T", arr.E[i]))
						}
						arr.E[i] = m.zero(at.Elem())
					}
				}
			}
			return nil
		}
	case "ssa:wrapnilchk":
		p := args[0].(*Ptr)
		if p.Obj == nil {
			m.goPanic("value method called using nil pointer")
		}
		return p
	}
	panic(m.unsupported("builtin %s(%T...)", b.Name(), args[0]))
}

// ---- maps --------------------------------------------------------------

// findEntry resolves key equality against the entries (case split when symbolic).
func (m *Machine) findEntry(mv *MapV, key Value) int {
	for i, e := range mv.Entries {
		eq := m.valEq(e.K, key)
		if m.branch(eq) {
			return i
		}
	}
	return -1
}

func (m *Machine) lookup(instr *ssa.Lookup, x, key Value) Value {
	switch x := x.(type) {
	case *StrV:
		return m.strIndex(x, key.(*Term))
	case *MapV:
		var v Value
		ok := false
		if x != nil {
			if i := m.findEntry(x, key); i >= 0 {
				v = copyVal(x.Entries[i].V)
				ok = true
			}
		}
		if !ok {
			v = m.zero(instr.X.Type().Underlying().(*types.Map).Elem())
		}
		if instr.CommaOk {
			return TupleV{v, m.tt.Bool(ok)}
		}
		return v
	}
	panic(m.unsupported("lookup on %T", x))
}

func (m *Machine) mapGet(mv *MapV, key Value) (Value, bool) {
	if mv == nil {
		return nil, false
	}
	if i := m.findEntry(mv, key); i >= 0 {
		return mv.Entries[i].V, true
	}
	return nil, false
}

func (m *Machine) mapUpdate(mv *MapV, key, val Value) {
	if i := m.findEntry(mv, key); i >= 0 {
		mv.Entries[i].V = copyVal(val)
		return
	}
	mv.Entries = append(mv.Entries, &MapEntry{K: key, V: copyVal(val)})
}

func (m *Machine) mapDelete(mv *MapV, key Value) {
	if i := m.findEntry(mv, key); i >= 0 {
		ne := make([]*MapEntry, 0, len(mv.Entries)-1)
		ne = append(ne, mv.Entries[:i]...)
		ne = append(ne, mv.Entries[i+1:]...)
		mv.Entries = ne
	}
}

// ---- range / next --------------------------------------------------------

type mapIter struct {
	mv      *MapV
	snap    []*MapEntry
	visited []bool
	pos     int
}

type strIter struct {
	s   *StrV
	pos int
}

func (m *Machine) rangeIter(x Value, t types.Type) Value {
	switch x := x.(type) {
	case *MapV:
		it := &mapIter{mv: x}
		if x != nil {
			it.snap = append(it.snap, x.Entries...)
			it.visited = make([]bool, len(it.snap))
		}
		return &NativeV{V: it, Kind: "mapiter"}
	case *StrV:
		return &NativeV{V: &strIter{s: x}, Kind: "striter"}
	}
	panic(m.unsupported("range over %T", x))
}

func (m *Machine) iterNext(it *NativeV, instr *ssa.Next) Value {
	switch it := it.V.(type) {
	case *mapIter:
		tup := instr.Type().(*types.Tuple)
		kt, vt := tup.At(1).Type(), tup.At(2).Type()
		zeroK := func() Value {
			if isInvalid(kt) {
				return nil
			}
			return m.zero(kt)
		}
		zeroV := func() Value {
			if isInvalid(vt) {
				return nil
			}
			return m.zero(vt)
		}
		// entries deleted during iteration are skipped
		live := func(e *MapEntry) bool {
			for _, c := range it.mv.Entries {
				if c == e {
					return true
				}
			}
			return false
		}
		var cand []int
		for i, e := range it.snap {
			if !it.visited[i] && live(e) {
				cand = append(cand, i)
			}
		}
		if len(cand) == 0 {
			return TupleV{m.tt.False, zeroK(), zeroV()}
		}
		pick := cand[0]
		if m.P.Cfg.MapOrderAny && len(cand) > 1 {
			pick = cand[m.chooseEnum(len(cand))]
		}
		it.visited[pick] = true
		e := it.snap[pick]
		return TupleV{m.tt.True, e.K, copyVal(e.V)}
	case *strIter:
		s := it.s
		n := m.strLen(s)
		if !m.branch(m.tt.Cmp(OpULT, m.tt.Const(64, uint64(it.pos)), n)) {
			return TupleV{m.tt.False, m.tt.Const(64, 0), m.tt.Const(32, 0)}
		}
		if !s.Sym {
			// decode UTF-8 natively
			r, size := decodeRune(s.S[it.pos:])
			idx := it.pos
			it.pos += size
			return TupleV{m.tt.True, m.tt.Const(64, uint64(idx)), m.tt.Const(32, uint64(r))}
		}
		idx := it.pos
		it.pos++
		return TupleV{m.tt.True, m.tt.Const(64, uint64(idx)), m.tt.ZExt(s.B[idx], 32)}
	}
	panic(m.unsupported("next on %T", it.V))
}

func isInvalid(t types.Type) bool {
	b, ok := t.(*types.Basic)
	return ok && b.Kind() == types.Invalid
}

func decodeRune(s string) (rune, int) {
	for i, r := range s {
		_ = i
		n := len(string(r))
		if r == 0xFFFD && (len(s) < 3 || s[:3] != "�") {
			return r, 1
		}
		return r, n
	}
	return 0, 0
}

// chooseEnum is an unconditional n-way enumerated choice.
func (m *Machine) chooseEnum(n int) int {
	if n <= 1 {
		return 0
	}
	if m.concrete != nil {
		return m.nextReplayChoice(n)
	}
	return m.choose(n, nil)
}

var _ = fmt.Sprintf
