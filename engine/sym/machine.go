package sym

import (
	"fmt"
	"go/types"
	"sort"
	"strings"
	"sync"

	"golang.org/x/tools/go/ssa"
)

// Dec is one recorded decision of a path.
type Dec struct {
	C      int  // chosen alternative
	Forced bool // the alternative was implied by the path condition (no assertion needed on replay)
	Enum   bool // enumerated (condition-free) choice: schedule, map order, select
	Val    uint64 // concretisation decisions: the value chosen for the term
	IsVal  bool
}

// Input is a symbolic input created by a verif* intrinsic (or nondet model).
type Input struct {
	Name string
	T    *Term
	Kind string // int, bool, byte, len
}

// pathEnd is the panic value that terminates a path.
type pathEnd struct {
	Kind string // done, assume, violation, unsupported, limit, abort, inconclusive
	Msg  string
}

// goPanicV is the panic value of an interpreted Go panic.
type goPanicV struct {
	V   Value  // the Go-level panic value (an *IfaceV)
	Msg string // human-readable
	RT  bool   // runtime error
}

// Violation describes an assertion failure found on a path.
type Violation struct {
	Harness   string            `json:"harness"`
	Kind      string            `json:"kind"` // assert, panic, race, deadlock
	Label     string            `json:"label"`
	Detail    string            `json:"detail"`
	Inputs    []ModelVal        `json:"inputs"`
	Decisions []int             `json:"decisions"`
	EnumChoices []int           `json:"enum_choices"`
	Confirmed map[string]string `json:"confirmed"`
	Trace     []string          `json:"trace,omitempty"`
}

type ModelVal struct {
	Name  string `json:"name"`
	Kind  string `json:"kind"`
	Value uint64 `json:"value"`
}

// PathResult is what a single path run reports back.
type PathResult struct {
	Kind      string
	Msg       string
	Violation *Violation
	NewWork   [][]Dec
	Covers    []string
	Asserts   map[string]int
	Decisions int
	Steps     int
	Funcs     map[*ssa.Function]bool
	Sample    map[string]uint64
	Soft      []*Violation
}

// Machine is one worker's interpreter state.
type Machine struct {
	P   *Program
	tt  *Terms
	sol *Solver

	harness string
	entry   *ssa.Function
	bounds  map[string]int

	// path state
	lits      map[int]bool
	pcDepth   int
	prefix    []Dec
	cursor    int
	trace     []Dec
	newWork   [][]Dec
	inputs    []Input
	nameCount map[string]int
	globals   map[*ssa.Global]*Obj
	ginit     map[*ssa.Global]bool
	pkgInit   map[*ssa.Package]bool
	objSeq    int
	mapSeq    int
	steps     int
	covers    map[string]bool
	asserts   map[string]int
	funcs     map[*ssa.Function]bool
	ufs       map[string][]ufCall
	hstate    map[string]Value // harness-visible engine state (e.g. clocks)
	callDepth int
	traceLog  []string

	concrete  map[string]uint64 // concrete replay: input name -> value
	isReplay  bool
	inconc    string // reason the path is inconclusive ("" = fine)
	wantSample bool

	// threads
	threads  []*Thread
	cur      *Thread
	aborting bool
	endCh    chan pathEnd
	wg       sync.WaitGroup
	preempt  int
	quiesce  []*FuncV
	raceOn   bool
	mutexes  map[*Obj]*mutexState
	subKeys  map[string]*Obj
	syncMaps map[string]*MapV
	afterFuncs map[*Obj]*afterFuncState
	vtimers    map[*Obj]*vTimer
	vtimerList []*vTimer
	vnow       int64
	idleFires  int
	builders map[string]*StrV
	softViol []*Violation // known findings met on this path (the path continues)
	spec     bool // speculative (if-conversion) evaluation in progress
	noIfConv bool
	ifConvs  int
}

func (m *Machine) unsupported(format string, args ...interface{}) pathEnd {
	msg := fmt.Sprintf(format, args...)
	if m.cur != nil && m.cur.top != nil {
		msg += " [in " + m.cur.top.where() + "]"
	}
	return pathEnd{Kind: "unsupported", Msg: msg}
}

func (m *Machine) endPath(kind, msg string) {
	panic(pathEnd{Kind: kind, Msg: msg})
}

// goPanic raises an interpreted run-time panic.
func (m *Machine) goPanic(msg string) {
	panic(&goPanicV{V: &IfaceV{T: m.P.rtErrType, V: concStr(msg)}, Msg: msg + m.stack(), RT: true})
}

// ---- path condition ------------------------------------------------

func (m *Machine) litKnown(c *Term) (val, ok bool) {
	if c.IsConst() {
		return c.Val == 1, true
	}
	if v, ok := m.lits[c.ID]; ok {
		return v, true
	}
	if c.Op == OpNot {
		if v, ok := m.lits[c.Args[0].ID]; ok {
			return !v, true
		}
	}
	return false, false
}

func (m *Machine) setLit(c *Term, v bool) {
	if c.IsConst() {
		return
	}
	if c.Op == OpNot {
		m.setLit(c.Args[0], !v)
		return
	}
	m.lits[c.ID] = v
	// conjunctions that hold imply their conjuncts; failed disjunctions likewise
	if v && c.Op == OpAnd {
		m.setLit(c.Args[0], true)
		m.setLit(c.Args[1], true)
	}
	if !v && c.Op == OpOr {
		m.setLit(c.Args[0], false)
		m.setLit(c.Args[1], false)
	}
}

// assertPC adds c to the path condition (solver + literal cache).
func (m *Machine) assertPC(c *Term) {
	if c.IsConst() {
		return
	}
	m.sol.Push(c)
	m.pcDepth++
	m.setLit(c, true)
}

func (m *Machine) noteUnknown(what string) {
	if m.inconc == "" {
		m.inconc = "solver unknown/error at " + what + ": " + m.sol.LastErr
	}
}

func (m *Machine) checkDepth() {
	if len(m.trace) > m.P.Cfg.MaxDecisions {
		m.endPath("limit", fmt.Sprintf("decision depth limit %d exceeded (unwinding bound)", m.P.Cfg.MaxDecisions))
	}
}

// branch decides a symbolic boolean condition, forking the path if both
// outcomes are feasible.
func (m *Machine) branch(c *Term) bool {
	if v, ok := m.litKnown(c); ok {
		return v
	}
	if m.spec {
		panic(specAbort{})
	}
	if m.concrete != nil {
		return m.evalConcrete(c) == 1
	}
	if m.cursor < len(m.prefix) {
		d := m.prefix[m.cursor]
		m.cursor++
		m.trace = append(m.trace, d)
		lit := c
		if d.C == 0 {
			lit = m.tt.Not(c)
		}
		if d.Forced {
			m.setLit(lit, true)
		} else {
			m.assertPC(lit)
		}
		return d.C == 1
	}
	m.checkDepth()
	r1 := m.sol.CheckWith(c)
	if r1 == Unknown {
		m.noteUnknown("branch")
	}
	if r1 == Unsat {
		m.trace = append(m.trace, Dec{C: 0, Forced: true})
		m.setLit(c, false)
		return false
	}
	nc := m.tt.Not(c)
	r0 := m.sol.CheckWith(nc)
	if r0 == Unknown {
		m.noteUnknown("branch")
	}
	if r0 == Unsat {
		m.trace = append(m.trace, Dec{C: 1, Forced: true})
		m.setLit(c, true)
		return true
	}
	// both feasible (or unknown: explore both, path marked inconclusive)
	alt := make([]Dec, len(m.trace)+1)
	copy(alt, m.trace)
	alt[len(m.trace)] = Dec{C: 0}
	m.newWork = append(m.newWork, alt)
	m.trace = append(m.trace, Dec{C: 1})
	m.assertPC(c)
	return true
}

// choose picks one of n alternatives; conds[i] (may be nil = true) is the
// condition under which alternative i is possible. Exactly the feasible ones are explored.
func (m *Machine) choose(n int, conds []*Term) int {
	if n == 1 && (conds == nil || conds[0] == nil) {
		return 0
	}
	if m.spec {
		panic(specAbort{})
	}
	if m.concrete != nil {
		for i := 0; i < n; i++ {
			if conds == nil || conds[i] == nil || m.evalConcrete(conds[i]) == 1 {
				if conds == nil {
					// enumerated choice: replay from the recorded decision list
					return m.nextReplayChoice(n)
				}
				return i
			}
		}
		m.endPath("assume", "no alternative feasible in concrete replay")
	}
	if m.cursor < len(m.prefix) {
		d := m.prefix[m.cursor]
		m.cursor++
		m.trace = append(m.trace, d)
		if conds != nil && conds[d.C] != nil {
			if d.Forced {
				m.setLit(conds[d.C], true)
			} else {
				m.assertPC(conds[d.C])
			}
		}
		return d.C
	}
	m.checkDepth()
	var feas []int
	for i := 0; i < n; i++ {
		if conds == nil || conds[i] == nil {
			feas = append(feas, i)
			continue
		}
		if v, ok := m.litKnown(conds[i]); ok {
			if v {
				feas = append(feas, i)
			}
			continue
		}
		r := m.sol.CheckWith(conds[i])
		if r == Unknown {
			m.noteUnknown("choose")
		}
		if r != Unsat {
			feas = append(feas, i)
		}
	}
	if len(feas) == 0 {
		m.endPath("assume", "no feasible alternative")
	}
	for _, j := range feas[1:] {
		alt := make([]Dec, len(m.trace)+1)
		copy(alt, m.trace)
		alt[len(m.trace)] = Dec{C: j, Enum: conds == nil}
		m.newWork = append(m.newWork, alt)
	}
	c := feas[0]
	m.trace = append(m.trace, Dec{C: c, Enum: conds == nil})
	if conds != nil && conds[c] != nil {
		m.assertPC(conds[c])
	}
	return c
}

// replayChoices supplies enumerated (condition-free) choices in concrete replay.
func (m *Machine) nextReplayChoice(n int) int {
	if m.cursor < len(m.prefix) {
		d := m.prefix[m.cursor]
		m.cursor++
		if d.C < n {
			return d.C
		}
	}
	return 0
}

// assume restricts the path to c.
func (m *Machine) assume(c *Term) {
	if m.spec {
		panic(specAbort{})
	}
	if v, ok := m.litKnown(c); ok {
		if !v {
			m.endPath("assume", "")
		}
		return
	}
	if m.concrete != nil {
		if m.evalConcrete(c) != 1 {
			m.endPath("assume", "assumption false in concrete replay")
		}
		return
	}
	if m.cursor < len(m.prefix) {
		d := m.prefix[m.cursor]
		m.cursor++
		m.trace = append(m.trace, d)
		m.assertPC(c)
		return
	}
	m.sol.Push(c)
	m.pcDepth++
	r := m.sol.Check()
	if r == Unsat {
		m.endPath("assume", "")
	}
	if r == Unknown {
		m.noteUnknown("assume")
	}
	m.setLit(c, true)
	m.trace = append(m.trace, Dec{C: 1})
}

// check verifies that c holds on every input of this path.
func (m *Machine) check(c *Term, kind, label string) {
	if m.spec {
		panic(specAbort{})
	}
	m.asserts[label]++
	if v, ok := m.litKnown(c); ok {
		if v {
			return
		}
		if m.concrete == nil && m.P.KnownLabels[m.harness+"|"+label] {
			// known finding that fails on every input of this path: record it, end the path quietly
			if m.sol.Check() == Sat {
				m.softViol = append(m.softViol, m.buildViolation(kind, label, ""))
			}
			m.endPath("assume", "known finding "+label)
		}
		m.violation(kind, label, "")
	}
	if m.concrete != nil {
		if m.evalConcrete(c) != 1 {
			m.violation(kind, label, "")
		}
		return
	}
	if m.cursor < len(m.prefix) {
		d := m.prefix[m.cursor]
		m.cursor++
		m.trace = append(m.trace, d)
		if d.Forced {
			m.setLit(c, true)
		} else {
			m.assertPC(c) // continued past a known finding: the assertion was assumed
		}
		return
	}
	nc := m.tt.Not(c)
	m.sol.Push(nc)
	r := m.sol.Check()
	if r == Sat {
		if m.P.KnownLabels[m.harness+"|"+label] {
			// a listed known finding: record it, then go on with the inputs on which
			// the assertion holds so that later assertions are still checked
			v := m.buildViolation(kind, label, "")
			m.softViol = append(m.softViol, v)
			m.sol.Pop(1)
			m.sol.Push(c)
			m.pcDepth++
			r2 := m.sol.Check()
			if r2 == Unsat {
				m.endPath("assume", "known finding "+label+" holds on no input of this path")
			}
			if r2 == Unknown {
				m.noteUnknown("assert " + label)
			}
			m.setLit(c, true)
			m.trace = append(m.trace, Dec{C: 1})
			return
		}
		m.pcDepth++ // keep the negation asserted for model extraction; the path ends here
		m.violationWithModel(kind, label, "")
	}
	m.sol.Pop(1)
	if r == Unknown {
		m.noteUnknown("assert " + label)
	}
	m.setLit(c, true)
	m.trace = append(m.trace, Dec{C: 1, Forced: true})
}

func (m *Machine) violation(kind, label, detail string) {
	if m.concrete != nil {
		panic(pathEnd{Kind: "violation", Msg: kind + ":" + label + ":" + detail})
	}
	r := m.sol.Check()
	if r != Sat {
		m.noteUnknown("model for violation " + label)
		m.endPath("inconclusive", "violation "+label+" reached but model query returned "+r.String())
	}
	m.violationWithModel(kind, label, detail)
}

var curViolation = map[*Machine]*Violation{}
var curViolationMu sync.Mutex

func (m *Machine) violationWithModel(kind, label, detail string) {
	v := m.buildViolation(kind, label, detail)
	curViolationMu.Lock()
	curViolation[m] = v
	curViolationMu.Unlock()
	panic(pathEnd{Kind: "violation", Msg: kind + ":" + label + ":" + detail})
}

func (m *Machine) buildViolation(kind, label, detail string) *Violation {
	var vars []*Term
	for _, in := range m.inputs {
		vars = append(vars, in.T)
	}
	vals, err := m.sol.Values(vars)
	if err != nil {
		m.inconc = "get-value failed: " + err.Error()
		m.endPath("inconclusive", m.inconc)
	}
	v := &Violation{Harness: m.harness, Kind: kind, Label: label, Detail: detail, Confirmed: map[string]string{}}
	for _, in := range m.inputs {
		v.Inputs = append(v.Inputs, ModelVal{Name: in.Name, Kind: in.Kind, Value: vals[in.Name]})
	}
	for _, d := range m.trace {
		v.Decisions = append(v.Decisions, d.C)
		if d.Enum {
			v.EnumChoices = append(v.EnumChoices, d.C)
		}
	}
	v.Trace = append([]string(nil), m.traceLog...)
	return v
}

func (m *Machine) evalConcrete(c *Term) uint64 {
	return Eval(c, m.concrete, map[int]uint64{})
}

// ---- inputs ----------------------------------------------------------

func (m *Machine) freshName(base string) string {
	k := m.nameCount[base]
	m.nameCount[base] = k + 1
	if k == 0 {
		return base
	}
	return fmt.Sprintf("%s#%d", base, k)
}

// newInput creates a fresh symbolic variable (or its concrete value in replay mode).
func (m *Machine) newInput(base string, s Sort, kind string) *Term {
	name := m.freshName(base)
	if m.concrete != nil {
		v := m.concrete[name]
		if s.K == KBool {
			return m.tt.Bool(v == 1)
		}
		return m.tt.Const(int(s.W), v)
	}
	t := m.tt.Var(name, s)
	m.inputs = append(m.inputs, Input{Name: name, T: t, Kind: kind})
	return t
}

// ---- run one path ----------------------------------------------------

func (m *Machine) resetPath() {
	if m.sol != nil {
		m.sol.Pop(m.sol.Depth())
	}
	m.pcDepth = 0
	m.lits = map[int]bool{}
	m.cursor = 0
	m.trace = nil
	m.newWork = nil
	m.inputs = nil
	m.nameCount = map[string]int{}
	m.globals = map[*ssa.Global]*Obj{}
	m.ginit = map[*ssa.Global]bool{}
	m.pkgInit = map[*ssa.Package]bool{}
	m.objSeq = 0
	m.mapSeq = 0
	m.steps = 0
	m.covers = map[string]bool{}
	m.asserts = map[string]int{}
	m.ufs = map[string][]ufCall{}
	m.hstate = map[string]Value{}
	m.threads = nil
	m.cur = nil
	m.aborting = false
	m.inconc = ""
	m.softViol = nil
	m.spec = false
	m.preempt = 0
	m.quiesce = nil
	m.traceLog = nil
	m.callDepth = 0
	m.mutexes = map[*Obj]*mutexState{}
	m.subKeys = map[string]*Obj{}
	m.syncMaps = map[string]*MapV{}
	m.afterFuncs = nil
	m.vtimers, m.vtimerList, m.vnow, m.idleFires = nil, nil, 0, 0
	m.builders = map[string]*StrV{}
	m.raceOn = false
	if m.funcs == nil {
		m.funcs = map[*ssa.Function]bool{}
	}
}

// RunPath executes the harness entry following the decision prefix.
func (m *Machine) RunPath(prefix []Dec) *PathResult {
	m.resetPath()
	m.prefix = prefix
	end := m.runThreads()
	res := &PathResult{Kind: end.Kind, Msg: end.Msg, NewWork: m.newWork, Decisions: len(m.trace), Steps: m.steps, Asserts: m.asserts}
	for c := range m.covers {
		res.Covers = append(res.Covers, c)
	}
	sort.Strings(res.Covers)
	res.Soft = m.softViol
	if end.Kind == "violation" {
		curViolationMu.Lock()
		res.Violation = curViolation[m]
		delete(curViolation, m)
		curViolationMu.Unlock()
	}
	if end.Kind == "done" && m.inconc != "" {
		res.Kind = "inconclusive"
		res.Msg = m.inconc
	}
	if end.Kind == "done" && m.wantSample && m.concrete == nil && len(m.inputs) > 0 {
		if m.sol.Check() == Sat {
			var vars []*Term
			for _, in := range m.inputs {
				vars = append(vars, in.T)
			}
			if vals, err := m.sol.Values(vars); err == nil {
				res.Sample = vals
			}
		}
	}
	return res
}

// typeString is a stable textual form of a type used for dynamic-type comparison.
func typeKey(t types.Type) string { return types.TypeString(t, nil) }

func shortFn(fn *ssa.Function) string {
	s := fn.String()
	s = strings.ReplaceAll(s, "github.com/megaease/easegress/", "")
	return s
}
