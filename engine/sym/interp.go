package sym

import (
	"fmt"
	"go/constant"
	"go/token"
	"go/types"
	"math"
	"runtime"
	"runtime/debug"
	"strings"

	"golang.org/x/tools/go/ssa"
)

type deferred struct {
	fn    Value
	args  []Value
	instr *ssa.Defer
	tail  *deferred
}

// Frame is an activation record.
type Frame struct {
	th        *Thread
	fn        *ssa.Function
	caller    *Frame
	block     *ssa.BasicBlock
	prev      *ssa.BasicBlock
	env       map[ssa.Value]Value
	defers    *deferred
	panicking bool
	panicV    *goPanicV
	result    Value
	cur       ssa.Instruction
	visits    map[*ssa.BasicBlock]int
	skipPhis  bool
	retByConv bool
}

func (fr *Frame) where() string {
	s := shortFn(fr.fn)
	if fr.cur != nil && fr.cur.Pos() != token.NoPos {
		p := fr.fn.Prog.Fset.Position(fr.cur.Pos())
		s += fmt.Sprintf(" %s:%d", trimPath(p.Filename), p.Line)
	}
	return s
}

func trimPath(p string) string {
	if i := strings.Index(p, "/pkg/"); i >= 0 {
		return p[i+1:]
	}
	if i := strings.LastIndex(p, "/src/"); i >= 0 {
		return p[i+5:]
	}
	return p
}

func (m *Machine) stack() string {
	var sb strings.Builder
	if m.cur == nil {
		return ""
	}
	for fr := m.cur.top; fr != nil; fr = fr.caller {
		sb.WriteString("\n    at " + fr.where())
	}
	return sb.String()
}

func (fr *Frame) get(v ssa.Value) Value {
	m := fr.th.m
	switch v := v.(type) {
	case *ssa.Const:
		return m.constVal(v)
	case *ssa.Global:
		return &Ptr{Obj: m.globalObj(v)}
	case *ssa.Function:
		return &FuncV{Fn: v}
	case *ssa.Builtin:
		return &FuncV{Built: v}
	}
	r, ok := fr.env[v]
	if !ok {
		panic(m.unsupported("get: no value for %s (%T) in %s", v.Name(), v, fr.fn))
	}
	return r
}

func (m *Machine) constVal(c *ssa.Const) Value {
	t := c.Type()
	if c.Value == nil {
		if tp, ok := t.(*types.TypeParam); ok {
			_ = tp
			panic(m.unsupported("const of type parameter"))
		}
		return m.zero(t)
	}
	switch u := t.Underlying().(type) {
	case *types.Basic:
		switch {
		case u.Info()&types.IsBoolean != 0:
			return m.tt.Bool(constant.BoolVal(c.Value))
		case u.Info()&types.IsString != 0:
			return concStr(constant.StringVal(c.Value))
		case u.Info()&types.IsInteger != 0:
			w := m.intWidth(u)
			if u.Info()&types.IsUnsigned != 0 {
				return m.tt.Const(w, c.Uint64())
			}
			return m.tt.Const(w, uint64(c.Int64()))
		case u.Info()&types.IsFloat != 0:
			f := c.Float64()
			if u.Kind() == types.Float32 {
				f = float64(float32(f))
			}
			return m.tt.FConst(math.Float64bits(f))
		case u.Info()&types.IsComplex != 0:
			return &NativeV{V: c.Complex128(), Kind: "complex"}
		}
	}
	panic(m.unsupported("constant %v of type %v", c, t))
}

// callFn calls a function value.
func (m *Machine) callFn(th *Thread, fv Value, args []Value, site ssa.Instruction) Value {
	f, ok := fv.(*FuncV)
	if !ok || f == nil {
		m.goPanic("runtime error: invalid memory address or nil pointer dereference (call of nil func)")
	}
	if f.native != nil {
		return f.native(th)
	}
	if f.Built != nil {
		return m.callBuiltin(th, f.Built, args, site)
	}
	return m.callSSA(th, f.Fn, args, f.Env, site)
}

func (m *Machine) callSSA(th *Thread, fn *ssa.Function, args []Value, env []Value, site ssa.Instruction) Value {
	if fn.Synthetic == "package initializer" && !m.P.initPkgSet[fn.Pkg] {
		return nil
	}
	// 1. replacements, intrinsics
	if r, handled := m.dispatchSpecial(th, fn, args, site); handled {
		return r
	}
	if fn.Blocks == nil {
		if fn.Pkg != nil {
			fn.Pkg.Build()
		}
		if fn.Blocks == nil {
			panic(m.unsupported("external function without body: %s", fn))
		}
	}
	if fn.TypeParams().Len() > 0 && len(fn.TypeArgs()) == 0 {
		panic(m.unsupported("uninstantiated generic function %s", fn))
	}
	m.callDepth++
	if m.callDepth > m.P.Cfg.MaxCallDepth {
		st := m.stack()
		if len(st) > 1500 {
			st = st[:1500]
		}
		m.endPath("limit", fmt.Sprintf("call depth limit %d exceeded in %s%s", m.P.Cfg.MaxCallDepth, fn, st))
	}
	defer func() { m.callDepth-- }()
	m.funcs[fn] = true
	fr := &Frame{th: th, fn: fn, caller: th.top, env: make(map[ssa.Value]Value, 16)}
	th.top = fr
	defer func() { th.top = fr.caller }()
	fr.block = fn.Blocks[0]
	for _, l := range fn.Locals {
		fr.env[l] = &Ptr{Obj: m.newObj(deref(l.Type()), m.zero(deref(l.Type())), "")}
	}
	for i, p := range fn.Params {
		fr.env[p] = args[i]
	}
	for i, fv := range fn.FreeVars {
		fr.env[fv] = env[i]
	}
	for fr.block != nil {
		m.runFrame(fr)
	}
	return fr.result
}

func deref(t types.Type) types.Type {
	if p, ok := t.Underlying().(*types.Pointer); ok {
		return p.Elem()
	}
	panic("deref of non-pointer " + t.String())
}

func (m *Machine) runFrame(fr *Frame) {
	defer func() {
		if fr.block == nil {
			return // normal return
		}
		r := recover()
		gp, ok := r.(*goPanicV)
		if !ok {
			if re, isRT := r.(runtime.Error); isRT {
				// engine bug: keep the innermost Go stack and the interpreted stack
				panic(pathEnd{Kind: "unsupported", Msg: fmt.Sprintf("engine bug: %v\n%s\ninterpreted stack:%s", re, debug.Stack(), m.stack())})
			}
			panic(r) // path end: propagate
		}
		fr.panicking = true
		fr.panicV = gp
		m.runDefers(fr)
		fr.block = fr.fn.Recover
		if fr.block == nil {
			// recovered, no named results: return zero values
			fr.result = m.zeroResults(fr.fn)
		}
	}()
	for {
		blk := fr.block
		// phis
		i := 0
		if fr.skipPhis {
			fr.skipPhis = false
			for i < len(blk.Instrs) {
				if _, ok := blk.Instrs[i].(*ssa.Phi); !ok {
					break
				}
				i++
			}
		} else if len(blk.Instrs) > 0 {
			if _, ok := blk.Instrs[0].(*ssa.Phi); ok {
				pi := -1
				for k, p := range blk.Preds {
					if p == fr.prev {
						pi = k
						break
					}
				}
				var tmp []Value
				for ; i < len(blk.Instrs); i++ {
					phi, ok := blk.Instrs[i].(*ssa.Phi)
					if !ok {
						break
					}
					tmp = append(tmp, fr.get(phi.Edges[pi]))
				}
				for k := 0; k < i; k++ {
					fr.env[blk.Instrs[k].(*ssa.Phi)] = tmp[k]
				}
			}
		}
		jumped := false
		for ; i < len(blk.Instrs); i++ {
			instr := blk.Instrs[i]
			fr.cur = instr
			m.steps++
			if m.steps > m.P.Cfg.MaxSteps {
				m.endPath("limit", fmt.Sprintf("step limit %d exceeded (unwinding bound)", m.P.Cfg.MaxSteps))
			}
			switch m.visit(fr, instr) {
			case kReturn:
				return
			case kJump:
				jumped = true
			}
			if jumped {
				break
			}
		}
		if !jumped {
			panic(m.unsupported("block fell through in %s", fr.fn))
		}
	}
}

func (m *Machine) zeroResults(fn *ssa.Function) Value {
	res := fn.Signature.Results()
	switch res.Len() {
	case 0:
		return nil
	case 1:
		return m.zero(res.At(0).Type())
	}
	return m.zero(res)
}

func (m *Machine) runDefers(fr *Frame) {
	for d := fr.defers; d != nil; d = fr.defers {
		fr.defers = d.tail
		m.runDefer(fr, d)
	}
	fr.defers = nil
	if fr.panicking {
		panic(fr.panicV)
	}
}

func (m *Machine) runDefer(fr *Frame, d *deferred) {
	ok := false
	defer func() {
		if !ok {
			r := recover()
			gp, isGo := r.(*goPanicV)
			if !isGo {
				panic(r)
			}
			// deferred call started a new panic
			fr.panicking = true
			fr.panicV = gp
		}
	}()
	// the deferred function's frame must see fr as caller for recover()
	saved := fr.th.top
	fr.th.top = fr
	m.callFn(fr.th, d.fn, d.args, d.instr)
	fr.th.top = saved
	ok = true
}

type cont int

const (
	kNext cont = iota
	kReturn
	kJump
)

func (m *Machine) visit(fr *Frame, instr ssa.Instruction) cont {
	switch instr := instr.(type) {
	case *ssa.DebugRef:
	case *ssa.UnOp:
		fr.env[instr] = m.unop(fr, instr)
	case *ssa.BinOp:
		fr.env[instr] = m.binop(instr.Op, instr.X.Type(), fr.get(instr.X), fr.get(instr.Y))
	case *ssa.Call:
		fn, args := m.prepareCall(fr, &instr.Call)
		fr.env[instr] = m.callFn(fr.th, fn, args, instr)
	case *ssa.ChangeInterface:
		fr.env[instr] = fr.get(instr.X)
	case *ssa.ChangeType:
		fr.env[instr] = fr.get(instr.X)
	case *ssa.Convert:
		fr.env[instr] = m.conv(instr.Type(), instr.X.Type(), fr.get(instr.X))
	case *ssa.MultiConvert:
		fr.env[instr] = m.conv(instr.Type(), instr.X.Type(), fr.get(instr.X))
	case *ssa.SliceToArrayPointer:
		s := fr.get(instr.X).(*SliceV)
		n := int(deref(instr.Type()).Underlying().(*types.Array).Len())
		if s.Len < n {
			m.goPanic("runtime error: cannot convert slice to array pointer: length too short")
		}
		if s.Arr == nil {
			fr.env[instr] = nilPtr
		} else if s.Off == 0 && len(s.backing().E) == n {
			fr.env[instr] = &Ptr{Obj: s.Arr, Path: s.Base}
		} else {
			panic(m.unsupported("SliceToArrayPointer of a sub-slice"))
		}
	case *ssa.MakeInterface:
		fr.env[instr] = &IfaceV{T: instr.X.Type(), V: fr.get(instr.X)}
	case *ssa.Extract:
		fr.env[instr] = fr.get(instr.Tuple).(TupleV)[instr.Index]
	case *ssa.Slice:
		fr.env[instr] = m.sliceOp(fr, instr)
	case *ssa.Return:
		switch len(instr.Results) {
		case 0:
		case 1:
			fr.result = fr.get(instr.Results[0])
		default:
			res := make(TupleV, len(instr.Results))
			for i, r := range instr.Results {
				res[i] = fr.get(r)
			}
			fr.result = res
		}
		fr.block = nil
		return kReturn
	case *ssa.RunDefers:
		m.runDefers(fr)
	case *ssa.Panic:
		v := fr.get(instr.X).(*IfaceV)
		panic(&goPanicV{V: v, Msg: m.panicText(v)})
	case *ssa.Send:
		m.chanSend(fr.th, fr.get(instr.Chan).(*ChanV), fr.get(instr.X))
	case *ssa.Store:
		m.store(fr.get(instr.Addr).(*Ptr), fr.get(instr.Val))
	case *ssa.If:
		c := fr.get(instr.Cond).(*Term)
		if _, known := m.litKnown(c); !known && m.concrete == nil && !m.spec {
			if m.tryIfConv(fr, instr, c) {
				if fr.retByConv {
					return kReturn
				}
				return kJump
			}
		}
		succ := 1
		if m.branch(c) {
			succ = 0
		}
		fr.prev, fr.block = fr.block, fr.block.Succs[succ]
		return kJump
	case *ssa.Jump:
		fr.prev, fr.block = fr.block, fr.block.Succs[0]
		return kJump
	case *ssa.Defer:
		fn, args := m.prepareCall(fr, &instr.Call)
		if instr.DeferStack != nil {
			panic(m.unsupported("defer with explicit DeferStack (range-over-func)"))
		}
		fr.defers = &deferred{fn: fn, args: args, instr: instr, tail: fr.defers}
	case *ssa.Go:
		fn, args := m.prepareCall(fr, &instr.Call)
		m.spawn(fr.th, fn, args, instr)
	case *ssa.MakeChan:
		n := m.concretize(fr.get(instr.Size).(*Term), 64, "chan size")
		fr.env[instr] = m.newChan(n, instr.Type())
	case *ssa.Alloc:
		t := deref(instr.Type())
		if instr.Heap {
			fr.env[instr] = &Ptr{Obj: m.newObj(t, m.zero(t), m.posOf(instr))}
		} else {
			// local: re-zero (frames of on-demand initialiser slices have no pre-allocated locals)
			if p, ok := fr.env[instr].(*Ptr); ok {
				p.Obj.V = m.zero(t)
			} else {
				fr.env[instr] = &Ptr{Obj: m.newObj(t, m.zero(t), "")}
			}
		}
	case *ssa.MakeSlice:
		ln := m.concretize(fr.get(instr.Len).(*Term), m.P.Cfg.MaxSlice, "make len")
		cp := m.concretize(fr.get(instr.Cap).(*Term), m.P.Cfg.MaxSlice*4+64, "make cap")
		if cp < ln {
			m.goPanic("runtime error: makeslice: cap out of range")
		}
		et := instr.Type().Underlying().(*types.Slice).Elem()
		fr.env[instr] = m.makeSlice(et, ln, cp)
	case *ssa.MakeMap:
		mt := instr.Type().Underlying().(*types.Map)
		m.mapSeq++
		fr.env[instr] = &MapV{ID: m.mapSeq, KT: mt.Key(), VT: mt.Elem()}
	case *ssa.Range:
		fr.env[instr] = m.rangeIter(fr.get(instr.X), instr.X.Type())
	case *ssa.Next:
		fr.env[instr] = m.iterNext(fr.get(instr.Iter).(*NativeV), instr)
	case *ssa.FieldAddr:
		p := fr.get(instr.X).(*Ptr)
		if p.Obj == nil {
			m.goPanic("runtime error: invalid memory address or nil pointer dereference")
		}
		fr.env[instr] = p.sub(instr.Field)
	case *ssa.Field:
		fr.env[instr] = fr.get(instr.X).(*StructV).F[instr.Field]
	case *ssa.IndexAddr:
		fr.env[instr] = m.indexAddr(fr.get(instr.X), m.index64(fr, instr.Index))
	case *ssa.Index:
		fr.env[instr] = m.indexVal(fr.get(instr.X), m.index64(fr, instr.Index), instr.Type())
	case *ssa.Lookup:
		fr.env[instr] = m.lookup(instr, fr.get(instr.X), fr.get(instr.Index))
	case *ssa.MapUpdate:
		mv := fr.get(instr.Map).(*MapV)
		if mv == nil {
			m.goPanic("assignment to entry in nil map")
		}
		m.mapUpdate(mv, fr.get(instr.Key), fr.get(instr.Value))
	case *ssa.TypeAssert:
		fr.env[instr] = m.typeAssert(instr, fr.get(instr.X).(*IfaceV))
	case *ssa.MakeClosure:
		var b []Value
		for _, x := range instr.Bindings {
			b = append(b, fr.get(x))
		}
		fr.env[instr] = &FuncV{Fn: instr.Fn.(*ssa.Function), Env: b}
	case *ssa.Select:
		fr.env[instr] = m.selectOp(fr, instr)
	default:
		panic(m.unsupported("instruction %T", instr))
	}
	return kNext
}

func (m *Machine) posOf(instr ssa.Instruction) string {
	if instr.Pos() == token.NoPos {
		return ""
	}
	p := m.P.Prog.Fset.Position(instr.Pos())
	return fmt.Sprintf("%s:%d", trimPath(p.Filename), p.Line)
}

func (m *Machine) panicText(v *IfaceV) string {
	if v == nil || v.T == nil {
		return "panic(nil)"
	}
	switch x := v.V.(type) {
	case *StrV:
		if !x.Sym {
			return "panic: " + x.S
		}
		return "panic: <symbolic string>"
	case *Term:
		return "panic: " + m.show(x)
	case *Ptr:
		// error values: try to show the message of errors.errorString / fmt.wrapError
		if x.Obj != nil {
			if sv, ok := x.Obj.V.(*StructV); ok && len(sv.F) > 0 {
				if s, ok := sv.F[0].(*StrV); ok && !s.Sym {
					return "panic: " + typeKey(v.T) + ": " + s.S
				}
			}
		}
	}
	return "panic: value of type " + typeKey(v.T)
}

func (m *Machine) prepareCall(fr *Frame, call *ssa.CallCommon) (Value, []Value) {
	v := fr.get(call.Value)
	var fn Value
	var args []Value
	if call.Method == nil {
		fn = v
	} else {
		recv := v.(*IfaceV)
		if recv.T == nil {
			m.goPanic("runtime error: invalid memory address or nil pointer dereference (method call on nil interface)")
		}
		if nv, isNative := recv.V.(*NativeV); isNative {
			// engine-native receiver (reflect.Type ...): evaluated by callFn through a native thunk
			var nargs []Value
			for _, a := range call.Args {
				nargs = append(nargs, fr.get(a))
			}
			return &FuncV{native: func(th *Thread) Value {
				r, ok := m.nativeMethod(th, nv, call.Method.Name(), nargs)
				if !ok {
					panic(m.unsupported("method %s on engine-native %s", call.Method.Name(), nv.Kind))
				}
				return r
			}}, nil
		}
		f := m.lookupMethod(recv.T, call.Method)
		if f == nil {
			panic(m.unsupported("method %s not found for dynamic type %v", call.Method, recv.T))
		}
		fn = &FuncV{Fn: f}
		args = append(args, recv.V)
	}
	for _, a := range call.Args {
		args = append(args, fr.get(a))
	}
	return fn, args
}

func (m *Machine) lookupMethod(t types.Type, meth *types.Func) *ssa.Function {
	m.P.mu.Lock()
	defer m.P.mu.Unlock()
	return m.P.Prog.LookupMethod(t, meth.Pkg(), meth.Name())
}

// concretize turns an integer term into a concrete int: every feasible value is
// explored (model-guided enumeration: one query per feasible value plus one).
// Values above max end the path as an unwinding-bound failure.
func (m *Machine) concretize(t *Term, max int, what string) int {
	if t.IsConst() {
		return int(sext(t.Val, t.S.W))
	}
	if m.concrete != nil {
		return int(sext(m.evalConcrete(t), t.S.W))
	}
	if m.spec {
		panic(specAbort{})
	}
	w := int(t.S.W)
	finish := func(v uint64) int {
		sv := sext(v, t.S.W)
		if sv < 0 {
			return -1
		}
		if sv > int64(max) {
			m.endPath("limit", fmt.Sprintf("%s = %d exceeds engine bound %d (unwinding bound)", what, sv, max))
		}
		return int(sv)
	}
	if m.cursor < len(m.prefix) {
		d := m.prefix[m.cursor]
		m.cursor++
		m.trace = append(m.trace, d)
		eq := m.tt.Eq(t, m.tt.Const(w, d.Val))
		if d.Forced {
			m.setLit(eq, true)
		} else {
			m.assertPC(eq)
		}
		return finish(d.Val)
	}
	m.checkDepth()
	var vals []uint64
	excl := m.tt.True
	for len(vals) <= max+2 {
		r, v := m.sol.CheckWithValue(excl, t)
		if r == Unknown {
			m.noteUnknown("concretize " + what)
			break
		}
		if r == Unsat {
			break
		}
		vals = append(vals, v)
		excl = m.tt.And(excl, m.tt.Not(m.tt.Eq(t, m.tt.Const(w, v))))
	}
	if len(vals) == 0 {
		m.endPath("assume", "no feasible value for "+what)
	}
	for _, v := range vals[1:] {
		alt := make([]Dec, len(m.trace)+1)
		copy(alt, m.trace)
		alt[len(m.trace)] = Dec{Val: v, IsVal: true}
		m.newWork = append(m.newWork, alt)
	}
	forced := len(vals) == 1
	m.trace = append(m.trace, Dec{Val: vals[0], IsVal: true, Forced: forced})
	eq := m.tt.Eq(t, m.tt.Const(w, vals[0]))
	if forced {
		m.setLit(eq, true)
	} else {
		m.assertPC(eq)
	}
	return finish(vals[0])
}

func (m *Machine) makeSlice(et types.Type, ln, cp int) *SliceV {
	if ln < 0 {
		m.goPanic("runtime error: makeslice: len out of range")
	}
	arr := &ArrayV{E: make([]Value, cp)}
	for i := range arr.E {
		arr.E[i] = m.zero(et)
	}
	o := m.newObj(types.NewArray(et, int64(cp)), arr, "")
	return &SliceV{Arr: o, Off: 0, Len: ln, Cap: cp}
}

func (m *Machine) sliceFromValues(et types.Type, vals []Value) *SliceV {
	arr := &ArrayV{E: vals}
	o := m.newObj(types.NewArray(et, int64(len(vals))), arr, "")
	return &SliceV{Arr: o, Off: 0, Len: len(vals), Cap: len(vals)}
}

// index64 widens an index operand to 64 bits according to the signedness of its type
// (an 8-bit index compared against a length of 256 would otherwise wrap).
func (m *Machine) index64(fr *Frame, v ssa.Value) *Term {
	idx := fr.get(v).(*Term)
	if idx.S.W >= 64 {
		return idx
	}
	if isSigned(v.Type()) {
		return m.tt.SExt(idx, 64)
	}
	return m.tt.ZExt(idx, 64)
}

func (m *Machine) indexAddr(x Value, idx *Term) Value {
	switch x := x.(type) {
	case *SliceV:
		i := m.boundIndex(idx, x.Len)
		return &Ptr{Obj: x.Arr, Path: x.elemPath(x.Off + i)}
	case *Ptr: // *array
		if x.Obj == nil {
			m.goPanic("runtime error: invalid memory address or nil pointer dereference")
		}
		arr := m.peek(x).(*ArrayV)
		i := m.boundIndex(idx, len(arr.E))
		return x.sub(i)
	}
	panic(m.unsupported("IndexAddr on %T", x))
}

// peek reads a cell without copying (internal use only).
func (m *Machine) peek(p *Ptr) Value {
	v := p.Obj.V
	for _, i := range p.Path {
		switch c := v.(type) {
		case *StructV:
			v = c.F[i]
		case *ArrayV:
			v = c.E[i]
		}
	}
	return v
}

// boundIndex checks 0 <= idx < n and returns a concrete index (case split if symbolic).
func (m *Machine) boundIndex(idx *Term, n int) int {
	if idx.IsConst() {
		i := sext(idx.Val, idx.S.W)
		if i < 0 || i >= int64(n) {
			m.goPanic(fmt.Sprintf("runtime error: index out of range [%d] with length %d", i, n))
		}
		return int(i)
	}
	w := int(idx.S.W)
	inb := m.tt.Cmp(OpULT, idx, m.tt.Const(w, uint64(n)))
	if !m.branch(inb) {
		m.goPanic(fmt.Sprintf("runtime error: index out of range [symbolic] with length %d", n))
	}
	if m.concrete != nil {
		return int(m.evalConcrete(idx))
	}
	conds := make([]*Term, n)
	for i := 0; i < n; i++ {
		conds[i] = m.tt.Eq(idx, m.tt.Const(w, uint64(i)))
	}
	return m.choose(n, conds)
}

func (m *Machine) indexVal(x Value, idx *Term, et types.Type) Value {
	switch x := x.(type) {
	case *ArrayV:
		if idx.IsConst() {
			return x.E[m.boundIndex(idx, len(x.E))]
		}
		// ite chain when elements are scalars
		allTerm := true
		for _, e := range x.E {
			if _, ok := e.(*Term); !ok {
				allTerm = false
			}
		}
		if allTerm && len(x.E) > 0 {
			w := int(idx.S.W)
			inb := m.tt.Cmp(OpULT, idx, m.tt.Const(w, uint64(len(x.E))))
			if !m.branch(inb) {
				m.goPanic("runtime error: index out of range")
			}
			r := x.E[len(x.E)-1].(*Term)
			for i := len(x.E) - 2; i >= 0; i-- {
				r = m.tt.Ite(m.tt.Eq(idx, m.tt.Const(w, uint64(i))), x.E[i].(*Term), r)
			}
			return r
		}
		return x.E[m.boundIndex(idx, len(x.E))]
	case *StrV:
		return m.strIndex(x, idx)
	}
	panic(m.unsupported("Index on %T", x))
}

func (m *Machine) typeAssert(instr *ssa.TypeAssert, x *IfaceV) Value {
	ok := false
	var v Value
	if it, isIface := instr.AssertedType.Underlying().(*types.Interface); isIface {
		if x.T != nil {
			ok = types.Implements(x.T, it) || m.implementsPtr(x.T, it)
			v = x
		}
	} else if x.T != nil && types.Identical(x.T, instr.AssertedType) {
		ok = true
		v = x.V
	}
	if instr.CommaOk {
		if !ok {
			v = m.zero(instr.AssertedType)
		}
		return TupleV{v, m.tt.Bool(ok)}
	}
	if !ok {
		have := "nil"
		if x.T != nil {
			have = typeKey(x.T)
		}
		m.goPanic(fmt.Sprintf("interface conversion: interface is %s, not %s", have, typeKey(instr.AssertedType)))
	}
	return v
}

func (m *Machine) implementsPtr(t types.Type, it *types.Interface) bool {
	m.P.mu.Lock()
	defer m.P.mu.Unlock()
	ms := m.P.Prog.MethodSets.MethodSet(t)
	for i := 0; i < it.NumMethods(); i++ {
		f := it.Method(i)
		sel := ms.Lookup(f.Pkg(), f.Name())
		if sel == nil {
			return false
		}
		// same signature (receiver excluded)
		sf, ok1 := sel.Obj().Type().(*types.Signature)
		wf, ok2 := f.Type().(*types.Signature)
		if !ok1 || !ok2 || !types.Identical(types.NewSignatureType(nil, nil, nil, sf.Params(), sf.Results(), sf.Variadic()),
			types.NewSignatureType(nil, nil, nil, wf.Params(), wf.Results(), wf.Variadic())) {
			return false
		}
	}
	return true
}

// ---- slices -------------------------------------------------------------

func (m *Machine) optInt(fr *Frame, v ssa.Value, def int, max int, what string) int {
	if v == nil {
		return def
	}
	return m.concretize(fr.get(v).(*Term), max, what)
}

func (m *Machine) sliceOp(fr *Frame, instr *ssa.Slice) Value {
	x := fr.get(instr.X)
	switch x := x.(type) {
	case *StrV:
		var lo, hi *Term
		if instr.Low != nil {
			lo = fr.get(instr.Low).(*Term)
		}
		if instr.High != nil {
			hi = fr.get(instr.High).(*Term)
		}
		return m.strSlice(x, lo, hi)
	case *SliceV:
		lo := m.optInt(fr, instr.Low, 0, x.Cap, "slice low")
		hi := m.optInt(fr, instr.High, x.Len, x.Cap, "slice high")
		mx := m.optInt(fr, instr.Max, x.Cap, x.Cap, "slice max")
		if lo < 0 || hi < lo || mx < hi || mx > x.Cap {
			m.goPanic(fmt.Sprintf("runtime error: slice bounds out of range [%d:%d:%d] with capacity %d", lo, hi, mx, x.Cap))
		}
		if x.Arr == nil {
			return nilSlice
		}
		return &SliceV{Arr: x.Arr, Base: x.Base, Off: x.Off + lo, Len: hi - lo, Cap: mx - lo}
	case *Ptr: // *array
		if x.Obj == nil {
			m.goPanic("runtime error: invalid memory address or nil pointer dereference")
		}
		arr, ok := m.peek(x).(*ArrayV)
		if !ok {
			panic(m.unsupported("Slice of pointer to %T", m.peek(x)))
		}
		n := len(arr.E)
		lo := m.optInt(fr, instr.Low, 0, n, "slice low")
		hi := m.optInt(fr, instr.High, n, n, "slice high")
		mx := m.optInt(fr, instr.Max, n, n, "slice max")
		if lo < 0 || hi < lo || mx < hi || mx > n {
			m.goPanic("runtime error: slice bounds out of range")
		}
		return &SliceV{Arr: x.Obj, Base: x.Path, Off: lo, Len: hi - lo, Cap: mx - lo}
	}
	panic(m.unsupported("Slice on %T", x))
}

func (m *Machine) sliceElems(s *SliceV) []Value {
	if s.Arr == nil {
		return nil
	}
	return s.backing().E[s.Off : s.Off+s.Len]
}

func (m *Machine) appendSlice(et types.Type, s *SliceV, vals []Value) *SliceV {
	if len(vals) == 0 {
		return s
	}
	if s.Arr != nil && s.Len+len(vals) <= s.Cap {
		arr := s.backing()
		for i, v := range vals {
			arr.E[s.Off+s.Len+i] = copyVal(v)
		}
		return &SliceV{Arr: s.Arr, Base: s.Base, Off: s.Off, Len: s.Len + len(vals), Cap: s.Cap}
	}
	nc := s.Cap * 2
	if nc < s.Len+len(vals) {
		nc = s.Len + len(vals)
	}
	ns := m.makeSlice(et, s.Len+len(vals), nc)
	arr := ns.backing()
	for i, v := range m.sliceElems(s) {
		arr.E[i] = copyVal(v)
	}
	for i, v := range vals {
		arr.E[s.Len+i] = copyVal(v)
	}
	return ns
}
