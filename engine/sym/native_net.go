package sym

import (
	"go/types"
	"math"
	"net"

	"golang.org/x/tools/go/ssa"
)

func netParseIP(s string) net.IP { return net.ParseIP(s) }

func (m *Machine) constBytes(b []byte) Value {
	if b == nil {
		return nilSlice
	}
	vals := make([]Value, len(b))
	for i, x := range b {
		vals[i] = m.tt.Const(8, uint64(x))
	}
	if len(vals) == 0 {
		return m.makeSlice(types.Typ[types.Byte], 0, 0)
	}
	return m.sliceFromValues(types.Typ[types.Byte], vals)
}

func init() {
	// verifParseIP(s string) []byte : native net.ParseIP of a concrete string (nil if invalid)
	intrinsics["verifParseIP"] = func(m *Machine, th *Thread, fn *ssa.Function, a []Value, site ssa.Instruction) Value {
		return m.constBytes([]byte(net.ParseIP(m.strArg(a[0]))))
	}
	// net.ParseIP of a concrete string: native (the real code goes through net/netip and the
	// runtime's unique-handle machinery)
	concreteIntrinsics["net.ParseIP"] = func(m *Machine, th *Thread, fn *ssa.Function, a []Value, site ssa.Instruction) Value {
		return m.constBytes([]byte(net.ParseIP(m.strArg(a[0]))))
	}
	// net.ParseCIDR of a concrete, valid text: native, for the same reason
	concreteIntrinsics["net.ParseCIDR"] = func(m *Machine, th *Thread, fn *ssa.Function, a []Value, site ssa.Instruction) Value {
		ip, n, err := net.ParseCIDR(m.strArg(a[0]))
		if err != nil {
			panic(m.unsupported("native net.ParseCIDR of an invalid text %q", m.strArg(a[0])))
		}
		res := fn.Signature.Results()
		netT := res.At(1).Type().(*types.Pointer).Elem()
		sv := m.zero(netT).(*StructV)
		sv.F[0] = m.constBytes([]byte(n.IP))
		sv.F[1] = m.constBytes([]byte(n.Mask))
		obj := m.newObj(netT, sv, "net.ParseCIDR")
		return TupleV{m.constBytes([]byte(ip)), &Ptr{Obj: obj}, nilIface}
	}
	// verifParseCIDR(s string) (ip, mask []byte, ok bool): the masked network address and mask as net.ParseCIDR yields them
	intrinsics["verifParseCIDR"] = func(m *Machine, th *Thread, fn *ssa.Function, a []Value, site ssa.Instruction) Value {
		_, n, err := net.ParseCIDR(m.strArg(a[0]))
		if err != nil {
			return TupleV{nilSlice, nilSlice, m.tt.False}
		}
		return TupleV{m.constBytes([]byte(n.IP)), m.constBytes([]byte(n.Mask)), m.tt.True}
	}
}

func init() {
	fl := func(name string, f func(a, b float64) float64) {
		intrinsics[name] = func(m *Machine, th *Thread, fn *ssa.Function, a []Value, site ssa.Instruction) Value {
			return m.tt.FConst(mathBits(f(m.fval(a[0].(*Term)), m.fval(a[1].(*Term)))))
		}
	}
	fl("math.Max", mathMax)
	fl("math.Min", mathMin)
	fl("math.Pow", mathPow)
	one := func(name string, f func(a float64) float64) {
		intrinsics[name] = func(m *Machine, th *Thread, fn *ssa.Function, a []Value, site ssa.Instruction) Value {
			return m.tt.FConst(mathBits(f(m.fval(a[0].(*Term)))))
		}
	}
	one("math.Floor", mathFloor)
	one("math.Ceil", mathCeil)
	one("math.Sqrt", mathSqrt)
	one("math.Exp", math.Exp)
	one("math.Log", math.Log)
	one("math.Log2", mathLog2)
	one("math.Abs", mathAbs)
}
