package sym

import (
	"go/types"

	"golang.org/x/tools/go/ssa"
)

// Extended reflect model (structural walk): reflect.Value Type/Kind/Field/Len/Index/
// MapRange/Elem/IsZero/IsValid/CanInterface/String/Int/Uint/Bool, reflect.Type NumField/Field/Key,
// and *reflect.MapIter. reflect.Value is represented by a native value (rvalueV);
// reflect.StructField is the real struct, filled from go/types.

type rmapIter struct {
	mv  *MapV
	pos int
}

func (m *Machine) rval(t types.Type, v Value) Value {
	return &NativeV{V: &rvalueV{t: t, v: v}, Kind: "rvalue"}
}

func (m *Machine) reflectNamed(name string) types.Type {
	sp := m.P.Pkgs["reflect"]
	if sp == nil {
		panic(m.unsupported("package reflect is not loaded"))
	}
	tn := sp.Type(name)
	if tn == nil {
		panic(m.unsupported("reflect.%s not found", name))
	}
	return tn.Type()
}

// structField builds a reflect.StructField value for field i of st.
func (m *Machine) structField(st *types.Struct, i int) Value {
	sft := m.reflectNamed("StructField")
	sv := m.zero(sft).(*StructV)
	us := sft.Underlying().(*types.Struct)
	f := st.Field(i)
	for k := 0; k < us.NumFields(); k++ {
		switch us.Field(k).Name() {
		case "Name":
			sv.F[k] = concStr(f.Name())
		case "PkgPath":
			if !f.Exported() && f.Pkg() != nil {
				sv.F[k] = concStr(f.Pkg().Path())
			}
		case "Type":
			sv.F[k] = m.rtypeIface(f.Type())
		case "Tag":
			sv.F[k] = concStr(st.Tag(i))
		case "Anonymous":
			sv.F[k] = m.tt.Bool(f.Embedded())
		case "Index":
			sv.F[k] = m.sliceFromValues(types.Typ[types.Int], []Value{m.tt.Const(64, uint64(i))})
		}
	}
	return sv
}

func (m *Machine) rtypeMethod(r *rtypeV, name string, args []Value) (Value, bool) {
	switch name {
	case "NumField":
		st, ok := r.t.Underlying().(*types.Struct)
		if !ok {
			m.goPanic("reflect: NumField of non-struct type " + typeKey(r.t))
		}
		return m.tt.Const(64, uint64(st.NumFields())), true
	case "Field":
		st, ok := r.t.Underlying().(*types.Struct)
		if !ok {
			m.goPanic("reflect: Field of non-struct type " + typeKey(r.t))
		}
		i := int(m.intArg(args[0]))
		if i < 0 || i >= st.NumFields() {
			m.goPanic("reflect: Field index out of bounds")
		}
		return m.structField(st, i), true
	case "Key":
		mt, ok := r.t.Underlying().(*types.Map)
		if !ok {
			m.goPanic("reflect: Key of non-map type " + typeKey(r.t))
		}
		return m.rtypeIface(mt.Key()), true
	case "Len":
		at, ok := r.t.Underlying().(*types.Array)
		if !ok {
			m.goPanic("reflect: Len of non-array type " + typeKey(r.t))
		}
		return m.tt.Const(64, uint64(at.Len())), true
	case "PkgPath":
		if n, ok := r.t.(*types.Named); ok && n.Obj().Pkg() != nil {
			return concStr(n.Obj().Pkg().Path()), true
		}
		return concStr(""), true
	}
	return nil, false
}

// isZeroVal models reflect.Value.IsZero.
func (m *Machine) isZeroVal(v Value) *Term {
	switch x := v.(type) {
	case *Term:
		switch x.S.K {
		case KBool:
			return m.tt.Not(x)
		case KBV:
			return m.tt.Eq(x, m.tt.Const(int(x.S.W), 0))
		}
		return m.tt.Bool(m.fval(x) == 0)
	case *StrV:
		return m.tt.Eq(m.strLen(x), m.c64(0))
	case *Ptr:
		return m.tt.Bool(x.Obj == nil)
	case *SliceV:
		return m.tt.Bool(x.Arr == nil)
	case *MapV:
		return m.tt.Bool(x == nil)
	case *IfaceV:
		return m.tt.Bool(x.T == nil)
	case *FuncV:
		return m.tt.Bool(x == nil)
	case *ChanV:
		return m.tt.Bool(x == nil)
	case *StructV:
		r := m.tt.True
		for _, f := range x.F {
			r = m.tt.And(r, m.isZeroVal(f))
		}
		return r
	case *ArrayV:
		r := m.tt.True
		for _, f := range x.E {
			r = m.tt.And(r, m.isZeroVal(f))
		}
		return r
	}
	panic(m.unsupported("reflect.Value.IsZero on %T", v))
}

func init() {
	rv := func(m *Machine, a Value) *rvalueV {
		nv, ok := a.(*NativeV)
		if !ok {
			// the zero reflect.Value
			return &rvalueV{}
		}
		return nv.V.(*rvalueV)
	}
	type in = func(m *Machine, th *Thread, fn *ssa.Function, a []Value, site ssa.Instruction) Value
	intrinsics["(reflect.Value).Type"] = in(func(m *Machine, th *Thread, fn *ssa.Function, a []Value, site ssa.Instruction) Value {
		r := rv(m, a[0])
		if r.t == nil {
			m.goPanic("reflect: call of reflect.Value.Type on zero Value")
		}
		return m.rtypeIface(r.t)
	})
	intrinsics["(reflect.Value).Kind"] = in(func(m *Machine, th *Thread, fn *ssa.Function, a []Value, site ssa.Instruction) Value {
		r := rv(m, a[0])
		if r.t == nil {
			return m.tt.Const(64, 0)
		}
		return m.tt.Const(64, reflectKind(r.t))
	})
	intrinsics["(reflect.Value).IsValid"] = in(func(m *Machine, th *Thread, fn *ssa.Function, a []Value, site ssa.Instruction) Value {
		return m.tt.Bool(rv(m, a[0]).t != nil)
	})
	intrinsics["(reflect.Value).CanInterface"] = in(func(m *Machine, th *Thread, fn *ssa.Function, a []Value, site ssa.Instruction) Value {
		return m.tt.True
	})
	intrinsics["(reflect.Value).IsZero"] = in(func(m *Machine, th *Thread, fn *ssa.Function, a []Value, site ssa.Instruction) Value {
		return m.isZeroVal(rv(m, a[0]).v)
	})
	intrinsics["(reflect.Value).NumField"] = in(func(m *Machine, th *Thread, fn *ssa.Function, a []Value, site ssa.Instruction) Value {
		r := rv(m, a[0])
		st, ok := r.t.Underlying().(*types.Struct)
		if !ok {
			m.goPanic("reflect: call of reflect.Value.NumField on non-struct Value")
		}
		return m.tt.Const(64, uint64(st.NumFields()))
	})
	intrinsics["(reflect.Value).Field"] = in(func(m *Machine, th *Thread, fn *ssa.Function, a []Value, site ssa.Instruction) Value {
		r := rv(m, a[0])
		st, ok := r.t.Underlying().(*types.Struct)
		if !ok {
			m.goPanic("reflect: call of reflect.Value.Field on non-struct Value")
		}
		i := int(m.intArg(a[1]))
		if i < 0 || i >= st.NumFields() {
			m.goPanic("reflect: Field index out of range")
		}
		return m.rval(st.Field(i).Type(), r.v.(*StructV).F[i])
	})
	intrinsics["(reflect.Value).Len"] = in(func(m *Machine, th *Thread, fn *ssa.Function, a []Value, site ssa.Instruction) Value {
		r := rv(m, a[0])
		switch x := r.v.(type) {
		case *SliceV:
			return m.tt.Const(64, uint64(x.Len))
		case *ArrayV:
			return m.tt.Const(64, uint64(len(x.E)))
		case *MapV:
			if x == nil {
				return m.tt.Const(64, 0)
			}
			return m.tt.Const(64, uint64(len(x.Entries)))
		case *StrV:
			return m.strLen(x)
		}
		m.goPanic("reflect: call of reflect.Value.Len on a value without length")
		return nil
	})
	intrinsics["(reflect.Value).Index"] = in(func(m *Machine, th *Thread, fn *ssa.Function, a []Value, site ssa.Instruction) Value {
		r := rv(m, a[0])
		i := int(m.intArg(a[1]))
		switch x := r.v.(type) {
		case *SliceV:
			if i < 0 || i >= x.Len {
				m.goPanic("reflect: slice index out of range")
			}
			return m.rval(r.t.Underlying().(*types.Slice).Elem(), copyVal(m.sliceElems(x)[i]))
		case *ArrayV:
			if i < 0 || i >= len(x.E) {
				m.goPanic("reflect: array index out of range")
			}
			return m.rval(r.t.Underlying().(*types.Array).Elem(), copyVal(x.E[i]))
		}
		panic(m.unsupported("reflect.Value.Index on %T", r.v))
	})
	intrinsics["(reflect.Value).Elem"] = in(func(m *Machine, th *Thread, fn *ssa.Function, a []Value, site ssa.Instruction) Value {
		r := rv(m, a[0])
		switch x := r.v.(type) {
		case *Ptr:
			if x.Obj == nil {
				return &NativeV{V: &rvalueV{}, Kind: "rvalue"}
			}
			return m.rval(r.t.Underlying().(*types.Pointer).Elem(), m.load(x))
		case *IfaceV:
			if x.T == nil {
				return &NativeV{V: &rvalueV{}, Kind: "rvalue"}
			}
			return m.rval(x.T, x.V)
		}
		m.goPanic("reflect: call of reflect.Value.Elem on a value that is neither pointer nor interface")
		return nil
	})
	intrinsics["(reflect.Value).String"] = in(func(m *Machine, th *Thread, fn *ssa.Function, a []Value, site ssa.Instruction) Value {
		r := rv(m, a[0])
		if s, ok := r.v.(*StrV); ok {
			return s
		}
		return concStr("<value>")
	})
	scalar := in(func(m *Machine, th *Thread, fn *ssa.Function, a []Value, site ssa.Instruction) Value {
		r := rv(m, a[0])
		t, ok := r.v.(*Term)
		if !ok {
			m.goPanic("reflect: scalar accessor on a non-scalar Value")
		}
		if t.S.K == KBV && t.S.W < 64 {
			if isSigned(r.t) {
				return m.tt.SExt(t, 64)
			}
			return m.tt.ZExt(t, 64)
		}
		return t
	})
	intrinsics["(reflect.Value).Int"] = scalar
	intrinsics["(reflect.Value).Uint"] = scalar
	intrinsics["(reflect.Value).Bool"] = scalar
	intrinsics["(reflect.Value).Float"] = scalar
	intrinsics["(reflect.Value).MapRange"] = in(func(m *Machine, th *Thread, fn *ssa.Function, a []Value, site ssa.Instruction) Value {
		r := rv(m, a[0])
		mv, ok := r.v.(*MapV)
		if !ok {
			m.goPanic("reflect: call of reflect.Value.MapRange on non-map Value")
		}
		mt := r.t.Underlying().(*types.Map)
		it := &rmapIter{mv: mv, pos: -1}
		return &NativeV{V: &struct {
			it *rmapIter
			mt *types.Map
		}{it, mt}, Kind: "mapiter"}
	})
	iter := func(m *Machine, a Value) (*rmapIter, *types.Map) {
		s := a.(*NativeV).V.(*struct {
			it *rmapIter
			mt *types.Map
		})
		return s.it, s.mt
	}
	intrinsics["(*reflect.MapIter).Next"] = in(func(m *Machine, th *Thread, fn *ssa.Function, a []Value, site ssa.Instruction) Value {
		it, _ := iter(m, a[0])
		it.pos++
		return m.tt.Bool(it.mv != nil && it.pos < len(it.mv.Entries))
	})
	intrinsics["(*reflect.MapIter).Key"] = in(func(m *Machine, th *Thread, fn *ssa.Function, a []Value, site ssa.Instruction) Value {
		it, mt := iter(m, a[0])
		return m.rval(mt.Key(), it.mv.Entries[it.pos].K)
	})
	intrinsics["(*reflect.MapIter).Value"] = in(func(m *Machine, th *Thread, fn *ssa.Function, a []Value, site ssa.Instruction) Value {
		it, mt := iter(m, a[0])
		return m.rval(mt.Elem(), copyVal(it.mv.Entries[it.pos].V))
	})
}
