package sym

import "golang.org/x/tools/go/ssa"

// sort.Slice / sort.SliceStable: the real ones swap through internal/reflectlite; the model is a
// stable insertion sort over the slice's backing array that calls the REAL less closure (a
// symbolic comparison forks the path).
func init() {
	f := func(m *Machine, th *Thread, fn *ssa.Function, a []Value, site ssa.Instruction) Value {
		iv := a[0].(*IfaceV)
		sl, ok := iv.V.(*SliceV)
		if !ok {
			m.goPanic("sort.Slice: not a slice")
		}
		if sl.Arr == nil || sl.Len < 2 {
			return nil
		}
		arr := sl.backing()
		for i := 1; i < sl.Len; i++ {
			for j := i; j > 0; j-- {
				r := m.callFn(th, a[1], []Value{m.tt.Const(64, uint64(j)), m.tt.Const(64, uint64(j-1))}, site)
				if !m.branch(r.(*Term)) {
					break
				}
				x, y := sl.Off+j, sl.Off+j-1
				arr.E[x], arr.E[y] = arr.E[y], arr.E[x]
			}
		}
		return nil
	}
	intrinsics["sort.Slice"] = f
	intrinsics["sort.SliceStable"] = f
}
