package sym

import (
	"fmt"
	"go/types"
	"strings"

	"golang.org/x/tools/go/ssa"
)

// Value is an engine value:
//
//	*Term     scalar (bool, integer, float constant)
//	*StrV     string
//	*Ptr      pointer (nil pointer: Obj == nil)
//	*StructV  struct value
//	*ArrayV   array value
//	*SliceV   slice (nil slice: Arr == nil)
//	*MapV     map (nil map: (*MapV)(nil))
//	*IfaceV   interface (nil interface: T == nil)
//	*FuncV    function value (nil func: (*FuncV)(nil))
//	*ChanV    channel
//	TupleV    multiple results
//	*NativeV  opaque native Go value
type Value interface{}

// StrV is a string: concrete (Sym == false, value S) or bounded symbolic.
type StrV struct {
	Sym bool
	S   string
	Len *Term   // BV64, when Sym
	B   []*Term // BV8 x cap, when Sym
}

// Obj is a heap object (one cell holding a value tree).
type Obj struct {
	ID    int
	V     Value
	T     types.Type
	Site  string
	Race  *raceInfo
	Label string
}

// Ptr is a pointer to a cell inside an object.
type Ptr struct {
	Obj  *Obj
	Path []int
}

type StructV struct{ F []Value }
type ArrayV struct{ E []Value }

type SliceV struct {
	Arr           *Obj  // holds the backing *ArrayV (at path Base inside the object)
	Base          []int // path to the backing array inside Arr (nil: the object itself)
	Off, Len, Cap int
}

// backing returns the backing array of a non-nil slice.
func (s *SliceV) backing() *ArrayV {
	v := s.Arr.V
	for _, i := range s.Base {
		switch c := v.(type) {
		case *StructV:
			v = c.F[i]
		case *ArrayV:
			v = c.E[i]
		}
	}
	return v.(*ArrayV)
}

func (s *SliceV) elemPath(i int) []int {
	p := make([]int, len(s.Base)+1)
	copy(p, s.Base)
	p[len(s.Base)] = i
	return p
}

type MapEntry struct {
	K, V Value
}

type MapV struct {
	ID      int
	Entries []*MapEntry
	KT, VT  types.Type
}

type IfaceV struct {
	T types.Type
	V Value
}

type FuncV struct {
	Fn     *ssa.Function
	Env    []Value
	Built  *ssa.Builtin
	native func(th *Thread) Value
}

type TupleV []Value

type NativeV struct {
	V    interface{}
	Kind string
}

var nilPtr = &Ptr{}
var nilSlice = &SliceV{}
var nilIface = &IfaceV{}

func (p *Ptr) IsNil() bool { return p.Obj == nil }

func (p *Ptr) sub(i int) *Ptr {
	np := make([]int, len(p.Path)+1)
	copy(np, p.Path)
	np[len(p.Path)] = i
	return &Ptr{Obj: p.Obj, Path: np}
}

func ptrEq(a, b *Ptr) bool {
	if a.Obj != b.Obj || len(a.Path) != len(b.Path) {
		// pointer to struct and pointer to its first field are distinct Go pointers values
		// in type terms; they are never compared in well-typed code except via unsafe.
		return false
	}
	for i := range a.Path {
		if a.Path[i] != b.Path[i] {
			return false
		}
	}
	return true
}

func concStr(s string) *StrV { return &StrV{S: s} }

// copyVal deep-copies aggregate values (structs, arrays); everything else is
// immutable or has reference semantics.
func copyVal(v Value) Value {
	switch v := v.(type) {
	case *StructV:
		n := &StructV{F: make([]Value, len(v.F))}
		for i, f := range v.F {
			n.F[i] = copyVal(f)
		}
		return n
	case *ArrayV:
		n := &ArrayV{E: make([]Value, len(v.E))}
		for i, f := range v.E {
			n.E[i] = copyVal(f)
		}
		return n
	}
	return v
}

func (m *Machine) zero(t types.Type) Value {
	switch t := t.Underlying().(type) {
	case *types.Basic:
		switch {
		case t.Info()&types.IsBoolean != 0:
			return m.tt.False
		case t.Info()&types.IsString != 0:
			return concStr("")
		case t.Info()&types.IsFloat != 0:
			return m.tt.FConst(0)
		case t.Info()&types.IsInteger != 0:
			return m.tt.Const(m.intWidth(t), 0)
		case t.Kind() == types.UnsafePointer:
			return nilPtr
		case t.Kind() == types.UntypedNil:
			return nilPtr
		case t.Info()&types.IsComplex != 0:
			return &NativeV{V: complex(0, 0), Kind: "complex"}
		}
	case *types.Pointer:
		return nilPtr
	case *types.Struct:
		s := &StructV{F: make([]Value, t.NumFields())}
		for i := range s.F {
			s.F[i] = m.zero(t.Field(i).Type())
		}
		return s
	case *types.Array:
		a := &ArrayV{E: make([]Value, t.Len())}
		for i := range a.E {
			a.E[i] = m.zero(t.Elem())
		}
		return a
	case *types.Slice:
		return nilSlice
	case *types.Map:
		return (*MapV)(nil)
	case *types.Interface:
		return nilIface
	case *types.Signature:
		return (*FuncV)(nil)
	case *types.Chan:
		return (*ChanV)(nil)
	case *types.Tuple:
		tv := make(TupleV, t.Len())
		for i := range tv {
			tv[i] = m.zero(t.At(i).Type())
		}
		return tv
	}
	panic(m.unsupported("zero value of %v", t))
}

func (m *Machine) intWidth(t *types.Basic) int {
	switch t.Kind() {
	case types.Int8, types.Uint8:
		return 8
	case types.Int16, types.Uint16:
		return 16
	case types.Int32, types.Uint32:
		return 32
	case types.Bool, types.UntypedBool:
		return 1
	default:
		return 64
	}
}

func isSigned(t types.Type) bool {
	b, ok := t.Underlying().(*types.Basic)
	if !ok {
		return false
	}
	return b.Info()&types.IsInteger != 0 && b.Info()&types.IsUnsigned == 0
}

func isIntegerT(t types.Type) bool {
	b, ok := t.Underlying().(*types.Basic)
	return ok && b.Info()&types.IsInteger != 0
}
func isFloatT(t types.Type) bool {
	b, ok := t.Underlying().(*types.Basic)
	return ok && b.Info()&types.IsFloat != 0
}
func isStringT(t types.Type) bool {
	b, ok := t.Underlying().(*types.Basic)
	return ok && b.Info()&types.IsString != 0
}
func isBoolT(t types.Type) bool {
	b, ok := t.Underlying().(*types.Basic)
	return ok && b.Info()&types.IsBoolean != 0
}

// newObj allocates a heap object.
func (m *Machine) newObj(t types.Type, v Value, site string) *Obj {
	m.objSeq++
	o := &Obj{ID: m.objSeq, V: v, T: t, Site: site}
	return o
}

// load reads the cell p points to (copying aggregates).
func (m *Machine) load(p *Ptr) Value {
	if p.Obj == nil {
		m.goPanic("runtime error: invalid memory address or nil pointer dereference")
	}
	m.raceAccess(p, false)
	v := p.Obj.V
	for _, i := range p.Path {
		switch c := v.(type) {
		case *StructV:
			v = c.F[i]
		case *ArrayV:
			v = c.E[i]
		default:
			panic(m.unsupported("load: path through %T", v))
		}
	}
	return copyVal(v)
}

// store writes v to the cell p points to.
func (m *Machine) store(p *Ptr, v Value) {
	if p.Obj == nil {
		m.goPanic("runtime error: invalid memory address or nil pointer dereference")
	}
	m.raceAccess(p, true)
	v = copyVal(v)
	if len(p.Path) == 0 {
		p.Obj.V = v
		return
	}
	c := p.Obj.V
	for k, i := range p.Path {
		last := k == len(p.Path)-1
		switch cc := c.(type) {
		case *StructV:
			if last {
				cc.F[i] = v
				return
			}
			c = cc.F[i]
		case *ArrayV:
			if last {
				cc.E[i] = v
				return
			}
			c = cc.E[i]
		default:
			panic(m.unsupported("store: path through %T", c))
		}
	}
}

// ---- debugging -----------------------------------------------------

func (m *Machine) show(v Value) string {
	switch v := v.(type) {
	case nil:
		return "<nil-value>"
	case *Term:
		if v.IsConst() {
			if v.S.K == KBool {
				return fmt.Sprint(v.Val == 1)
			}
			return fmt.Sprintf("%d", sext(v.Val, v.S.W))
		}
		return "sym:" + ref(v)
	case *StrV:
		if !v.Sym {
			return fmt.Sprintf("%q", v.S)
		}
		return fmt.Sprintf("symstr(cap=%d)", len(v.B))
	case *Ptr:
		if v.Obj == nil {
			return "nil"
		}
		return fmt.Sprintf("&obj%d%v", v.Obj.ID, v.Path)
	case *StructV:
		var parts []string
		for _, f := range v.F {
			parts = append(parts, m.show(f))
		}
		return "{" + strings.Join(parts, ",") + "}"
	case *ArrayV:
		var parts []string
		for _, f := range v.E {
			parts = append(parts, m.show(f))
		}
		return "[" + strings.Join(parts, ",") + "]"
	case *SliceV:
		if v.Arr == nil {
			return "nil-slice"
		}
		return fmt.Sprintf("slice(obj%d,%d,%d,%d)", v.Arr.ID, v.Off, v.Len, v.Cap)
	case *MapV:
		if v == nil {
			return "nil-map"
		}
		return fmt.Sprintf("map#%d(len=%d)", v.ID, len(v.Entries))
	case *IfaceV:
		if v.T == nil {
			return "nil-iface"
		}
		return fmt.Sprintf("iface(%v:%s)", v.T, m.show(v.V))
	case *FuncV:
		if v == nil {
			return "nil-func"
		}
		if v.Built != nil {
			return "builtin " + v.Built.Name()
		}
		return "func " + v.Fn.String()
	case TupleV:
		var parts []string
		for _, f := range v {
			parts = append(parts, m.show(f))
		}
		return "(" + strings.Join(parts, ",") + ")"
	case *NativeV:
		return fmt.Sprintf("native(%s)", v.Kind)
	case *ChanV:
		return "chan"
	}
	return fmt.Sprintf("%T", v)
}
