package sym

import (
	"fmt"

	"golang.org/x/tools/go/ssa"
)

// strings.Builder model: the content is kept as an engine string keyed by the
// builder's address (the real code goes through unsafe).

func (m *Machine) builderKey(p *Ptr) string { return fmt.Sprint(p.Obj.ID, p.Path) }

func init() {
	get := func(m *Machine, a []Value) (string, *StrV) {
		p := a[0].(*Ptr)
		if p.Obj == nil {
			m.goPanic("runtime error: invalid memory address or nil pointer dereference")
		}
		k := m.builderKey(p)
		s := m.builders[k]
		if s == nil {
			s = concStr("")
		}
		return k, s
	}
	intrinsics["(*strings.Builder).WriteString"] = func(m *Machine, th *Thread, fn *ssa.Function, a []Value, site ssa.Instruction) Value {
		k, s := get(m, a)
		x := a[1].(*StrV)
		m.builders[k] = m.strConcat(s, x)
		return TupleV{m.strLen(x), nilIface}
	}
	intrinsics["(*strings.Builder).WriteByte"] = func(m *Machine, th *Thread, fn *ssa.Function, a []Value, site ssa.Instruction) Value {
		k, s := get(m, a)
		b := a[1].(*Term)
		m.builders[k] = m.strConcat(s, m.normStr(m.c64(1), []*Term{b}))
		return nilIface
	}
	intrinsics["(*strings.Builder).WriteRune"] = func(m *Machine, th *Thread, fn *ssa.Function, a []Value, site ssa.Instruction) Value {
		k, s := get(m, a)
		r := a[1].(*Term)
		if r.IsConst() {
			str := string(rune(sext(r.Val, r.S.W)))
			m.builders[k] = m.strConcat(s, concStr(str))
			return TupleV{m.c64(len(str)), nilIface}
		}
		m.builders[k] = m.strConcat(s, m.normStr(m.c64(1), []*Term{m.tt.Extract(r, 7, 0)}))
		return TupleV{m.c64(1), nilIface}
	}
	intrinsics["(*strings.Builder).Write"] = func(m *Machine, th *Thread, fn *ssa.Function, a []Value, site ssa.Instruction) Value {
		k, s := get(m, a)
		bs := a[1].(*SliceV)
		x := m.bytesToStr(bs, fn.Signature.Params().At(0).Type())
		m.builders[k] = m.strConcat(s, x)
		return TupleV{m.c64(bs.Len), nilIface}
	}
	intrinsics["(*strings.Builder).String"] = func(m *Machine, th *Thread, fn *ssa.Function, a []Value, site ssa.Instruction) Value {
		_, s := get(m, a)
		return s
	}
	intrinsics["(*strings.Builder).Len"] = func(m *Machine, th *Thread, fn *ssa.Function, a []Value, site ssa.Instruction) Value {
		_, s := get(m, a)
		return m.strLen(s)
	}
	intrinsics["(*strings.Builder).Grow"] = func(m *Machine, th *Thread, fn *ssa.Function, a []Value, site ssa.Instruction) Value {
		get(m, a)
		return nil
	}
	intrinsics["(*strings.Builder).Reset"] = func(m *Machine, th *Thread, fn *ssa.Function, a []Value, site ssa.Instruction) Value {
		k, _ := get(m, a)
		delete(m.builders, k)
		return nil
	}
}

func init() {
	canon := func(m *Machine, th *Thread, fn *ssa.Function, a []Value, site ssa.Instruction) Value {
		s := a[0].(*StrV)
		if s.Sym {
			panic(m.unsupported("CanonicalMIMEHeaderKey of a symbolic key"))
		}
		return concStr(textprotoCanonical(s.S))
	}
	intrinsics["net/textproto.CanonicalMIMEHeaderKey"] = canon
	intrinsics["net/http.CanonicalHeaderKey"] = canon
}
