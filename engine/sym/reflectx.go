package sym

import (
	"fmt"
	"go/types"

	"golang.org/x/tools/go/ssa"
)

// Minimal reflect model: reflect.TypeOf / Type.Elem / Type.Kind / reflect.New /
// Value.Interface / Value.Elem for the plain uses in the repository, and
// reflect.DeepEqual over engine values.

type rtypeV struct{ t types.Type }
type rvalueV struct {
	t types.Type
	v Value
}

func (m *Machine) rtypeIface(t types.Type) Value {
	return &IfaceV{T: m.P.rtypePtr, V: &NativeV{V: &rtypeV{t}, Kind: "rtype"}}
}

func reflectKind(t types.Type) uint64 {
	switch u := t.Underlying().(type) {
	case *types.Basic:
		switch u.Kind() {
		case types.Bool:
			return 1
		case types.Int:
			return 2
		case types.Int8:
			return 3
		case types.Int16:
			return 4
		case types.Int32:
			return 5
		case types.Int64:
			return 6
		case types.Uint:
			return 7
		case types.Uint8:
			return 8
		case types.Uint16:
			return 9
		case types.Uint32:
			return 10
		case types.Uint64:
			return 11
		case types.Uintptr:
			return 12
		case types.Float32:
			return 13
		case types.Float64:
			return 14
		case types.String:
			return 24
		case types.UnsafePointer:
			return 26
		}
	case *types.Array:
		return 17
	case *types.Chan:
		return 18
	case *types.Signature:
		return 19
	case *types.Interface:
		return 20
	case *types.Map:
		return 21
	case *types.Pointer:
		return 22
	case *types.Slice:
		return 23
	case *types.Struct:
		return 25
	}
	return 0
}

// nativeMethod dispatches interface method calls on engine-native receivers.
func (m *Machine) nativeMethod(th *Thread, recv *NativeV, name string, args []Value) (Value, bool) {
	switch r := recv.V.(type) {
	case *rtypeV:
		if v, ok := m.rtypeMethod(r, name, args); ok {
			return v, true
		}
		switch name {
		case "Elem":
			switch u := r.t.Underlying().(type) {
			case *types.Pointer:
				return m.rtypeIface(u.Elem()), true
			case *types.Slice:
				return m.rtypeIface(u.Elem()), true
			case *types.Array:
				return m.rtypeIface(u.Elem()), true
			case *types.Map:
				return m.rtypeIface(u.Elem()), true
			}
			m.goPanic("reflect: Elem of invalid type " + typeKey(r.t))
		case "Kind":
			return m.tt.Const(64, reflectKind(r.t)), true
		case "String":
			return concStr(types.TypeString(r.t, func(p *types.Package) string { return p.Name() })), true
		case "Name":
			if n, ok := r.t.(*types.Named); ok {
				return concStr(n.Obj().Name()), true
			}
			return concStr(""), true
		}
	}
	return nil, false
}

func init() {
	intrinsics["reflect.TypeOf"] = func(m *Machine, th *Thread, fn *ssa.Function, a []Value, site ssa.Instruction) Value {
		iv := a[0].(*IfaceV)
		if iv.T == nil {
			return nilIface
		}
		return m.rtypeIface(iv.T)
	}
	intrinsics["reflect.New"] = func(m *Machine, th *Thread, fn *ssa.Function, a []Value, site ssa.Instruction) Value {
		iv := a[0].(*IfaceV)
		rt, ok := iv.V.(*NativeV)
		if !ok {
			panic(m.unsupported("reflect.New of a non-engine type"))
		}
		t := rt.V.(*rtypeV).t
		o := m.newObj(t, m.zero(t), "reflect.New")
		return &NativeV{V: &rvalueV{t: types.NewPointer(t), v: &Ptr{Obj: o}}, Kind: "rvalue"}
	}
	intrinsics["reflect.ValueOf"] = func(m *Machine, th *Thread, fn *ssa.Function, a []Value, site ssa.Instruction) Value {
		iv := a[0].(*IfaceV)
		return &NativeV{V: &rvalueV{t: iv.T, v: iv.V}, Kind: "rvalue"}
	}
	intrinsics["(reflect.Value).Interface"] = func(m *Machine, th *Thread, fn *ssa.Function, a []Value, site ssa.Instruction) Value {
		rv := a[0].(*NativeV).V.(*rvalueV)
		if rv.t == nil {
			return nilIface
		}
		if _, isI := rv.t.Underlying().(*types.Interface); isI {
			return rv.v
		}
		return &IfaceV{T: rv.t, V: rv.v}
	}
	intrinsics["(reflect.Value).IsNil"] = func(m *Machine, th *Thread, fn *ssa.Function, a []Value, site ssa.Instruction) Value {
		rv := a[0].(*NativeV).V.(*rvalueV)
		switch x := rv.v.(type) {
		case *Ptr:
			return m.tt.Bool(x.Obj == nil)
		case *MapV:
			return m.tt.Bool(x == nil)
		case *SliceV:
			return m.tt.Bool(x.Arr == nil)
		case *IfaceV:
			return m.tt.Bool(x.T == nil)
		case *FuncV:
			return m.tt.Bool(x == nil)
		}
		panic(m.unsupported("reflect.Value.IsNil on %T", rv.v))
	}
	intrinsics["reflect.DeepEqual"] = func(m *Machine, th *Thread, fn *ssa.Function, a []Value, site ssa.Instruction) Value {
		return m.deepEqual(a[0], a[1], 0)
	}
}

// deepEqual models reflect.DeepEqual for maps with resolvable keys, slices,
// arrays, structs, pointers, interfaces, strings and scalars.
func (m *Machine) deepEqual(a, b Value, depth int) *Term {
	if depth > 20 {
		panic(m.unsupported("DeepEqual recursion too deep"))
	}
	switch x := a.(type) {
	case *IfaceV:
		y, ok := b.(*IfaceV)
		if !ok {
			return m.tt.False
		}
		if x.T == nil || y.T == nil {
			return m.tt.Bool(x.T == nil && y.T == nil)
		}
		if !types.Identical(x.T, y.T) {
			return m.tt.False
		}
		return m.deepEqual(x.V, y.V, depth+1)
	case *MapV:
		y, ok := b.(*MapV)
		if !ok {
			return m.tt.False
		}
		if x == nil || y == nil {
			return m.tt.Bool(x == nil && y == nil)
		}
		if x == y {
			return m.tt.True
		}
		if len(x.Entries) != len(y.Entries) {
			return m.tt.False
		}
		r := m.tt.True
		for _, e := range x.Entries {
			i := m.findEntry(y, e.K)
			if i < 0 {
				return m.tt.False
			}
			r = m.tt.And(r, m.deepEqual(e.V, y.Entries[i].V, depth+1))
		}
		return r
	case *SliceV:
		y, ok := b.(*SliceV)
		if !ok {
			return m.tt.False
		}
		if (x.Arr == nil) != (y.Arr == nil) {
			return m.tt.False
		}
		if x.Len != y.Len {
			return m.tt.False
		}
		r := m.tt.True
		xe, ye := m.sliceElems(x), m.sliceElems(y)
		for i := range xe {
			r = m.tt.And(r, m.deepEqual(xe[i], ye[i], depth+1))
		}
		return r
	case *StructV:
		y := b.(*StructV)
		r := m.tt.True
		for i := range x.F {
			r = m.tt.And(r, m.deepEqual(x.F[i], y.F[i], depth+1))
		}
		return r
	case *ArrayV:
		y := b.(*ArrayV)
		r := m.tt.True
		for i := range x.E {
			r = m.tt.And(r, m.deepEqual(x.E[i], y.E[i], depth+1))
		}
		return r
	case *Ptr:
		y, ok := b.(*Ptr)
		if !ok {
			return m.tt.False
		}
		if x.Obj == nil || y.Obj == nil {
			return m.tt.Bool(x.Obj == nil && y.Obj == nil)
		}
		if ptrEq(x, y) {
			return m.tt.True
		}
		return m.deepEqual(m.peek(x), m.peek(y), depth+1)
	case *FuncV:
		y, _ := b.(*FuncV)
		return m.tt.Bool(x == nil && y == nil)
	}
	return m.valEq(a, b)
}

// ---- sync.Map ------------------------------------------------------------------

func (m *Machine) syncMapOf(p *Ptr) *MapV {
	k := fmt.Sprint(p.Obj.ID, p.Path)
	mv := m.syncMaps[k]
	if mv == nil {
		m.mapSeq++
		mv = &MapV{ID: m.mapSeq}
		m.syncMaps[k] = mv
	}
	return mv
}

func init() {
	anyT := types.NewInterfaceType(nil, nil)
	pre := func(m *Machine, th *Thread, a []Value) *MapV {
		p := a[0].(*Ptr)
		if p.Obj == nil {
			m.goPanic("runtime error: invalid memory address or nil pointer dereference")
		}
		m.yield(th)
		s := m.syncState(p)
		m.acquireHB(th, s)
		m.releaseHB(th, s)
		return m.syncMapOf(p)
	}
	intrinsics["(*sync.Map).Load"] = func(m *Machine, th *Thread, fn *ssa.Function, a []Value, site ssa.Instruction) Value {
		mv := pre(m, th, a)
		if v, ok := m.mapGet(mv, a[1]); ok {
			return TupleV{v, m.tt.True}
		}
		return TupleV{nilIface, m.tt.False}
	}
	intrinsics["(*sync.Map).Store"] = func(m *Machine, th *Thread, fn *ssa.Function, a []Value, site ssa.Instruction) Value {
		mv := pre(m, th, a)
		m.mapUpdate(mv, a[1], a[2])
		return nil
	}
	intrinsics["(*sync.Map).LoadOrStore"] = func(m *Machine, th *Thread, fn *ssa.Function, a []Value, site ssa.Instruction) Value {
		mv := pre(m, th, a)
		if v, ok := m.mapGet(mv, a[1]); ok {
			return TupleV{v, m.tt.True}
		}
		m.mapUpdate(mv, a[1], a[2])
		return TupleV{a[2], m.tt.False}
	}
	intrinsics["(*sync.Map).LoadAndDelete"] = func(m *Machine, th *Thread, fn *ssa.Function, a []Value, site ssa.Instruction) Value {
		mv := pre(m, th, a)
		if v, ok := m.mapGet(mv, a[1]); ok {
			m.mapDelete(mv, a[1])
			return TupleV{v, m.tt.True}
		}
		return TupleV{nilIface, m.tt.False}
	}
	intrinsics["(*sync.Map).Delete"] = func(m *Machine, th *Thread, fn *ssa.Function, a []Value, site ssa.Instruction) Value {
		mv := pre(m, th, a)
		m.mapDelete(mv, a[1])
		return nil
	}
	intrinsics["(*sync.Map).Range"] = func(m *Machine, th *Thread, fn *ssa.Function, a []Value, site ssa.Instruction) Value {
		mv := pre(m, th, a)
		snap := append([]*MapEntry(nil), mv.Entries...)
		order := make([]int, 0, len(snap))
		for i := range snap {
			order = append(order, i)
		}
		for len(order) > 0 {
			pick := 0
			if m.P.Cfg.MapOrderAny && len(order) > 1 {
				pick = m.chooseEnum(len(order))
			}
			e := snap[order[pick]]
			order = append(order[:pick], order[pick+1:]...)
			r := m.callFn(th, a[1], []Value{e.K, e.V}, site)
			if t, ok := r.(*Term); ok && !m.branch(t) {
				break
			}
		}
		return nil
	}
	_ = anyT
}

// ---- sync.Pool -------------------------------------------------------------------
func init() {
	intrinsics["(*sync.Pool).Get"] = func(m *Machine, th *Thread, fn *ssa.Function, a []Value, site ssa.Instruction) Value {
		p := a[0].(*Ptr)
		// struct Pool { noCopy; local; localSize; victim; victimSize; New func() any }
		st := m.peek(p).(*StructV)
		nf, _ := st.F[len(st.F)-1].(*FuncV)
		if nf == nil {
			return nilIface
		}
		return m.callFn(th, nf, nil, site)
	}
	intrinsics["(*sync.Pool).Put"] = func(m *Machine, th *Thread, fn *ssa.Function, a []Value, site ssa.Instruction) Value {
		return nil
	}
}
