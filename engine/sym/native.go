package sym

import (
	"math"
	"net/textproto"
)

func textprotoCanonical(s string) string { return textproto.CanonicalMIMEHeaderKey(s) }


func mathBits(f float64) uint64    { return math.Float64bits(f) }
func mathMax(a, b float64) float64 { return math.Max(a, b) }
func mathMin(a, b float64) float64 { return math.Min(a, b) }
func mathPow(a, b float64) float64 { return math.Pow(a, b) }
func mathFloor(a float64) float64  { return math.Floor(a) }
func mathCeil(a float64) float64   { return math.Ceil(a) }
func mathSqrt(a float64) float64   { return math.Sqrt(a) }
func mathLog2(a float64) float64   { return math.Log2(a) }
func mathAbs(a float64) float64    { return math.Abs(a) }
