package sym

import "net/textproto"

func textprotoCanonical(s string) string { return textproto.CanonicalMIMEHeaderKey(s) }
