// Package sym is the symbolic executor for Go SSA ("symgo").
package sym

import (
	"fmt"
	"math/bits"
	"strings"
)

// Sort kinds.
const (
	KBool = iota
	KBV
	KFP // float64, concrete only (constant folding) unless noted
)

// Sort of a term.
type Sort struct {
	K uint8
	W uint8 // bit width for KBV
}

var BoolSort = Sort{KBool, 0}

func BV(w int) Sort { return Sort{KBV, uint8(w)} }

func (s Sort) String() string {
	switch s.K {
	case KBool:
		return "Bool"
	case KBV:
		return fmt.Sprintf("(_ BitVec %d)", s.W)
	default:
		return "(_ FloatingPoint 11 53)"
	}
}

// Op is a term operator.
type Op uint8

const (
	OpConst Op = iota
	OpVar
	OpNot
	OpAnd
	OpOr
	OpEq
	OpIte
	OpAdd
	OpSub
	OpMul
	OpUDiv
	OpSDiv
	OpURem
	OpSRem
	OpBAnd
	OpBOr
	OpBXor
	OpShl
	OpLShr
	OpAShr
	OpNeg
	OpBNot
	OpULT
	OpULE
	OpSLT
	OpSLE
	OpExtract // val = hi<<8|lo
	OpZExt    // val = extra bits
	OpSExt
	OpConcat
)

var opNames = map[Op]string{
	OpNot: "not", OpAnd: "and", OpOr: "or", OpEq: "=", OpIte: "ite",
	OpAdd: "bvadd", OpSub: "bvsub", OpMul: "bvmul", OpUDiv: "bvudiv", OpSDiv: "bvsdiv",
	OpURem: "bvurem", OpSRem: "bvsrem", OpBAnd: "bvand", OpBOr: "bvor", OpBXor: "bvxor",
	OpShl: "bvshl", OpLShr: "bvlshr", OpAShr: "bvashr", OpNeg: "bvneg", OpBNot: "bvnot",
	OpULT: "bvult", OpULE: "bvule", OpSLT: "bvslt", OpSLE: "bvsle", OpConcat: "concat",
}

// Term is a hash-consed SMT term.
type Term struct {
	ID   int
	Op   Op
	S    Sort
	Args []*Term
	Val  uint64 // constant value / extract indices / extension amount
	Name string // variable name
}

func (t *Term) IsConst() bool { return t.Op == OpConst }
func (t *Term) IsTrue() bool  { return t.Op == OpConst && t.S.K == KBool && t.Val == 1 }
func (t *Term) IsFalse() bool { return t.Op == OpConst && t.S.K == KBool && t.Val == 0 }

type termKey struct {
	op         Op
	sk, sw     uint8
	a0, a1, a2 int
	val        uint64
	name       string
}

// Terms is a hash-consing table. One per worker; not safe for concurrent use.
type Terms struct {
	tab   map[termKey]*Term
	next  int
	True  *Term
	False *Term
}

func NewTerms() *Terms {
	tt := &Terms{tab: map[termKey]*Term{}}
	tt.True = tt.Bool(true)
	tt.False = tt.Bool(false)
	return tt
}

func (tt *Terms) mk(op Op, s Sort, val uint64, name string, args ...*Term) *Term {
	k := termKey{op: op, sk: s.K, sw: s.W, val: val, name: name, a0: -1, a1: -1, a2: -1}
	if len(args) > 0 {
		k.a0 = args[0].ID
	}
	if len(args) > 1 {
		k.a1 = args[1].ID
	}
	if len(args) > 2 {
		k.a2 = args[2].ID
	}
	if t, ok := tt.tab[k]; ok {
		return t
	}
	t := &Term{ID: tt.next, Op: op, S: s, Args: args, Val: val, Name: name}
	tt.next++
	tt.tab[k] = t
	return t
}

func mask(w uint8) uint64 {
	if w >= 64 {
		return ^uint64(0)
	}
	return (uint64(1) << w) - 1
}

func sext(v uint64, w uint8) int64 {
	if w >= 64 {
		return int64(v)
	}
	sh := 64 - uint(w)
	return int64(v<<sh) >> sh
}

func (tt *Terms) Bool(b bool) *Term {
	if b {
		return tt.mk(OpConst, BoolSort, 1, "")
	}
	return tt.mk(OpConst, BoolSort, 0, "")
}

func (tt *Terms) Const(w int, v uint64) *Term {
	return tt.mk(OpConst, BV(w), v&mask(uint8(w)), "")
}

func (tt *Terms) FConst(bitsv uint64) *Term {
	return tt.mk(OpConst, Sort{KFP, 64}, bitsv, "")
}

func (tt *Terms) Var(name string, s Sort) *Term {
	return tt.mk(OpVar, s, 0, name)
}

func (tt *Terms) Not(a *Term) *Term {
	if a.IsConst() {
		return tt.Bool(a.Val == 0)
	}
	if a.Op == OpNot {
		return a.Args[0]
	}
	return tt.mk(OpNot, BoolSort, 0, "", a)
}

func (tt *Terms) And(a, b *Term) *Term {
	if a.IsConst() {
		if a.Val == 1 {
			return b
		}
		return a
	}
	if b.IsConst() {
		if b.Val == 1 {
			return a
		}
		return b
	}
	if a == b {
		return a
	}
	if (a.Op == OpNot && a.Args[0] == b) || (b.Op == OpNot && b.Args[0] == a) {
		return tt.False
	}
	return tt.mk(OpAnd, BoolSort, 0, "", a, b)
}

func (tt *Terms) Or(a, b *Term) *Term {
	if a.IsConst() {
		if a.Val == 0 {
			return b
		}
		return a
	}
	if b.IsConst() {
		if b.Val == 0 {
			return a
		}
		return b
	}
	if a == b {
		return a
	}
	if (a.Op == OpNot && a.Args[0] == b) || (b.Op == OpNot && b.Args[0] == a) {
		return tt.True
	}
	return tt.mk(OpOr, BoolSort, 0, "", a, b)
}

func (tt *Terms) Implies(a, b *Term) *Term { return tt.Or(tt.Not(a), b) }

func (tt *Terms) AndN(ts ...*Term) *Term {
	r := tt.True
	for _, t := range ts {
		r = tt.And(r, t)
	}
	return r
}

func (tt *Terms) OrN(ts ...*Term) *Term {
	r := tt.False
	for _, t := range ts {
		r = tt.Or(r, t)
	}
	return r
}

func (tt *Terms) Eq(a, b *Term) *Term {
	if a == b {
		return tt.True
	}
	if a.S != b.S {
		panic(fmt.Sprintf("Eq: sort mismatch %v vs %v", a.S, b.S))
	}
	if a.IsConst() && b.IsConst() {
		return tt.Bool(a.Val == b.Val)
	}
	if a.S.K == KBool {
		if a.IsConst() {
			if a.Val == 1 {
				return b
			}
			return tt.Not(b)
		}
		if b.IsConst() {
			if b.Val == 1 {
				return a
			}
			return tt.Not(a)
		}
	}
	// ite(c, k1, k2) == k  with constants
	if b.IsConst() && a.Op == OpIte && a.Args[1].IsConst() && a.Args[2].IsConst() {
		t1 := a.Args[1].Val == b.Val
		t2 := a.Args[2].Val == b.Val
		switch {
		case t1 && t2:
			return tt.True
		case t1:
			return a.Args[0]
		case t2:
			return tt.Not(a.Args[0])
		default:
			return tt.False
		}
	}
	if a.IsConst() && b.Op == OpIte {
		return tt.Eq(b, a)
	}
	if a.ID > b.ID {
		a, b = b, a
	}
	return tt.mk(OpEq, BoolSort, 0, "", a, b)
}

func (tt *Terms) Ite(c, a, b *Term) *Term {
	if c.IsConst() {
		if c.Val == 1 {
			return a
		}
		return b
	}
	if a == b {
		return a
	}
	if a.S != b.S {
		panic(fmt.Sprintf("Ite: sort mismatch %v vs %v", a.S, b.S))
	}
	if a.S.K == KBool {
		if a.IsConst() && b.IsConst() {
			if a.Val == 1 {
				return c
			}
			return tt.Not(c)
		}
		if a.IsConst() {
			if a.Val == 1 {
				return tt.Or(c, b)
			}
			return tt.And(tt.Not(c), b)
		}
		if b.IsConst() {
			if b.Val == 1 {
				return tt.Or(tt.Not(c), a)
			}
			return tt.And(c, a)
		}
	}
	if c.Op == OpNot {
		return tt.mk(OpIte, a.S, 0, "", c.Args[0], b, a)
	}
	return tt.mk(OpIte, a.S, 0, "", c, a, b)
}

// BinBV builds a bit-vector binary operation with constant folding.
func (tt *Terms) BinBV(op Op, a, b *Term) *Term {
	if a.S != b.S {
		panic(fmt.Sprintf("BinBV %v: sort mismatch %v vs %v", opNames[op], a.S, b.S))
	}
	w := a.S.W
	if a.IsConst() && b.IsConst() {
		x, y := a.Val, b.Val
		var r uint64
		switch op {
		case OpAdd:
			r = x + y
		case OpSub:
			r = x - y
		case OpMul:
			r = x * y
		case OpUDiv:
			if y == 0 {
				r = mask(w)
			} else {
				r = x / y
			}
		case OpURem:
			if y == 0 {
				r = x
			} else {
				r = x % y
			}
		case OpSDiv:
			sx, sy := sext(x, w), sext(y, w)
			if sy == 0 {
				if sx < 0 {
					r = 1
				} else {
					r = mask(w)
				}
			} else if sy == -1 {
				r = uint64(-sx)
			} else {
				r = uint64(sx / sy)
			}
		case OpSRem:
			sx, sy := sext(x, w), sext(y, w)
			if sy == 0 {
				r = x
			} else if sy == -1 {
				r = 0
			} else {
				r = uint64(sx % sy)
			}
		case OpBAnd:
			r = x & y
		case OpBOr:
			r = x | y
		case OpBXor:
			r = x ^ y
		case OpShl:
			if y >= uint64(w) {
				r = 0
			} else {
				r = x << y
			}
		case OpLShr:
			if y >= uint64(w) {
				r = 0
			} else {
				r = x >> y
			}
		case OpAShr:
			sx := sext(x, w)
			if y >= uint64(w) {
				if sx < 0 {
					r = mask(w)
				} else {
					r = 0
				}
			} else {
				r = uint64(sx >> y)
			}
		default:
			panic("BinBV: bad op")
		}
		return tt.Const(int(w), r)
	}
	// cheap identities
	switch op {
	case OpAdd:
		if a.IsConst() && a.Val == 0 {
			return b
		}
		if b.IsConst() && b.Val == 0 {
			return a
		}
		if a.IsConst() { // canonical: constant on the right
			a, b = b, a
		}
		// (x + c1) + c2
		if b.IsConst() && a.Op == OpAdd && a.Args[1].IsConst() {
			return tt.BinBV(OpAdd, a.Args[0], tt.Const(int(w), a.Args[1].Val+b.Val))
		}
	case OpSub:
		if b.IsConst() && b.Val == 0 {
			return a
		}
		if a == b {
			return tt.Const(int(w), 0)
		}
		if b.IsConst() {
			return tt.BinBV(OpAdd, a, tt.Const(int(w), -b.Val))
		}
	case OpMul:
		if a.IsConst() {
			a, b = b, a
		}
		if b.IsConst() {
			if b.Val == 0 {
				return b
			}
			if b.Val == 1 {
				return a
			}
		}
	case OpBAnd:
		if a.IsConst() {
			a, b = b, a
		}
		if b.IsConst() {
			if b.Val == 0 {
				return b
			}
			if b.Val == mask(w) {
				return a
			}
		}
		if a == b {
			return a
		}
	case OpBOr, OpBXor:
		if a.IsConst() {
			a, b = b, a
		}
		if b.IsConst() && b.Val == 0 {
			return a
		}
		if a == b {
			if op == OpBOr {
				return a
			}
			return tt.Const(int(w), 0)
		}
	case OpShl, OpLShr, OpAShr:
		if b.IsConst() && b.Val == 0 {
			return a
		}
		if b.IsConst() && b.Val >= uint64(w) && op != OpAShr {
			return tt.Const(int(w), 0)
		}
	case OpUDiv, OpSDiv:
		if b.IsConst() && b.Val == 1 {
			return a
		}
	}
	return tt.mk(op, a.S, 0, "", a, b)
}

func (tt *Terms) Neg(a *Term) *Term {
	if a.IsConst() {
		return tt.Const(int(a.S.W), -a.Val)
	}
	return tt.mk(OpNeg, a.S, 0, "", a)
}

func (tt *Terms) BNot(a *Term) *Term {
	if a.IsConst() {
		return tt.Const(int(a.S.W), ^a.Val)
	}
	return tt.mk(OpBNot, a.S, 0, "", a)
}

// Cmp builds a comparison (OpULT, OpULE, OpSLT, OpSLE).
func (tt *Terms) Cmp(op Op, a, b *Term) *Term {
	if a.S != b.S {
		panic(fmt.Sprintf("Cmp: sort mismatch %v vs %v", a.S, b.S))
	}
	w := a.S.W
	if a.IsConst() && b.IsConst() {
		switch op {
		case OpULT:
			return tt.Bool(a.Val < b.Val)
		case OpULE:
			return tt.Bool(a.Val <= b.Val)
		case OpSLT:
			return tt.Bool(sext(a.Val, w) < sext(b.Val, w))
		case OpSLE:
			return tt.Bool(sext(a.Val, w) <= sext(b.Val, w))
		}
	}
	if a == b {
		return tt.Bool(op == OpULE || op == OpSLE)
	}
	if op == OpULT && b.IsConst() && b.Val == 0 {
		return tt.False
	}
	if op == OpULE && a.IsConst() && a.Val == 0 {
		return tt.True
	}
	// comparisons of zero-extended values against small constants
	return tt.mk(op, BoolSort, 0, "", a, b)
}

func (tt *Terms) Extract(a *Term, hi, lo int) *Term {
	w := hi - lo + 1
	if lo == 0 && w == int(a.S.W) {
		return a
	}
	if a.IsConst() {
		return tt.Const(w, a.Val>>uint(lo))
	}
	if (a.Op == OpZExt || a.Op == OpSExt) && hi < int(a.Args[0].S.W) {
		return tt.Extract(a.Args[0], hi, lo)
	}
	if a.Op == OpZExt && lo >= int(a.Args[0].S.W) {
		return tt.Const(w, 0)
	}
	return tt.mk(OpExtract, BV(w), uint64(hi)<<8|uint64(lo), "", a)
}

func (tt *Terms) ZExt(a *Term, to int) *Term {
	if int(a.S.W) == to {
		return a
	}
	if int(a.S.W) > to {
		return tt.Extract(a, to-1, 0)
	}
	if a.IsConst() {
		return tt.Const(to, a.Val)
	}
	if a.Op == OpZExt {
		return tt.ZExt(a.Args[0], to)
	}
	return tt.mk(OpZExt, BV(to), uint64(to-int(a.S.W)), "", a)
}

func (tt *Terms) SExt(a *Term, to int) *Term {
	if int(a.S.W) == to {
		return a
	}
	if int(a.S.W) > to {
		return tt.Extract(a, to-1, 0)
	}
	if a.IsConst() {
		return tt.Const(to, uint64(sext(a.Val, a.S.W)))
	}
	return tt.mk(OpSExt, BV(to), uint64(to-int(a.S.W)), "", a)
}

func (tt *Terms) Concat(hi, lo *Term) *Term {
	w := int(hi.S.W) + int(lo.S.W)
	if hi.IsConst() && lo.IsConst() {
		return tt.Const(w, hi.Val<<lo.S.W|lo.Val)
	}
	return tt.mk(OpConcat, BV(w), 0, "", hi, lo)
}

// ---- SMT-LIB printing -------------------------------------------------

func constLit(t *Term) string {
	switch t.S.K {
	case KBool:
		if t.Val == 1 {
			return "true"
		}
		return "false"
	case KBV:
		if t.S.W%4 == 0 {
			return fmt.Sprintf("#x%0*x", int(t.S.W)/4, t.Val)
		}
		return fmt.Sprintf("#b%0*b", int(t.S.W), t.Val)
	default:
		// float64 from bits
		return fmt.Sprintf("((_ to_fp 11 53) #x%016x)", t.Val)
	}
}

func quoteName(n string) string { return "|" + n + "|" }

// ref returns the textual reference of a term assuming it (if non-leaf) has been defined.
func ref(t *Term) string {
	switch t.Op {
	case OpConst:
		return constLit(t)
	case OpVar:
		return quoteName(t.Name)
	}
	return fmt.Sprintf("t%d", t.ID)
}

func body(t *Term) string {
	var sb strings.Builder
	switch t.Op {
	case OpExtract:
		fmt.Fprintf(&sb, "((_ extract %d %d) %s)", t.Val>>8, t.Val&0xff, ref(t.Args[0]))
	case OpZExt:
		fmt.Fprintf(&sb, "((_ zero_extend %d) %s)", t.Val, ref(t.Args[0]))
	case OpSExt:
		fmt.Fprintf(&sb, "((_ sign_extend %d) %s)", t.Val, ref(t.Args[0]))
	default:
		sb.WriteString("(")
		sb.WriteString(opNames[t.Op])
		for _, a := range t.Args {
			sb.WriteString(" ")
			sb.WriteString(ref(a))
		}
		sb.WriteString(")")
	}
	return sb.String()
}

// Eval evaluates a term under an assignment of variables (by name).
// Missing variables evaluate to 0.
func Eval(t *Term, env map[string]uint64, memo map[int]uint64) uint64 {
	if v, ok := memo[t.ID]; ok {
		return v
	}
	var r uint64
	w := t.S.W
	switch t.Op {
	case OpConst:
		r = t.Val
	case OpVar:
		r = env[t.Name]
	case OpNot:
		r = 1 - Eval(t.Args[0], env, memo)
	case OpAnd:
		r = Eval(t.Args[0], env, memo) & Eval(t.Args[1], env, memo)
	case OpOr:
		r = Eval(t.Args[0], env, memo) | Eval(t.Args[1], env, memo)
	case OpEq:
		if Eval(t.Args[0], env, memo) == Eval(t.Args[1], env, memo) {
			r = 1
		}
	case OpIte:
		if Eval(t.Args[0], env, memo) == 1 {
			r = Eval(t.Args[1], env, memo)
		} else {
			r = Eval(t.Args[2], env, memo)
		}
	case OpNeg:
		r = -Eval(t.Args[0], env, memo)
	case OpBNot:
		r = ^Eval(t.Args[0], env, memo)
	case OpExtract:
		r = Eval(t.Args[0], env, memo) >> (t.Val & 0xff)
	case OpZExt:
		r = Eval(t.Args[0], env, memo)
	case OpSExt:
		r = uint64(sext(Eval(t.Args[0], env, memo), t.Args[0].S.W))
	case OpConcat:
		r = Eval(t.Args[0], env, memo)<<t.Args[1].S.W | Eval(t.Args[1], env, memo)
	case OpULT, OpULE, OpSLT, OpSLE:
		x, y := Eval(t.Args[0], env, memo), Eval(t.Args[1], env, memo)
		aw := t.Args[0].S.W
		var b bool
		switch t.Op {
		case OpULT:
			b = x < y
		case OpULE:
			b = x <= y
		case OpSLT:
			b = sext(x, aw) < sext(y, aw)
		case OpSLE:
			b = sext(x, aw) <= sext(y, aw)
		}
		if b {
			r = 1
		}
	default:
		x, y := Eval(t.Args[0], env, memo), Eval(t.Args[1], env, memo)
		tt := NewTerms()
		r = tt.BinBV(t.Op, tt.Const(int(w), x), tt.Const(int(w), y)).Val
	}
	if t.S.K == KBV {
		r &= mask(w)
	}
	memo[t.ID] = r
	return r
}

var _ = bits.Len
