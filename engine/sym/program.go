package sym

import (
	"encoding/json"
	"fmt"
	"go/types"
	"os"
	"path/filepath"
	"sort"
	"strings"
	"sync"

	"golang.org/x/tools/go/packages"
	"golang.org/x/tools/go/ssa"
	"golang.org/x/tools/go/ssa/ssautil"
)

// Config are engine limits and options for one harness run.
type Config struct {
	MaxDecisions int
	MaxSteps     int
	MaxCallDepth int
	MaxSlice     int
	MaxStr       int
	MaxPreempt   int
	MapOrderAny  bool
	DeadlockOK   bool
	// time.AfterFunc on the virtual clock (fires when its deadline falls due) instead of
	// the coarse "may fire at any time" model
	VirtualAfterFunc bool
	NoopPkgs         []string
}

// HarnessSpec describes one entry function in harness.json.
type HarnessSpec struct {
	Name             string                    `json:"name"`
	Pkg              string                    `json:"pkg"`
	Bounds           map[string]map[string]int `json:"bounds"` // tier -> name -> value
	Covers           []string                  `json:"covers"`
	MaxPreempt       map[string]int            `json:"maxPreempt"`
	MapOrderAny      bool                      `json:"mapOrderAny"`
	DeadlockOK       bool                      `json:"deadlockOK"`
	VirtualAfterFunc bool                      `json:"virtualAfterFunc"`
	Tiers            []string                  `json:"tiers"` // empty = all
	MaxPaths         int                       `json:"maxPaths"`
	MaxStr           int                       `json:"maxStr"`
	Doc              string                    `json:"doc"`
	Solver           string                    `json:"solver"`
	Expect           string                    `json:"expect"` // "" | "violation" (self-test harnesses)
	Known            []KnownSpec               `json:"known"`
	Replace          map[string]string         `json:"replace"` // per-harness additions to the suite's replacement table
}

// KnownSpec links a harness assertion label to a known finding id.
type KnownSpec struct {
	Label string `json:"label"`
	ID    string `json:"id"`
}

// SuiteSpec is harness.json.
type SuiteSpec struct {
	Property     string            `json:"property"`
	Packages     []string          `json:"packages"`     // go/packages patterns relative to repo
	Overlays     map[string]string `json:"overlays"`     // repo-relative virtual path -> file relative to the json
	RT           map[string]string `json:"rt"`           // repo-relative dir -> package name (gets zz_verif_rt.go)
	InitPackages []string          `json:"initPackages"` // import paths whose init() runs fully
	NoopPackages []string          `json:"noopPackages"`
	Replace      map[string]string `json:"replace"` // callee -> "importpath.Func" ("" = no-op)
	Harnesses    []HarnessSpec     `json:"harnesses"`
	NoopTypes    []string          `json:"noopTypes"` // "import/path.Type": every method is a no-op (results zero; a result of an interface type the receiver implements is the receiver)
	Globals      map[string]string `json:"globals"`   // "import/path.Var" -> "zero": never initialised from the package initialiser
	Assumptions  []string          `json:"assumptions"`
	Stubs        []string          `json:"stubs"`
}

// Program is the loaded SSA program plus suite-level tables (shared, read-only after load).
type Program struct {
	Prog          *ssa.Program
	Pkgs          map[string]*ssa.Package
	Suite         *SuiteSpec
	Cfg           Config
	Repl          map[string]*ssa.Function
	initFuncs     []*ssa.Function
	initPkgSet    map[*ssa.Package]bool
	rtErrType     types.Type
	errStringType types.Type
	rtypePtr      types.Type
	// DroppedOverlays: harness files that did not type-check against the current tree (real path -> first error)
	DroppedOverlays map[string]string
	mu              sync.Mutex
	RepoDir         string
	VerifDir        string
	Files           map[string]string // overlay virtual path -> real file
	KnownLabels     map[string]bool   // "harness|label" of listed known findings (exploration continues past them)
}

// PrepareModfile writes build/repo_alt.mod(.sum) with the quic-go stub replacement.
func PrepareModfile(repo, verif string) (string, error) {
	b, err := os.ReadFile(filepath.Join(repo, "go.mod"))
	if err != nil {
		return "", err
	}
	out := string(b) + "\nreplace github.com/lucas-clemente/quic-go => " + filepath.Join(verif, "stubs/quic-go") + "\n"
	dst := filepath.Join(verif, "build", "repo_alt.mod")
	os.MkdirAll(filepath.Dir(dst), 0o755)
	if err := os.WriteFile(dst, []byte(out), 0o644); err != nil {
		return "", err
	}
	s, err := os.ReadFile(filepath.Join(repo, "go.sum"))
	if err != nil {
		return "", err
	}
	if err := os.WriteFile(filepath.Join(verif, "build", "repo_alt.sum"), s, 0o644); err != nil {
		return "", err
	}
	return dst, nil
}

// RTSource is the text of zz_verif_rt.go for a package.
func RTSource(pkgName string) string {
	return "package " + pkgName + "\n" + rtBody
}

const rtBody = `
// Engine intrinsics. The bodies are never executed by the symbolic engine
// (calls are intercepted by name); they exist so that the package type-checks.

func verifInt(name string, lo, hi int64) int64                     { return lo }
func verifUint(name string, lo, hi uint64) uint64                  { return lo }
func verifChoose(name string, n int) int                           { return 0 }
func verifBool(name string) bool                                   { return false }
func verifByte(name string) byte                                   { return 0 }
func verifString(name string, maxLen int) string                   { return "" }
func verifBytes(name string, n int) []byte                         { return make([]byte, n) }
func verifAssume(c bool)                                           {}
func verifAssert(c bool, label string)                             {}
func verifCover(label string)                                      {}
func verifBound(name string) int                                   { return 0 }
func verifConcrete(x int64, max int64) int64                       { return x }
func verifIsSymbolic() bool                                        { return false }
func verifTrace(msg string, args ...interface{})                   {}
func verifYield()                                                  {}
func verifQuiesce()                                                {}
func verifAdvance(d int64)                                         {}
func verifClock() int64                                            { return 0 }
func verifUFBool(name string, args ...interface{}) bool            { return false }
func verifUFInt(name string, lo, hi int64, args ...interface{}) int64 { return lo }
func verifSetField(ptr interface{}, field string, v interface{})   {}
func verifGetField(ptr interface{}, field string) interface{}      { return nil }
func verifFieldPtr(ptr interface{}, field string) interface{}      { return nil }
func verifInitMaps(ptr interface{})                                 {}
func verifRaceScopeDeep(ptr interface{}, label string)              {}
func verifRaceScope(ptr interface{}, label string)                 {}
func verifParseIP(s string) []byte                                 { return nil }
func verifParseCIDR(s string) (ip, mask []byte, ok bool)           { return nil, nil, false }
`

// Load loads the suite's packages from the repo working tree with the harness overlays.
func Load(repo, verif, suiteFile string) (*Program, error) {
	raw, err := os.ReadFile(suiteFile)
	if err != nil {
		return nil, err
	}
	suite := &SuiteSpec{}
	if err := json.Unmarshal(raw, suite); err != nil {
		return nil, fmt.Errorf("%s: %v", suiteFile, err)
	}
	modfile, err := PrepareModfile(repo, verif)
	if err != nil {
		return nil, err
	}
	overlay := map[string][]byte{}
	files := map[string]string{}
	base := filepath.Dir(suiteFile)
	for virt, real := range suite.Overlays {
		b, err := os.ReadFile(filepath.Join(base, real))
		if err != nil {
			return nil, err
		}
		overlay[filepath.Join(repo, virt)] = b
		files[filepath.Join(repo, virt)] = filepath.Join(base, real)
	}
	for dir, pkgName := range suite.RT {
		overlay[filepath.Join(repo, dir, "zz_verif_rt.go")] = []byte(RTSource(pkgName))
	}
	cfg := &packages.Config{
		Mode:    packages.LoadAllSyntax,
		Dir:     repo,
		Overlay: overlay,
		Env: append(os.Environ(), "GOFLAGS=-mod=mod -modfile="+modfile, "GOPROXY=off", "GOSUMDB=off",
			"GOTOOLCHAIN=local", "GOWORK=off"),
	}
	// Load; when a harness overlay file does not type-check against the current tree (the code
	// under test lost or renamed something a white-box harness refers to), drop that file and
	// load again: the harnesses it defines become inconclusive, the others still run.
	var pkgs []*packages.Package
	dropped := map[string]string{}
	for attempt := 0; ; attempt++ {
		pkgs, err = packages.Load(cfg, suite.Packages...)
		if err != nil {
			return nil, err
		}
		var errs []string
		bad := map[string]bool{}
		foreign := false
		packages.Visit(pkgs, nil, func(p *packages.Package) {
			for _, e := range p.Errors {
				errs = append(errs, e.Error())
				file := e.Pos
				if i := strings.Index(file, ":"); i >= 0 {
					file = file[:i]
				}
				if _, isOverlay := files[file]; isOverlay {
					bad[file] = true
				} else {
					foreign = true
				}
			}
		})
		if len(errs) == 0 {
			break
		}
		if foreign || len(bad) == 0 || attempt >= 4 {
			if len(errs) > 20 {
				errs = errs[:20]
			}
			return nil, fmt.Errorf("package load errors:\n%s", strings.Join(errs, "\n"))
		}
		for f := range bad {
			first := ""
			for _, e := range errs {
				if strings.HasPrefix(e, f+":") {
					first = e
					break
				}
			}
			dropped[files[f]] = first
			delete(overlay, f)
			delete(files, f)
		}
	}
	prog, _ := ssautil.AllPackages(pkgs, ssa.InstantiateGenerics)
	P := &Program{Prog: prog, Pkgs: map[string]*ssa.Package{}, Suite: suite, Repl: map[string]*ssa.Function{},
		initPkgSet: map[*ssa.Package]bool{}, RepoDir: repo, VerifDir: verif, Files: files, DroppedOverlays: dropped}
	for _, p := range prog.AllPackages() {
		P.Pkgs[p.Pkg.Path()] = p
	}
	// build every function body now: nothing is built lazily while workers run
	// (lazy building of method wrappers is not safe against concurrent readers)
	prog.Build()
	for _, ip := range suite.InitPackages {
		sp := P.Pkgs[ip]
		if sp == nil {
			return nil, fmt.Errorf("initPackages: %s not loaded", ip)
		}
		sp.Build()
		P.initPkgSet[sp] = true
		P.initFuncs = append(P.initFuncs, sp.Func("init"))
	}
	if err := P.SetReplacements(nil); err != nil {
		return nil, err
	}
	if rp := P.Pkgs["runtime"]; rp != nil {
		if t := rp.Type("errorString"); t != nil {
			P.rtErrType = t.Type()
		}
	}
	if ep := P.Pkgs["errors"]; ep != nil {
		ep.Build()
		if t := ep.Type("errorString"); t != nil {
			P.errStringType = t.Type()
		}
	}
	P.rtypePtr = types.NewPointer(types.NewNamed(types.NewTypeName(0, nil, "engineRType", nil), types.NewStruct(nil, nil), nil))
	if P.rtErrType == nil || P.errStringType == nil {
		return nil, fmt.Errorf("runtime.errorString / errors.errorString not found")
	}
	return P, nil
}

// SetReplacements installs the suite's replacement table plus per-harness additions.
func (P *Program) SetReplacements(extra map[string]string) error {
	P.Repl = map[string]*ssa.Function{}
	for _, tab := range []map[string]string{P.Suite.Replace, extra} {
		for callee, repl := range tab {
			if repl == "" {
				P.Repl[callee] = nil
				continue
			}
			if repl == "-" { // harness-level override: execute the real function
				delete(P.Repl, callee)
				continue
			}
			f, err := P.findFunc(repl)
			if err != nil {
				if len(P.DroppedOverlays) > 0 {
					// the replacement lived in a harness file that was dropped: the
					// harnesses that need it are in that file too
					continue
				}
				return fmt.Errorf("replace %s: %v", callee, err)
			}
			P.Repl[callee] = f
		}
	}
	return nil
}

// findFunc resolves "import/path.Func" or "(*import/path.T).Method"-free form "import/path.T.Method".
func (P *Program) findFunc(name string) (*ssa.Function, error) {
	i := strings.LastIndex(name, ".")
	if i < 0 {
		return nil, fmt.Errorf("bad function name %q", name)
	}
	pkg, fn := name[:i], name[i+1:]
	sp := P.Pkgs[pkg]
	if sp == nil {
		return nil, fmt.Errorf("package %q not loaded", pkg)
	}
	sp.Build()
	f := sp.Func(fn)
	if f == nil {
		return nil, fmt.Errorf("function %q not found in %s", fn, pkg)
	}
	return f, nil
}

// ---- globals ------------------------------------------------------------------

func (m *Machine) globalObj(g *ssa.Global) *Obj {
	if o, ok := m.globals[g]; ok {
		return o
	}
	t := deref(g.Type())
	o := m.newObj(t, m.zero(t), "global "+g.String())
	o.Label = g.String()
	m.globals[g] = o
	if g.Pkg != nil && !m.P.initPkgSet[g.Pkg] {
		switch m.P.Suite.Globals[g.Pkg.Pkg.Path()+"."+g.Name()] {
		case "zero":
			return o
		case "new":
			// pointer variable: a fresh zero object of the element type
			et := deref(t)
			o.V = &Ptr{Obj: m.newObj(et, m.zero(et), "global-new "+g.String())}
			return o
		}
		m.demandInit(g)
	}
	return o
}

type initSlice struct {
	instrs []ssa.Instruction
	poison string
}

var sliceCache sync.Map // *ssa.Global -> *initSlice

// demandInit runs the backward slice of the package initialiser that produces g.
func (m *Machine) demandInit(g *ssa.Global) {
	var sl *initSlice
	if c, ok := sliceCache.Load(g); ok {
		sl = c.(*initSlice)
	} else {
		m.P.mu.Lock()
		g.Pkg.Build()
		m.P.mu.Unlock()
		sl = computeInitSlice(g)
		sliceCache.Store(g, sl)
	}
	if sl.poison != "" {
		panic(m.unsupported("global %s cannot be initialised on demand: %s", g, sl.poison))
	}
	if len(sl.instrs) == 0 {
		return
	}
	th := m.cur
	initFn := g.Pkg.Func("init")
	fr := &Frame{th: th, fn: initFn, caller: th.top, env: map[ssa.Value]Value{}}
	saved := th.top
	th.top = fr
	defer func() { th.top = saved }()
	for _, in := range sl.instrs {
		fr.cur = in
		m.visit(fr, in)
	}
}

func computeInitSlice(g *ssa.Global) *initSlice {
	initFn := g.Pkg.Func("init")
	sl := &initSlice{}
	if initFn == nil || initFn.Blocks == nil {
		return sl
	}
	// user init functions referencing g?
	for i := 1; ; i++ {
		uf := g.Pkg.Func(fmt.Sprintf("init#%d", i))
		if uf == nil {
			break
		}
		for _, b := range uf.Blocks {
			for _, in := range b.Instrs {
				for _, op := range in.Operands(nil) {
					if *op == ssa.Value(g) {
						sl.poison = "referenced by a user init function (add the package to initPackages)"
						return sl
					}
				}
			}
		}
	}
	order := map[ssa.Instruction]int{}
	n := 0
	for _, b := range initFn.Blocks {
		for _, in := range b.Instrs {
			order[in] = n
			n++
		}
	}
	inSlice := map[ssa.Instruction]bool{}
	var work []ssa.Instruction
	add := func(in ssa.Instruction) {
		if !inSlice[in] {
			inSlice[in] = true
			work = append(work, in)
		}
	}
	// roots: stores to g (directly or through field/index addresses of g)
	var rootedAt func(v ssa.Value) ssa.Value
	rootedAt = func(v ssa.Value) ssa.Value {
		switch x := v.(type) {
		case *ssa.FieldAddr:
			return rootedAt(x.X)
		case *ssa.IndexAddr:
			return rootedAt(x.X)
		}
		return v
	}
	for _, b := range initFn.Blocks {
		for _, in := range b.Instrs {
			if st, ok := in.(*ssa.Store); ok && rootedAt(st.Addr) == ssa.Value(g) {
				add(in)
			}
		}
	}
	if len(work) == 0 {
		return sl
	}
	for len(work) > 0 {
		in := work[len(work)-1]
		work = work[:len(work)-1]
		switch in.(type) {
		case *ssa.Phi, *ssa.If:
			sl.poison = "initialiser depends on control flow"
			return sl
		}
		for _, op := range in.Operands(nil) {
			if *op == nil {
				continue
			}
			if def, ok := (*op).(ssa.Instruction); ok {
				if def.Parent() == initFn {
					add(def)
				}
			}
		}
		// allocations: include every write through them
		if v, ok := in.(ssa.Value); ok {
			switch in.(type) {
			case *ssa.Alloc, *ssa.MakeMap, *ssa.MakeSlice, *ssa.FieldAddr, *ssa.IndexAddr, *ssa.Slice, *ssa.MakeInterface, *ssa.ChangeType, *ssa.Call:
				if refs := v.Referrers(); refs != nil {
					for _, r := range *refs {
						switch r := r.(type) {
						case *ssa.Store:
							if r.Addr == v {
								add(r)
							}
						case *ssa.MapUpdate:
							if r.Map == v {
								add(r)
							}
						case *ssa.FieldAddr, *ssa.IndexAddr:
							if _, isAlloc := in.(*ssa.Alloc); isAlloc || isAddr(in) {
								add(r.(ssa.Instruction))
							}
						case *ssa.Slice:
							if _, isAlloc := in.(*ssa.Alloc); isAlloc {
								add(r)
							}
						}
					}
				}
			}
		}
	}
	for in := range inSlice {
		sl.instrs = append(sl.instrs, in)
	}
	sort.Slice(sl.instrs, func(i, j int) bool { return order[sl.instrs[i]] < order[sl.instrs[j]] })
	return sl
}

func isAddr(in ssa.Instruction) bool {
	switch in.(type) {
	case *ssa.FieldAddr, *ssa.IndexAddr:
		return true
	}
	return false
}
