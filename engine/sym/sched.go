package sym

import (
	"fmt"
	"go/types"
	"runtime/debug"

	"golang.org/x/tools/go/ssa"
)

// Thread is an engine thread (a goroutine of the program under test).
type Thread struct {
	id      int
	m       *Machine
	top     *Frame
	wake    chan struct{}
	done    bool
	started bool
	blocked func() bool // nil: runnable
	what    string
	vc      []int
	isMain  bool
}

type abortSentinel struct{}

type raceInfo struct {
	w  map[string]access
	rd map[string][]access
}

type access struct {
	tid int
	clk int
	at  string
}

func (m *Machine) newThread() *Thread {
	t := &Thread{id: len(m.threads), m: m, wake: make(chan struct{}, 1)}
	m.threads = append(m.threads, t)
	// vector clock
	t.vc = make([]int, len(m.threads))
	t.vc[t.id] = 1
	return t
}

func (m *Machine) runThreads() pathEnd {
	m.endCh = make(chan pathEnd, 1)
	main := m.newThread()
	main.isMain = true
	m.cur = main
	m.wg.Add(1)
	go m.threadMain(main, func() {
		for _, fn := range m.P.initFuncs {
			m.callSSA(main, fn, nil, nil, nil)
		}
		m.callSSA(main, m.entry, nil, nil, nil)
	})
	main.started = true
	main.wake <- struct{}{}
	end := <-m.endCh
	m.aborting = true
	for _, t := range m.threads {
		if !t.done {
			select {
			case t.wake <- struct{}{}:
			default:
			}
		}
	}
	m.wg.Wait()
	return end
}

func (m *Machine) signalEnd(e pathEnd) {
	select {
	case m.endCh <- e:
	default:
	}
}

func (m *Machine) threadMain(t *Thread, body func()) {
	defer m.wg.Done()
	defer func() {
		r := recover()
		t.done = true
		if m.aborting {
			return
		}
		switch r := r.(type) {
		case nil:
			if t.isMain {
				m.finishMain(t)
				return
			}
			m.threadExit(t)
		case pathEnd:
			m.signalEnd(r)
		case *goPanicV:
			// uncaught panic: a violation (the process would crash)
			func() {
				defer func() {
					r2 := recover()
					if pe, ok := r2.(pathEnd); ok {
						m.signalEnd(pe)
					} else {
						m.signalEnd(pathEnd{Kind: "unsupported", Msg: fmt.Sprint("engine failure while reporting panic: ", r2)})
					}
				}()
				m.violation("panic", panicLabel(r.Msg), r.Msg)
			}()
		case abortSentinel:
		default:
			m.signalEnd(pathEnd{Kind: "unsupported", Msg: fmt.Sprintf("engine bug: %v\n%s", r, debug.Stack())})
		}
	}()
	t.park()
	body()
}

func (t *Thread) park() {
	<-t.wake
	if t.m.aborting {
		panic(abortSentinel{})
	}
}

// finishMain is called when the harness function returned.
func (m *Machine) finishMain(t *Thread) {
	defer func() {
		r := recover()
		switch r := r.(type) {
		case nil:
			m.signalEnd(pathEnd{Kind: "done"})
		case pathEnd:
			m.signalEnd(r)
		default:
			m.signalEnd(pathEnd{Kind: "unsupported", Msg: fmt.Sprintf("engine bug at path end: %v", r)})
		}
	}()
}

func (m *Machine) enabled(t *Thread) bool {
	if t.done {
		return false
	}
	return t.blocked == nil || t.blocked()
}

func (m *Machine) liveOthers(self *Thread) int {
	n := 0
	for _, t := range m.threads {
		if t != self && !t.done {
			n++
		}
	}
	return n
}

// switchTo transfers control from cur to t and parks cur until rescheduled.
func (m *Machine) switchTo(from, to *Thread) {
	if from == to {
		return
	}
	m.cur = to
	to.blocked = nil
	to.wake <- struct{}{}
	from.park()
}

// yield is a preemption point of thread th.
func (m *Machine) yield(th *Thread) {
	if m.liveOthers(th) == 0 {
		return
	}
	var cand []*Thread
	cand = append(cand, th)
	if m.preempt < m.P.Cfg.MaxPreempt {
		for _, t := range m.threads {
			if t != th && m.enabled(t) {
				cand = append(cand, t)
			}
		}
	}
	if len(cand) == 1 {
		return
	}
	k := m.chooseEnum(len(cand))
	if k != 0 {
		m.preempt++
		m.switchTo(th, cand[k])
	}
}

// block parks th until pred() holds (checked by the scheduler).
func (m *Machine) block(th *Thread, what string, pred func() bool) {
	for !pred() {
		th.blocked = pred
		th.what = what
		var cand []*Thread
		for _, t := range m.threads {
			if t != th && m.enabled(t) {
				cand = append(cand, t)
			}
		}
		if len(cand) == 0 {
			if m.fireOnIdle() {
				continue
			}
			m.deadlock(th)
		}
		k := m.chooseEnum(len(cand))
		m.switchTo(th, cand[k])
	}
	th.blocked = nil
}

func (m *Machine) deadlock(th *Thread) {
	// all threads blocked
	desc := ""
	for _, t := range m.threads {
		if !t.done {
			desc += fmt.Sprintf(" T%d:%s", t.id, t.what)
		}
	}
	if m.P.Cfg.DeadlockOK {
		m.endPath("done", "quiescent:"+desc)
	}
	m.violation("deadlock", "deadlock", "all threads blocked:"+desc)
}

// threadExit hands control to another thread when a non-main thread finishes.
func (m *Machine) threadExit(t *Thread) {
	defer func() {
		if r := recover(); r != nil {
			if pe, ok := r.(pathEnd); ok {
				m.signalEnd(pe)
			} else if _, ok := r.(abortSentinel); !ok {
				m.signalEnd(pathEnd{Kind: "unsupported", Msg: fmt.Sprint("engine bug in threadExit: ", r)})
			}
		}
	}()
	var cand []*Thread
	for {
		for _, o := range m.threads {
			if o != t && m.enabled(o) {
				cand = append(cand, o)
			}
		}
		if len(cand) > 0 || !m.fireOnIdle() {
			break
		}
	}
	if len(cand) == 0 {
		m.deadlock(t)
	}
	k := m.chooseEnum(len(cand))
	m.cur = cand[k]
	cand[k].blocked = nil
	cand[k].wake <- struct{}{}
}

func (m *Machine) spawn(parent *Thread, fn Value, args []Value, site ssa.Instruction) {
	t := m.newThread()
	// happens-before: child inherits parent's clock
	m.vcJoin(t, parent.vc)
	m.vcTick(parent)
	m.wg.Add(1)
	go m.threadMain(t, func() {
		m.callFn(t, fn, args, site)
	})
	t.started = true
	m.yield(parent)
}

// ---- vector clocks ----------------------------------------------------------

func (m *Machine) vcTick(t *Thread) {
	for len(t.vc) <= t.id {
		t.vc = append(t.vc, 0)
	}
	t.vc[t.id]++
}

func (m *Machine) vcJoin(t *Thread, o []int) {
	for len(t.vc) < len(o) {
		t.vc = append(t.vc, 0)
	}
	for i, c := range o {
		if c > t.vc[i] {
			t.vc[i] = c
		}
	}
}

func vcCopy(v []int) []int { return append([]int(nil), v...) }

func vcLeq(a access, vc []int) bool {
	return a.tid < len(vc) && a.clk <= vc[a.tid]
}

// raceAccess is called on every load/store; it checks objects in the race scope.
func (m *Machine) raceAccess(p *Ptr, write bool) {
	if !m.raceOn || p.Obj == nil || p.Obj.Race == nil || m.cur == nil {
		return
	}
	th := m.cur
	key := fmt.Sprint(p.Path)
	ri := p.Obj.Race
	at := ""
	if th.top != nil {
		at = th.top.where()
	}
	me := access{tid: th.id, clk: th.vc[th.id], at: at}
	conflict := func(a access) bool {
		return a.tid != th.id && !vcLeq(a, th.vc)
	}
	// overlapping cells: a path that is a prefix of the other
	for k, w := range ri.w {
		if overlaps(k, key) && conflict(w) {
			m.violation("race", "data-race", fmt.Sprintf("%s: write at %s / access at %s", p.Obj.Label, w.at, at))
		}
	}
	if write {
		for k, rs := range ri.rd {
			if !overlaps(k, key) {
				continue
			}
			for _, r := range rs {
				if conflict(r) {
					m.violation("race", "data-race", fmt.Sprintf("%s: read at %s / write at %s", p.Obj.Label, r.at, at))
				}
			}
		}
		ri.w[key] = me
		delete(ri.rd, key)
	} else {
		rs := ri.rd[key]
		n := rs[:0]
		for _, r := range rs {
			if r.tid != th.id {
				n = append(n, r)
			}
		}
		ri.rd[key] = append(n, me)
	}
}

func overlaps(a, b string) bool {
	// keys are fmt.Sprint([]int): "[1 2]"; prefix relation on the element lists
	ta, tb := a[1:len(a)-1], b[1:len(b)-1]
	if len(ta) > len(tb) {
		ta, tb = tb, ta
	}
	if ta == "" {
		return true
	}
	return tb == ta || (len(tb) > len(ta) && tb[:len(ta)] == ta && tb[len(ta)] == ' ')
}

// ---- sync objects --------------------------------------------------------------

type mutexState struct {
	locked  bool
	readers int
	writersWaiting int
	vc      []int
	// WaitGroup
	count int
	// Once
	doneOnce bool
	running  bool
}

func (m *Machine) syncState(p *Ptr) *mutexState {
	// key by object + path
	key := p.Obj
	if len(p.Path) > 0 {
		// derive a stable sub-object key
		k := fmt.Sprint(p.Obj.ID, p.Path)
		o, ok := m.subKeys[k]
		if !ok {
			o = &Obj{ID: -1}
			if m.subKeys == nil {
				m.subKeys = map[string]*Obj{}
			}
			m.subKeys[k] = o
		}
		key = o
	}
	s := m.mutexes[key]
	if s == nil {
		s = &mutexState{}
		m.mutexes[key] = s
	}
	return s
}

func (m *Machine) acquireHB(th *Thread, s *mutexState) {
	m.vcJoin(th, s.vc)
}

func (m *Machine) releaseHB(th *Thread, s *mutexState) {
	// the release carries the clock of everything done so far; what the thread does AFTER the
	// release gets a later clock (tick after the copy), so that it is not taken for ordered
	defer m.vcTick(th)
	for len(th.vc) <= th.id {
		th.vc = append(th.vc, 0)
	}
	nv := vcCopy(th.vc)
	// keep the max (for RWMutex readers releasing)
	for i, c := range s.vc {
		if i < len(nv) && c > nv[i] {
			nv[i] = c
		} else if i >= len(nv) {
			nv = append(nv, c)
		}
	}
	s.vc = nv
}

func (m *Machine) mutexLock(th *Thread, p *Ptr) {
	if p.Obj == nil {
		m.goPanic("runtime error: invalid memory address or nil pointer dereference")
	}
	s := m.syncState(p)
	m.yield(th)
	free := func() bool { return !s.locked && s.readers == 0 }
	if !free() {
		// sync.RWMutex: a blocked Lock call excludes new readers from acquiring the lock
		// (writer preference) - a goroutine that read-locks recursively while a writer
		// waits deadlocks, exactly as the documentation of RWMutex warns
		s.writersWaiting++
		m.block(th, "mutex.Lock", free)
		s.writersWaiting--
	}
	s.locked = true
	m.acquireHB(th, s)
}

func (m *Machine) mutexTryLock(th *Thread, p *Ptr) bool {
	s := m.syncState(p)
	m.yield(th)
	if s.locked || s.readers > 0 {
		return false
	}
	s.locked = true
	m.acquireHB(th, s)
	return true
}

func (m *Machine) mutexUnlock(th *Thread, p *Ptr) {
	s := m.syncState(p)
	if !s.locked {
		m.violation("panic", "fatal-error", "sync: unlock of unlocked mutex")
	}
	m.releaseHB(th, s)
	s.locked = false
}

func (m *Machine) rwRLock(th *Thread, p *Ptr) {
	s := m.syncState(p)
	m.yield(th)
	m.block(th, "rwmutex.RLock", func() bool { return !s.locked && s.writersWaiting == 0 })
	s.readers++
	m.acquireHB(th, s)
}

func (m *Machine) rwRUnlock(th *Thread, p *Ptr) {
	s := m.syncState(p)
	if s.readers <= 0 {
		m.violation("panic", "fatal-error", "sync: RUnlock of unlocked RWMutex")
	}
	m.releaseHB(th, s)
	s.readers--
}

// ---- channels --------------------------------------------------------------

type sendItem struct {
	v      Value
	taken  bool
	nowait bool
	vc     []int
}

type ChanV struct {
	id          int
	cap         int
	buf         []sendItem
	sendq       []*sendItem
	closed      bool
	recvWaiting int
	closeVC     []int
	et          types.Type
}

func (m *Machine) newChan(n int, t types.Type) *ChanV {
	m.objSeq++
	return &ChanV{id: m.objSeq, cap: n, et: t.Underlying().(*types.Chan).Elem()}
}

func (c *ChanV) recvReady() bool { return len(c.buf) > 0 || len(c.sendq) > 0 || c.closed }
func (c *ChanV) sendReady() bool {
	if c.closed {
		return true // will panic
	}
	if c.cap > 0 {
		return len(c.buf) < c.cap
	}
	return c.recvWaiting > 0
}

func (m *Machine) chanSend(th *Thread, c *ChanV, v Value) {
	if c == nil {
		m.block(th, "send on nil chan", func() bool { return false })
	}
	m.yield(th)
	for len(th.vc) <= th.id {
		th.vc = append(th.vc, 0)
	}
	if c.cap > 0 {
		m.block(th, "chan send", func() bool { return c.closed || len(c.buf) < c.cap })
		if c.closed {
			m.goPanic("send on closed channel")
		}
		c.buf = append(c.buf, sendItem{v: copyVal(v), vc: vcCopy(th.vc)})
		m.vcTick(th)
		return
	}
	if c.closed {
		m.goPanic("send on closed channel")
	}
	it := &sendItem{v: copyVal(v), vc: vcCopy(th.vc)}
	m.vcTick(th)
	c.sendq = append(c.sendq, it)
	m.block(th, "chan send (unbuffered)", func() bool { return it.taken || c.closed })
	if !it.taken {
		m.goPanic("send on closed channel")
	}
}

func (m *Machine) takeFrom(th *Thread, c *ChanV) (Value, bool) {
	if len(c.buf) > 0 {
		it := c.buf[0]
		c.buf = append([]sendItem(nil), c.buf[1:]...)
		m.vcJoin(th, it.vc)
		return it.v, true
	}
	if len(c.sendq) > 0 {
		it := c.sendq[0]
		c.sendq = c.sendq[1:]
		it.taken = true
		m.vcJoin(th, it.vc)
		return it.v, true
	}
	// closed
	m.vcJoin(th, c.closeVC)
	return m.zero(c.et), false
}

func (m *Machine) chanRecv(th *Thread, c *ChanV) (Value, bool) {
	if c == nil {
		m.block(th, "recv on nil chan", func() bool { return false })
	}
	m.yield(th)
	if !c.recvReady() {
		c.recvWaiting++
		m.block(th, "chan recv", c.recvReady)
		c.recvWaiting--
	}
	return m.takeFrom(th, c)
}

func (m *Machine) chanClose(th *Thread, c *ChanV) {
	if c == nil {
		m.goPanic("close of nil channel")
	}
	m.yield(th)
	if c.closed {
		m.goPanic("close of closed channel")
	}
	for len(th.vc) <= th.id {
		th.vc = append(th.vc, 0)
	}
	c.closed = true
	c.closeVC = vcCopy(th.vc)
	m.vcTick(th)
}

func (m *Machine) selectOp(fr *Frame, instr *ssa.Select) Value {
	th := fr.th
	type cs struct {
		c    *ChanV
		send bool
		v    Value
	}
	var cases []cs
	for _, st := range instr.States {
		c, _ := fr.get(st.Chan).(*ChanV)
		x := cs{c: c, send: st.Dir == types.SendOnly}
		if x.send {
			x.v = fr.get(st.Send)
		}
		cases = append(cases, x)
	}
	m.yield(th)
	ready := func() []int {
		var r []int
		for i, c := range cases {
			if c.c == nil {
				continue
			}
			if c.send && c.c.sendReady() {
				r = append(r, i)
			}
			if !c.send && c.c.recvReady() {
				r = append(r, i)
			}
		}
		return r
	}
	rd := ready()
	if len(rd) == 0 {
		if !instr.Blocking {
			return m.selectResult(instr, -1, nil, false)
		}
		for _, c := range cases {
			if c.c != nil && !c.send {
				c.c.recvWaiting++
			}
		}
		m.block(th, "select", func() bool { return len(ready()) > 0 })
		for _, c := range cases {
			if c.c != nil && !c.send {
				c.c.recvWaiting--
			}
		}
		rd = ready()
	}
	k := rd[0]
	if len(rd) > 1 {
		k = rd[m.chooseEnum(len(rd))]
	}
	c := cases[k]
	if c.send {
		if c.c.closed {
			m.goPanic("send on closed channel")
		}
		for len(th.vc) <= th.id {
			th.vc = append(th.vc, 0)
		}
		if c.c.cap > 0 {
			c.c.buf = append(c.c.buf, sendItem{v: copyVal(c.v), vc: vcCopy(th.vc)})
		} else {
			c.c.sendq = append(c.c.sendq, &sendItem{v: copyVal(c.v), nowait: true, vc: vcCopy(th.vc)})
		}
		m.vcTick(th)
		return m.selectResult(instr, k, nil, false)
	}
	v, ok := m.takeFrom(th, c.c)
	return m.selectResult(instr, k, v, ok)
}

func (m *Machine) selectResult(instr *ssa.Select, chosen int, recv Value, recvOk bool) Value {
	r := TupleV{m.tt.Const(64, uint64(int64(chosen))), m.tt.Bool(recvOk)}
	for i, st := range instr.States {
		if st.Dir == types.RecvOnly {
			var v Value
			if i == chosen && recvOk {
				v = recv
			} else {
				v = m.zero(st.Chan.Type().Underlying().(*types.Chan).Elem())
			}
			r = append(r, v)
		}
	}
	return r
}

// panicLabel: "uncaught-panic: <first line of the message>" (digits kept, stack dropped)
func panicLabel(msg string) string {
	line := msg
	for i := 0; i < len(line); i++ {
		if line[i] == '\n' {
			line = line[:i]
			break
		}
	}
	if len(line) > 90 {
		line = line[:90]
	}
	return "uncaught-panic: " + line
}
