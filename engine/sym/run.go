package sym

import (
	"fmt"
	"os"
	"regexp"
	"runtime"
	"sort"
	"strings"
	"sync"
	"time"

	"golang.org/x/tools/go/ssa"
)

// HarnessResult aggregates the exploration of one harness.
type HarnessResult struct {
	Name         string            `json:"name"`
	Doc          string            `json:"doc,omitempty"`
	Bounds       map[string]int    `json:"bounds"`
	Paths        int               `json:"paths"`
	PathsDone    int               `json:"paths_done"`
	PathsAssume  int               `json:"paths_pruned_by_assumption"`
	Decisions    int               `json:"decision_points"`
	Steps        int64             `json:"ssa_instructions_executed"`
	Queries      int               `json:"solver_queries"`
	Sat          int               `json:"sat"`
	Unsat        int               `json:"unsat"`
	Unknown      int               `json:"unknown"`
	SolverS      float64           `json:"solver_s"`
	WallS        float64           `json:"wall_s"`
	AssertSites  map[string]int    `json:"assert_labels_checked"`
	Covers       map[string]int    `json:"cover_points_hit"`
	MissedCovers []string          `json:"cover_points_missed"`
	Violations   []*Violation      `json:"violations"`
	Inconclusive []string          `json:"inconclusive"`
	Functions    []string          `json:"functions_encoded"`
	Samples      []map[string]uint64 `json:"samples,omitempty"`
	Solver       string            `json:"solver"`
	MaxPreempt   int               `json:"max_preemptions"`
	Verdict      string            `json:"verdict"` // pass, violation, inconclusive
}

// RunOpts are the options of one exploration.
type RunOpts struct {
	Tier      string
	Workers   int
	Solver    string
	TimeoutMs int
	MaxPaths  int
	Deadline  time.Time
	Seed      int64
	Verbose   bool
	LogSMT    string
}

func (P *Program) newMachine(h *HarnessSpec, opts RunOpts, solverKind string) (*Machine, error) {
	fn, err := P.findFunc(h.Pkg + "." + h.Name)
	if err != nil {
		return nil, err
	}
	m := &Machine{P: P, tt: NewTerms(), harness: h.Name, entry: fn, bounds: map[string]int{}}
	for k, v := range h.Bounds[opts.Tier] {
		m.bounds[k] = v
	}
	return m, nil
}

func (P *Program) configFor(h *HarnessSpec, tier string) Config {
	c := Config{MaxDecisions: 3000, MaxSteps: 5_000_000, MaxCallDepth: 3000, MaxSlice: 64, MaxStr: 24,
		MaxPreempt: 2, MapOrderAny: h.MapOrderAny, DeadlockOK: h.DeadlockOK, VirtualAfterFunc: h.VirtualAfterFunc, NoopPkgs: P.Suite.NoopPackages}
	if v, ok := h.MaxPreempt[tier]; ok {
		c.MaxPreempt = v
	}
	if h.MaxStr > 0 {
		c.MaxStr = h.MaxStr
	}
	return c
}

// Explore runs the bounded exhaustive exploration of one harness.
func (P *Program) Explore(h *HarnessSpec, opts RunOpts) *HarnessResult {
	start := time.Now()
	P.Cfg = P.configFor(h, opts.Tier)
	replErr := P.SetReplacements(h.Replace)
	res := &HarnessResult{Name: h.Name, Doc: h.Doc, AssertSites: map[string]int{}, Covers: map[string]int{},
		Bounds: h.Bounds[opts.Tier], MaxPreempt: P.Cfg.MaxPreempt}
	solverKind := opts.Solver
	if h.Solver != "" {
		solverKind = h.Solver
	}
	res.Solver = solverKind
	maxPaths := opts.MaxPaths
	if h.MaxPaths > 0 {
		maxPaths = h.MaxPaths
	}

	if replErr != nil {
		res.Verdict = "inconclusive"
		res.Inconclusive = []string{"setup: " + replErr.Error()}
		return res
	}
	var mu sync.Mutex
	cond := sync.NewCond(&mu)
	work := [][]Dec{{}}
	active := 0
	stop := false
	funcs := map[*ssa.Function]bool{}
	inconc := map[string]bool{}
	violKeys := map[string]bool{}

	worker := func(id int) {
		m, err := P.newMachine(h, opts, solverKind)
		if err != nil {
			mu.Lock()
			msg := "setup: " + err.Error()
			for f, e := range P.DroppedOverlays {
				msg += "; harness file " + f + " does not compile against this tree: " + e
			}
			inconc[msg] = true
			stop = true
			cond.Broadcast()
			mu.Unlock()
			return
		}
		var logw *os.File
		if opts.LogSMT != "" && id == 0 {
			logw, _ = os.Create(opts.LogSMT)
			defer logw.Close()
		}
		newSolver := func() *Solver {
			var s *Solver
			var err error
			if logw != nil {
				s, err = NewSolver(solverKind, opts.TimeoutMs, logw)
			} else {
				s, err = NewSolver(solverKind, opts.TimeoutMs, nil)
			}
			if err != nil {
				mu.Lock()
				inconc["solver start: "+err.Error()] = true
				stop = true
				cond.Broadcast()
				mu.Unlock()
				return nil
			}
			return s
		}
		m.sol = newSolver()
		if m.sol == nil {
			return
		}
		m.wantSample = id == 0
		defer func() {
			m.sol.Close()
		}()
		sinceReset := 0
		accumulate := func() {
			res.Queries += m.sol.Queries
			res.Sat += m.sol.Sat
			res.Unsat += m.sol.Unsat
			res.Unknown += m.sol.Unknown + m.sol.Errors
			res.SolverS += m.sol.Time.Seconds()
		}
		for {
			mu.Lock()
			for len(work) == 0 && active > 0 && !stop {
				cond.Wait()
			}
			if stop || (len(work) == 0 && active == 0) {
				accumulate()
				for f := range m.funcs {
					funcs[f] = true
				}
				cond.Broadcast()
				mu.Unlock()
				return
			}
			prefix := work[len(work)-1]
			work = work[:len(work)-1]
			active++
			mu.Unlock()

			pr := m.RunPath(prefix)
			sinceReset++
			if m.sol.dead || sinceReset > 1500 || m.tt.next > 3_000_000 {
				// restart the solver and the term table to bound memory
				mu.Lock()
				accumulate()
				mu.Unlock()
				m.sol.Close()
				m.tt = NewTerms()
				m.sol = newSolver()
				sinceReset = 0
				if m.sol == nil {
					return
				}
			}

			mu.Lock()
			active--
			res.Paths++
			res.Decisions += pr.Decisions
			res.Steps += int64(pr.Steps)
			for l, n := range pr.Asserts {
				res.AssertSites[l] += n
			}
			for _, c := range pr.Covers {
				res.Covers[c]++
			}
			for _, v := range pr.Soft {
				key := v.Kind + "|" + v.Label
				if !violKeys[key] {
					violKeys[key] = true
					res.Violations = append(res.Violations, v)
				}
			}
			switch pr.Kind {
			case "done":
				res.PathsDone++
				if pr.Sample != nil && len(res.Samples) < 3 {
					res.Samples = append(res.Samples, pr.Sample)
				}
			case "assume":
				res.PathsAssume++
			case "violation":
				v := pr.Violation
				if v != nil {
					key := v.Kind + "|" + v.Label
					if !violKeys[key] || len(res.Violations) < 5 {
						if !violKeys[key] {
							res.Violations = append(res.Violations, v)
						}
						violKeys[key] = true
					}
				}
			default:
				msg := pr.Kind + ": " + pr.Msg
				if len(inconc) < 20 {
					inconc[msg] = true
				}
			}
			work = append(work, pr.NewWork...)
			if !stop && maxPaths > 0 && res.Paths >= maxPaths && (len(work) > 0 || active > 0) {
				inconc[fmt.Sprintf("path budget %d exhausted with %d prefixes pending", maxPaths, len(work))] = true
				stop = true
			}
			if !stop && !opts.Deadline.IsZero() && time.Now().After(opts.Deadline) && (len(work) > 0 || active > 0) {
				inconc[fmt.Sprintf("time budget exhausted with %d prefixes pending", len(work))] = true
				stop = true
			}
			if opts.Verbose && res.Paths%500 == 0 {
				fmt.Fprintf(os.Stderr, "  [%s] paths=%d pending=%d active=%d queries~%d\n", h.Name, res.Paths, len(work), active, res.Queries)
			}
			cond.Broadcast()
			mu.Unlock()
		}
	}
	nw := opts.Workers
	if nw <= 0 {
		nw = runtime.NumCPU()
	}
	var wg sync.WaitGroup
	for i := 0; i < nw; i++ {
		wg.Add(1)
		go func(i int) {
			defer wg.Done()
			worker(i)
		}(i)
	}
	wg.Wait()

	for f := range funcs {
		res.Functions = append(res.Functions, shortFn(f))
	}
	sort.Strings(res.Functions)
	for _, c := range h.Covers {
		if res.Covers[c] == 0 {
			res.MissedCovers = append(res.MissedCovers, c)
		}
	}
	for k := range inconc {
		res.Inconclusive = append(res.Inconclusive, k)
	}
	sort.Strings(res.Inconclusive)
	// replay violations concretely
	for _, v := range res.Violations {
		P.ConcreteReplay(h, opts, v)
	}
	res.WallS = time.Since(start).Seconds()
	switch {
	case len(res.Violations) > 0:
		res.Verdict = "violation"
		for _, v := range res.Violations {
			if v.Confirmed["engine_concrete"] != "yes" {
				res.Verdict = "inconclusive"
				res.Inconclusive = append(res.Inconclusive, "counterexample for "+v.Label+" did not reproduce in concrete mode: "+v.Confirmed["engine_concrete"])
			}
		}
	case len(res.Inconclusive) > 0:
		res.Verdict = "inconclusive"
	case len(res.MissedCovers) > 0:
		res.Verdict = "inconclusive"
		res.Inconclusive = append(res.Inconclusive, "cover points not reached (vacuity guard): "+strings.Join(res.MissedCovers, ", "))
	case res.PathsDone == 0:
		res.Verdict = "inconclusive"
		res.Inconclusive = append(res.Inconclusive, "no path reached the end of the harness (vacuous)")
	default:
		res.Verdict = "pass"
	}
	return res
}

var indexRE = regexp.MustCompile(`\[-?\d+\]`)

// normIndex makes panic messages of the symbolic and the concrete run comparable: an index
// that is symbolic on the explored path is a number in the replay.
func normIndex(s string) string { return indexRE.ReplaceAllString(s, "[symbolic]") }

// Replay sets up the harness configuration and re-executes a recorded counterexample.
func (P *Program) Replay(h *HarnessSpec, opts RunOpts, v *Violation) string {
	P.Cfg = P.configFor(h, opts.Tier)
	if err := P.SetReplacements(h.Replace); err != nil {
		return "setup: " + err.Error()
	}
	P.ConcreteReplay(h, opts, v)
	return v.Confirmed["engine_concrete"]
}

// ConcreteReplay re-executes the harness with the model values fixed.
func (P *Program) ConcreteReplay(h *HarnessSpec, opts RunOpts, v *Violation) {
	m, err := P.newMachine(h, opts, "")
	if err != nil {
		v.Confirmed["engine_concrete"] = "setup failed: " + err.Error()
		return
	}
	m.concrete = map[string]uint64{}
	for _, in := range v.Inputs {
		m.concrete[in.Name] = in.Value
	}
	// enumerated choices come from the decision list in order
	var pre []Dec
	for _, d := range v.EnumChoices {
		pre = append(pre, Dec{C: d})
	}
	pr := m.RunPath(pre)
	if pr.Kind == "violation" && strings.HasPrefix(normIndex(pr.Msg), normIndex(v.Kind+":"+v.Label+":")) {
		v.Confirmed["engine_concrete"] = "yes"
	} else {
		v.Confirmed["engine_concrete"] = "no: concrete run ended with " + pr.Kind + " " + pr.Msg
	}
}
