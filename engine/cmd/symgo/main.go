// Command symgo symbolically executes harness functions over the Go SSA of /repo.
package main

import (
	"crypto/sha256"
	"encoding/json"
	"flag"
	"fmt"
	"os"
	"os/exec"
	"path/filepath"
	"sort"
	"strconv"
	"strings"
	"time"

	"symgo/sym"
)

func main() {
	repo := flag.String("repo", "/repo", "repository working tree")
	verif := flag.String("verif", "/verif", "verification directory")
	suiteF := flag.String("suite", "", "harness.json")
	tier := flag.String("tier", "quick", "quick|thorough")
	only := flag.String("only", "", "run only this harness (comma separated)")
	workers := flag.Int("workers", 0, "worker count (0 = NumCPU)")
	solver := flag.String("solver", "z3-new", "z3-new|z3|cvc5|cvc5-int")
	timeout := flag.Int("timeout-ms", 120000, "per-query solver timeout")
	maxPaths := flag.Int("max-paths", 400000, "path budget per harness")
	budget := flag.Duration("budget", 0, "wall-clock budget per harness (0 = none)")
	verbose := flag.Bool("v", false, "verbose")
	logsmt := flag.String("log-smt", "", "write worker 0's SMT-LIB stream to this file")
	evidence := flag.String("evidence", "", "evidence file to write (default evidence/<property>.json)")
	replayF := flag.String("replay", "", "re-execute the counterexample of a replay file against the current tree")
	noEvidence := flag.Bool("no-evidence", false, "do not write evidence")
	flag.Parse()
	currentTier = *tier
	if *replayF != "" {
		os.Exit(runReplay(*repo, *verif, *replayF, *tier))
	}
	if *suiteF == "" {
		fmt.Fprintln(os.Stderr, "usage: symgo -suite harness/<id>/harness.json [-tier quick|thorough]")
		os.Exit(2)
	}
	start := time.Now()
	seed := int64(0)
	if s := os.Getenv("VERIF_SEED"); s != "" {
		seed, _ = strconv.ParseInt(s, 10, 64)
	}
	P, err := sym.Load(*repo, *verif, *suiteF)
	if err != nil {
		fmt.Fprintln(os.Stderr, "INCONCLUSIVE: load failed:", err)
		os.Exit(2)
	}
	loadS := time.Since(start).Seconds()
	prop := P.Suite.Property
	onlySet := map[string]bool{}
	for _, n := range strings.Split(*only, ",") {
		if n != "" {
			onlySet[n] = true
		}
	}
	known := loadKnown(filepath.Join(*verif, "known_findings.json"))
	P.KnownLabels = map[string]bool{}
	for _, f := range known.Findings {
		if f.Status == "known" && f.Property == prop {
			P.KnownLabels[f.Harness+"|"+f.Label] = true
		}
	}
	var results []*sym.HarnessResult
	exit := 0
	for i := range P.Suite.Harnesses {
		h := &P.Suite.Harnesses[i]
		if len(onlySet) > 0 && !onlySet[h.Name] {
			continue
		}
		if len(h.Tiers) > 0 && !contains(h.Tiers, *tier) {
			continue
		}
		opts := sym.RunOpts{Tier: *tier, Workers: *workers, Solver: *solver, TimeoutMs: *timeout, MaxPaths: *maxPaths,
			Seed: seed, Verbose: *verbose, LogSMT: *logsmt}
		if *budget > 0 {
			opts.Deadline = time.Now().Add(*budget)
		}
		r := P.Explore(h, opts)
		if h.Expect == "violation" {
			// self-test harness: a confirmed violation is the expected outcome
			if r.Verdict == "violation" {
				r.Verdict = "pass"
				r.Violations = nil
			} else {
				r.Verdict = "inconclusive"
				r.Inconclusive = append(r.Inconclusive, "expected violation was not found (engine self-test failed)")
			}
		}
		results = append(results, r)
		fmt.Printf("%-34s %-12s paths=%d done=%d pruned=%d queries=%d (unknown=%d) solver=%.1fs wall=%.1fs\n",
			r.Name, r.Verdict, r.Paths, r.PathsDone, r.PathsAssume, r.Queries, r.Unknown, r.SolverS, r.WallS)
		for _, s := range r.Inconclusive {
			if strings.Contains(s, "engine bug") || *verbose {
				fmt.Printf("    inconclusive: %s\n", s)
			} else {
				fmt.Printf("    inconclusive: %s\n", firstLine(s))
			}
		}
	}
	// violations: known findings vs new
	type vout struct {
		V      *sym.Violation
		Replay string
		Known  string
	}
	var vouts []vout
	nViol := 0
	inconclusive := false
	for _, r := range results {
		if r.Verdict == "inconclusive" {
			inconclusive = true
		}
		for _, v := range r.Violations {
			if v.Confirmed["engine_concrete"] != "yes" {
				if *verbose {
					fmt.Printf("    unconfirmed counterexample: %s %s\n%s\n    inputs: %v\n", v.Kind, v.Label, v.Detail, v.Inputs)
				}
				continue
			}
			kid := known.match(prop, r.Name, v.Label)
			path := ""
			if kid == "" {
				nViol++
				path = writeReplay(*verif, prop, r.Name, v, P)
				fmt.Printf("VIOLATION property=%s replay=%s\n", prop, path)
				fmt.Printf("    harness=%s kind=%s label=%s %s\n", r.Name, v.Kind, v.Label, firstLine(v.Detail))
			} else {
				fmt.Printf("KNOWN-FINDING: property=%s %s (harness %s, label %s)\n", prop, known.text(kid), r.Name, v.Label)
			}
			vouts = append(vouts, vout{v, path, kid})
		}
	}
	if nViol > 0 {
		exit = 1
	} else if inconclusive {
		exit = 2
		fmt.Printf("INCONCLUSIVE property=%s (no violation found, but the exploration is incomplete)\n", prop)
	}
	if !*noEvidence {
		ev := buildEvidence(P, prop, *tier, seed, results, time.Since(start).Seconds(), loadS, nViol, *repo)
		out := *evidence
		if out == "" {
			out = filepath.Join(*verif, "evidence", prop+".json")
		}
		os.MkdirAll(filepath.Dir(out), 0o755)
		b, _ := json.MarshalIndent(ev, "", " ")
		if err := os.WriteFile(out, b, 0o644); err != nil {
			fmt.Fprintln(os.Stderr, "cannot write evidence:", err)
			if exit == 0 {
				exit = 2
			}
		}
	}
	os.Exit(exit)
}

func firstLine(s string) string {
	if i := strings.IndexByte(s, '\n'); i >= 0 {
		return s[:i]
	}
	return s
}

func contains(l []string, s string) bool {
	for _, x := range l {
		if x == s {
			return true
		}
	}
	return false
}

// ---- known findings ----------------------------------------------------------

type knownFile struct {
	Findings []struct {
		ID       string `json:"id"`
		Property string `json:"property"`
		Status   string `json:"status"` // known | fixed
		Harness  string `json:"harness"`
		Label    string `json:"label"`
		Prefix   string `json:"label_prefix"` // alternative to label: the violation label starts with this text
		What     string `json:"what"`
	} `json:"findings"`
}

func loadKnown(path string) *knownFile {
	k := &knownFile{}
	b, err := os.ReadFile(path)
	if err == nil {
		json.Unmarshal(b, k)
	}
	return k
}

func (k *knownFile) match(prop, harness, label string) string {
	for _, f := range k.Findings {
		if f.Status == "known" && f.Property == prop && f.Harness == harness &&
			((f.Label != "" && f.Label == label) || (f.Prefix != "" && strings.HasPrefix(label, f.Prefix))) {
			return f.ID
		}
	}
	return ""
}

func (k *knownFile) text(id string) string {
	for _, f := range k.Findings {
		if f.ID == id {
			return f.ID + ": " + f.What
		}
	}
	return id
}

var currentTier = "quick"

func writeReplay(verif, prop, harness string, v *sym.Violation, P *sym.Program) string {
	dir := filepath.Join(verif, "replays", prop)
	os.MkdirAll(dir, 0o755)
	h := sha256.Sum256([]byte(fmt.Sprint(harness, v.Label, v.Inputs, v.EnumChoices)))
	path := filepath.Join(dir, fmt.Sprintf("%s-%x.json", harness, h[:4]))
	rec := map[string]interface{}{
		"property": prop, "harness": harness, "violation": v, "repo_head": gitHead(P.RepoDir), "tier": currentTier,
	}
	b, _ := json.MarshalIndent(rec, "", " ")
	os.WriteFile(path, b, 0o644)
	return path
}

// runReplay re-executes a recorded counterexample concretely (inputs and enumerated choices
// fixed) against the current working tree of the repository and reports whether the same
// violation shows again.
func runReplay(repo, verif, file, tier string) int {
	b, err := os.ReadFile(file)
	if err != nil {
		fmt.Fprintln(os.Stderr, "replay:", err)
		return 2
	}
	var rec struct {
		Property  string         `json:"property"`
		Harness   string         `json:"harness"`
		RepoHead  string         `json:"repo_head"`
		Violation *sym.Violation `json:"violation"`
		Tier      string         `json:"tier"`
	}
	if err := json.Unmarshal(b, &rec); err != nil || rec.Violation == nil {
		fmt.Fprintln(os.Stderr, "replay: cannot parse", file, err)
		return 2
	}
	// the suite that owns the harness: the property's own suite, or any suite listing it
	suite := filepath.Join(verif, "harness", rec.Property, "harness.json")
	P, err := sym.Load(repo, verif, suite)
	if err != nil {
		fmt.Fprintln(os.Stderr, "INCONCLUSIVE: load failed:", err)
		return 2
	}
	for i := range P.Suite.Harnesses {
		h := &P.Suite.Harnesses[i]
		if h.Name != rec.Harness {
			continue
		}
		v := rec.Violation
		v.Confirmed = map[string]string{}
		if rec.Tier != "" {
			tier = rec.Tier
		}
		out := P.Replay(h, sym.RunOpts{Tier: tier}, v)
		fmt.Printf("replay of %s (%s, recorded at %s) on %s\n", rec.Harness, v.Label, rec.RepoHead, gitHead(repo))
		for _, in := range v.Inputs {
			fmt.Printf("  %s = %d\n", in.Name, in.Value)
		}
		fmt.Println("  outcome:", out)
		if v.Confirmed["engine_concrete"] == "yes" {
			fmt.Printf("VIOLATION property=%s replay=%s\n", rec.Property, file)
			return 1
		}
		fmt.Println("the recorded violation does not show on this tree")
		return 0
	}
	fmt.Fprintln(os.Stderr, "replay: harness", rec.Harness, "not found in", suite)
	return 2
}

func gitHead(repo string) string {
	out, err := exec.Command("git", "-C", repo, "rev-parse", "HEAD").Output()
	if err != nil {
		return ""
	}
	return strings.TrimSpace(string(out))
}

// ---- evidence ------------------------------------------------------------------

func buildEvidence(P *sym.Program, prop, tier string, seed int64, results []*sym.HarnessResult, wall, loadS float64, nViol int, repo string) map[string]interface{} {
	paths, done, trans, queries, unsat, sat, unknown := 0, 0, 0, 0, 0, 0, 0
	solverS := 0.0
	funcs := map[string]bool{}
	var samples []interface{}
	var perHarness []interface{}
	obligations := 0
	for _, r := range results {
		paths += r.Paths
		done += r.PathsDone
		trans += r.Decisions
		queries += r.Queries
		unsat += r.Unsat
		sat += r.Sat
		unknown += r.Unknown
		solverS += r.SolverS
		for _, f := range r.Functions {
			funcs[f] = true
		}
		for _, n := range r.AssertSites {
			obligations += n
		}
		for _, s := range r.Samples {
			samples = append(samples, map[string]interface{}{"harness": r.Name, "path_model": s})
		}
		perHarness = append(perHarness, r)
	}
	if len(samples) == 0 {
		samples = append(samples, map[string]interface{}{"note": "no completed path produced a sample model"})
	}
	var fl []string
	for f := range funcs {
		fl = append(fl, f)
	}
	sort.Strings(fl)
	nontrivial := done
	ev := map[string]interface{}{
		"property_id": prop,
		"tier":        tier,
		"seed":        seed,
		"level":       "model_checking",
		"wall_s":      wall,
		"violations":  nViol,
		"assumptions": append(append([]string{}, P.Suite.Assumptions...), P.Suite.Stubs...),
		"coverage": map[string]interface{}{
			"states":                        max1(paths),
			"transitions":                   max1(trans),
			"traces_validated_against_impl": done,
			"samples":                       samples,
			"evaluations":                   max1(paths),
			"distinct_nontrivial":           nontrivial,
			"rule":                          "each evaluation is one symbolic path of the real SSA (a distinct sequence of branch/choice decisions, each confirmed feasible by the solver); a path is non-trivial when it reaches the end of the harness with every assertion query unsat; paths cut by an unsatisfiable assumption are not counted",
			"exhaustive":                    true,
			"explanation":                   "bounded symbolic execution of the real Go SSA (regenerated from /repo on this run); every assertion is an SMT query pc AND NOT(property) that must be unsat on every feasible path",
			"functions_encoded":             fl,
			"solver_queries":                queries,
			"queries_unsat":                 unsat,
			"queries_sat":                   sat,
			"queries_unknown":               unknown,
			"assertion_obligations":         obligations,
			"solver_time_s":                 solverS,
			"load_and_ssa_build_s":          loadS,
			"harnesses":                     perHarness,
			"repo_head":                     gitHead(repo),
		},
	}
	return ev
}

func max1(n int) int {
	if n < 1 {
		return 1
	}
	return n
}
