#!/usr/bin/env python3
"""tools_saveseed.py PROP N "caught by ..." : copy a confirmed seeded change into /verif/seeded/<PROP>-<N>/"""
import json, shutil, sys, os
prop, n, caught = sys.argv[1], sys.argv[2], sys.argv[3]
src = f"/tmp/seed_{prop}_out/{n}"
dst = f"/verif/seeded/{prop}-{n}"
os.makedirs(dst, exist_ok=True)
shutil.copy(f"{src}/patch.diff", f"{dst}/patch.diff")
shutil.copy(f"{src}/demo_test.go", f"{dst}/demo_test.go.txt")
meta = json.load(open(f"{src}/meta.json"))
meta["confirmed_by_me"] = "applied in scratch worktree: existing tests of the touched packages pass, demo test fails; reverted: demo passes (tools_seed.sh)"
meta["check_result"] = caught
json.dump(meta, open(f"{dst}/meta.json", "w"), indent=1)
print("saved", dst)
