#!/bin/bash
# runs every claimed check's quick command sequentially (writes evidence files)
cd /verif
./check selftest > /tmp/check_selftest.log 2>&1; echo "selftest exit=$?"
for id in $(python3 -c "import json;print(' '.join(c['property_id'] for c in json.load(open('MANIFEST.json'))['checks']))"); do
  s=$(date +%s); ./check $id quick > /tmp/check_$id.log 2>&1; rc=$?; e=$(date +%s)
  echo "$id exit=$rc $((e-s))s $(grep -c VIOLATION /tmp/check_$id.log) violations $(grep -c KNOWN-FINDING /tmp/check_$id.log) known"
done
