package mqttproxy

// ---------------------------------------------------------------------------
// C14 harnesses, package mqttproxy.
//   lemma 1: splitTopic over symbolic topic strings (validity + levels)
//   lemma 2: the subscription trie (subscribe / unsubscribe / findSubscribers /
//            insert / remove) over filters given as level sequences; getLevels is
//            replaced by a table lookup (its contract = lemma 1 + memoisation).
// The reference matcher is MQTT 3.1.1 section 4.7 written from the statement.
// ---------------------------------------------------------------------------

// vRefSplit: split on '/', valid iff every '+' or '#' occupies a whole level and '#' is last.
func vRefSplit(topic string) ([]string, bool) {
	var levels []string
	start := 0
	valid := true
	for i := 0; i <= len(topic); i++ {
		if i == len(topic) || topic[i] == '/' {
			level := topic[start:i]
			wild := false
			for k := 0; k < len(level); k++ {
				if level[k] == '+' || level[k] == '#' {
					wild = true
				}
				if level[k] == '#' && start+k != len(topic)-1 {
					valid = false
				}
			}
			if wild && len(level) != 1 {
				valid = false
			}
			levels = append(levels, level)
			start = i + 1
		}
	}
	return levels, valid
}

func verifC14_Split() {
	topic := verifString("topic", verifBound("maxTopic"))
	levels, ok := splitTopic(topic)
	want, wantOK := vRefSplit(topic)
	verifAssert(ok == wantOK, "malformed-filters-rejected-wellformed-accepted")
	if ok && wantOK {
		verifAssert(len(levels) == len(want), "number-of-levels")
		for i := range want {
			if i < len(levels) {
				verifAssert(levels[i] == want[i], "level-content")
			}
		}
		verifCover("valid")
		if len(want) > 1 {
			verifCover("several-levels")
		}
	} else if !wantOK {
		verifCover("invalid")
	}
}

// ---- lemma 2 -------------------------------------------------------------------

var vLevels = map[string][]string{}

func vGetLevels(t *topicLevelManager, topic string) ([]string, error) {
	return vLevels[topic], nil
}

// vLevel: one filter level: empty, a literal (one byte of the small alphabet), '+' or '#'.
// Topic names: the "other" literal is b at the first level and $ below it (a level that
// begins with '$' is ordinary text there; at the FIRST level MQTT-4.7.2-1 forbids wildcard
// matches, which the statement's rules do not mention: not explored either way).
func vLevel(label string, wildcards bool, first bool) string {
	s := verifString(label, 1)
	if wildcards {
		verifAssume(s == "" || s == "a" || s == "+" || s == "#")
	} else if first {
		verifAssume(s == "" || s == "a" || s == "b")
	} else {
		verifAssume(s == "" || s == "a" || s == "$")
	}
	return s
}

func vFilter(label string, maxLevels int, wildcards bool) []string {
	n := verifChoose(label+".levels", maxLevels) + 1
	levels := make([]string, n)
	for i := 0; i < n; i++ {
		levels[i] = vLevel(label+".level", wildcards, i == 0)
		if i < n-1 {
			verifAssume(levels[i] != "#") // '#' only as the last level (well-formed, lemma 1)
		}
	}
	return levels
}

func vSameLevels(a, b []string) bool {
	if len(a) != len(b) {
		return false
	}
	for i := range a {
		if a[i] != b[i] {
			return false
		}
	}
	return true
}

// vRefMatch: MQTT 3.1.1 matching of a filter against a topic name.
func vRefMatch(filter, topic []string) bool {
	for i, f := range filter {
		if f == "#" {
			return true // the remaining levels, including the parent level
		}
		if i >= len(topic) {
			return false
		}
		if f != "+" && f != topic[i] {
			return false
		}
	}
	return len(filter) == len(topic)
}

type vSub struct {
	client int
	filter int
	qos    byte
	live   bool
}

func verifC14_Trie() {
	maxLevels := verifBound("maxLevels")
	nf := verifBound("filters")
	names := []string{"f0", "f1", "f2"}
	clients := []string{"c0", "c1", "c2"}
	nc := verifBound("clients")
	var filters [3][]string
	for i := 0; i < nf; i++ {
		filters[i] = vFilter("filter", maxLevels, true)
		vLevels[names[i]] = filters[i]
		for j := 0; j < i; j++ {
			verifAssume(!vSameLevels(filters[i], filters[j])) // distinct filter strings
		}
	}
	mgr := &TopicManager{root: newNode(), levelMgr: &topicLevelManager{}}
	var subs [3][3]vSub // [client][filter]

	pattern := verifBound("pattern") // 0: any operations; 1: subscribe, subscribe, then unsubscribe or disconnect
	for step := 0; step < verifBound("operations"); step++ {
		c := verifChoose("op.client", nc)
		kind := 0
		if pattern == 0 {
			kind = verifChoose("op.kind", 3)
		} else if step >= 2 {
			kind = 1 + verifChoose("op.kind", 2)
		}
		switch kind {
		case 0:
			f := verifChoose("op.filter", nf)
			q := byte(verifInt("op.qos", 0, 1))
			mgr.subscribe([]string{names[f]}, []byte{q}, clients[c])
			subs[c][f] = vSub{c, f, q, true}
		case 1:
			// an UNSUBSCRIBE packet with one or two filters, each possibly never subscribed
			f := verifChoose("op.filter", nf)
			topics := []string{names[f]}
			subs[c][f].live = false
			if verifBool("op.unsubscribeTwoFilters") {
				f2 := verifChoose("op.filter", nf)
				topics = append(topics, names[f2])
				subs[c][f2].live = false
				verifCover("multi-filter-unsubscribe")
			}
			mgr.unsubscribe(topics, clients[c])
		case 2: // disconnect: every filter of the session is unsubscribed
			var topics []string
			for f := 0; f < nf; f++ {
				if subs[c][f].live {
					topics = append(topics, names[f])
					subs[c][f].live = false
				}
			}
			mgr.unsubscribe(topics, clients[c])
		}
	}

	topic := vFilter("topic", maxLevels, false)
	vLevels["t"] = topic
	got, err := mgr.findSubscribers("t")
	verifAssert(err == nil, "find-succeeds")
	anyLive := false
	for c := 0; c < nc; c++ {
		matches := false
		qosOK := false
		q, routed := got[clients[c]]
		for f := 0; f < nf; f++ {
			if subs[c][f].live {
				anyLive = true
				if vRefMatch(filters[f], topic) {
					matches = true
					if routed && q == subs[c][f].qos {
						qosOK = true
					}
				}
			}
		}
		verifAssert(routed == matches, "routed-iff-a-live-subscription-matches")
		if routed && matches {
			verifAssert(qosOK, "qos-of-one-of-the-clients-own-matching-subscriptions")
			verifCover("routed")
		}
	}
	if !anyLive {
		verifAssert(len(mgr.root.nodes) == 0 && len(mgr.root.clients) == 0, "no-residue-after-last-unsubscribe")
		verifCover("all-removed")
	}
}

func verifC14_TrieCleanup() { verifC14_Trie() }
