package proxy

import (
	"errors"

	"github.com/megaease/easegress/pkg/object/serviceregistry"
	"github.com/megaease/easegress/pkg/supervisor"
)

// C04, discovery-backed pools through the REAL NewServerPool / watchServers: the first listing
// may fail (the registry is not there yet) or succeed; afterwards the registry reports
// instances through the watcher. After every report the pool forwards to the tagged instances
// of THAT report (static list when none qualifies) - also when the first listing had failed.
type vWatcher struct {
	ch      chan *serviceregistry.ServiceEvent
	stopped bool
}

func (w *vWatcher) ID() string                                  { return "w" }
func (w *vWatcher) RegistryName() string                        { return "r" }
func (w *vWatcher) ServiceName() string                         { return "s" }
func (w *vWatcher) Watch() <-chan *serviceregistry.ServiceEvent { return w.ch }
func (w *vWatcher) Stop()                                       { w.stopped = true }

var (
	vFirstListFails bool
	vFirstList      map[string]*serviceregistry.ServiceInstanceSpec
	vTheWatcher     *vWatcher
	vRegistry       = &serviceregistry.ServiceRegistry{}
)

func vMustGetSystemController(s *supervisor.Supervisor, kind string) *supervisor.ObjectEntity {
	e := &supervisor.ObjectEntity{}
	verifSetField(e, "instance", supervisor.Object(vRegistry))
	return e
}

func vListServiceInstances(sr *serviceregistry.ServiceRegistry, registryName, serviceName string) (map[string]*serviceregistry.ServiceInstanceSpec, error) {
	if vFirstListFails {
		return nil, errors.New("registry r not found")
	}
	return vFirstList, nil
}

func vNewServiceWatcher(sr *serviceregistry.ServiceRegistry, registryName, serviceName string) serviceregistry.ServiceWatcher {
	vTheWatcher = &vWatcher{ch: make(chan *serviceregistry.ServiceEvent, 1)}
	return vTheWatcher
}

func vInstance(id string, port uint16) *serviceregistry.ServiceInstanceSpec {
	return &serviceregistry.ServiceInstanceSpec{InstanceID: id, Address: "10.1.0.1", Port: port, Tags: []string{"blue"}}
}

func verifC04_WatchServers() {
	static := vMakeServers(1, false)
	spec := &ServerPoolSpec{Servers: static, ServerTags: []string{"blue"}, ServiceRegistry: "r", ServiceName: "s",
		LoadBalance: &LoadBalanceSpec{Policy: LoadBalancePolicyRoundRobin}}
	p := &Proxy{spec: &Spec{}, super: &supervisor.Supervisor{}}
	vFirstListFails = verifBool("firstListingFails")
	vFirstList = nil
	if !vFirstListFails && verifBool("firstListingHasAnInstance") {
		vFirstList = map[string]*serviceregistry.ServiceInstanceSpec{"i0": vInstance("i0", 8000)}
	}
	vTheWatcher = nil
	sp := NewServerPool(p, spec, "pool")
	s0 := sp.LoadBalancer().ChooseServer(nil)
	if vFirstList != nil {
		verifAssert(s0 != nil && s0.URL == vFirstList["i0"].URL(), "forwards-to-the-instances-of-the-first-listing")
	} else {
		verifAssert(s0 == static[0], "static-list-until-discovery-reports-instances")
	}
	// the registry reports (a replace event of the watcher)
	verifAssert(vTheWatcher != nil, "pool-keeps-following-discovery")
	if vTheWatcher == nil {
		return
	}
	inst := vInstance("i1", 9000)
	vTheWatcher.ch <- &serviceregistry.ServiceEvent{Instances: map[string]*serviceregistry.ServiceInstanceSpec{"i1": inst}}
	verifQuiesce()
	s1 := sp.LoadBalancer().ChooseServer(nil)
	verifAssert(s1 != nil && s1.URL == inst.URL(), "forwards-to-the-instances-last-reported")
	if vFirstListFails {
		verifCover("report-after-a-failed-first-listing")
	}
	sp.close()
	verifQuiesce()
}
