package proxy

import (
	"net/http"
	"sync"

	"github.com/megaease/easegress/pkg/object/serviceregistry"
	"github.com/megaease/easegress/pkg/protocols/httpprot"
)

// ---------------------------------------------------------------------------
// C04 harnesses, package proxy.
// ---------------------------------------------------------------------------

var vURLs = []string{"http://10.0.0.1:80", "http://10.0.0.2:80", "http://10.0.0.3:80", "http://10.0.0.4:80", "http://10.0.0.5:80"}

func vMakeServers(n int, weighted bool) []*Server {
	servers := make([]*Server, n)
	for i := 0; i < n; i++ {
		s := &Server{URL: vURLs[i]}
		if weighted {
			s.Weight = int(verifInt("weight", 0, 100))
		}
		servers[i] = s
	}
	return servers
}

// vCounterStart: the round-robin counter may have any earlier value: one of three
// bases (0, just below 2^32, 2^62) plus a symbolic offset. (A fully symbolic
// 62-bit start costs ~2 s per query in the 64-bit remainder; thorough tier only.)
func vCounterStart() uint64 {
	max := uint64(verifBound("maxCounterOffset"))
	if max == 0 {
		return verifUint("counterStart", 0, 1<<62)
	}
	bases := []uint64{0, 1<<32 - 16, 1 << 62}
	return bases[verifChoose("counterBase", 3)] + verifUint("counterOffset", 0, max)
}

func vIndexOf(servers []*Server, s *Server) int {
	for i, x := range servers {
		if x == s {
			return i
		}
	}
	return -1
}

func vReq(ip string, hdrVal string, hasHdr bool) *httpprot.Request {
	std := &http.Request{Method: "GET", Header: http.Header{}}
	if hasHdr {
		std.Header["X-Key"] = []string{hdrVal}
	}
	// the peer address of the connection: the same peer, a new ephemeral port for
	// every request - not part of the key
	std.RemoteAddr = []string{"10.9.9.9:40000", "10.9.9.9:40001", "10.9.9.9:40002"}[vReqSeq%3]
	vReqSeq++
	req := &httpprot.Request{Request: std}
	verifSetField(req, "realIP", ip)
	return req
}

var vReqSeq int

// vListOf: the list a balancer selects from, whatever its concrete type (all balancers of the
// package embed BaseLoadBalancer); the harness never demands a particular type.
type vBalancerView struct {
	LoadBalancer
	Servers []*Server
}

func vListOf(lb LoadBalancer) *vBalancerView {
	v := &vBalancerView{LoadBalancer: lb}
	switch x := lb.(type) {
	case *roundRobinLoadBalancer:
		v.Servers = x.Servers
	case *randomLoadBalancer:
		v.Servers = x.Servers
	case *WeightedRandomLoadBalancer:
		v.Servers = x.Servers
	case *ipHashLoadBalancer:
		v.Servers = x.Servers
	case *headerHashLoadBalancer:
		v.Servers = x.Servers
	default:
		verifAssume(false) // a balancer type this harness cannot look into: nothing claimed
	}
	return v
}

// verifC04_RoundRobin: after k selections from any counter start, every server
// was chosen floor(k/n) or ceil(k/n) times.
func verifC04_RoundRobin() {
	n := verifChoose("n", verifBound("maxServers")) + 1
	servers := vMakeServers(n, false)
	lb := NewLoadBalancer(&LoadBalanceSpec{Policy: LoadBalancePolicyRoundRobin}, servers)
	// white-box strengthening, not a demand: where the balancer is the counter-based one, the
	// counter starts anywhere (wrap-around included)
	if rr, ok := lb.(*roundRobinLoadBalancer); ok {
		rr.counter = vCounterStart()
	}
	k := verifChoose("k", verifBound("maxSelections")+1)
	var counts [8]int
	for i := 0; i < k; i++ {
		s := lb.ChooseServer(nil)
		j := vIndexOf(servers, s)
		verifAssert(j >= 0, "chosen-server-in-list")
		counts[j]++
	}
	for j := 0; j < n; j++ {
		verifAssert(counts[j] == k/n || counts[j] == (k+n-1)/n, "round-robin-fair")
	}
	if k > n {
		verifCover("wrapped")
	}
}

// verifC04_Hash: ipHash / headerHash send equal keys to the same server.
func verifC04_Hash() {
	n := verifChoose("n", verifBound("maxServers")) + 1
	servers := vMakeServers(n, false)
	maxKey := verifBound("maxKey")
	k1 := verifString("key1", maxKey)
	k2 := verifString("key2", maxKey)
	var lb LoadBalancer
	var r1, r2 *httpprot.Request
	if verifChoose("policy", 2) == 0 {
		lb = NewLoadBalancer(&LoadBalanceSpec{Policy: LoadBalancePolicyIPHash}, servers)
		r1, r2 = vReq(k1, "", false), vReq(k2, "", false)
	} else {
		lb = NewLoadBalancer(&LoadBalanceSpec{Policy: LoadBalancePolicyHeaderHash, HeaderHashKey: "X-Key"}, servers)
		h1, h2 := verifBool("has1"), verifBool("has2")
		r1, r2 = vReq("1.1.1.1", k1, h1), vReq("2.2.2.2", k2, h2)
		if !h1 {
			k1 = ""
		}
		if !h2 {
			k2 = ""
		}
	}
	s1 := lb.ChooseServer(r1)
	s2 := lb.ChooseServer(r2)
	verifAssert(vIndexOf(servers, s1) >= 0 && vIndexOf(servers, s2) >= 0, "chosen-server-in-list")
	if k1 == k2 {
		verifAssert(s1 == s2, "equal-keys-same-server")
		verifCover("equal-keys")
	} else if s1 != s2 {
		verifCover("different-servers")
	}
	s1b := lb.ChooseServer(r1)
	verifAssert(s1b == s1, "sticky")
}

// verifC04_Weighted: a pool accepted by Validate never panics, and a zero-weight
// server is never chosen while some weight is positive.
func verifC04_Weighted() {
	n := verifChoose("n", verifBound("maxServers")) + 1
	servers := vMakeServers(n, true)
	spec := &ServerPoolSpec{Servers: servers, LoadBalance: &LoadBalanceSpec{Policy: LoadBalancePolicyWeightedRandom}}
	// static lists pass Validate (all servers weighted or none); lists reported by service
	// discovery are not validated: any mix of zero and positive weights, in any order
	total := 0
	for _, s := range servers {
		total += s.Weight
	}
	if total == 0 {
		verifCover("all-weights-zero")
	}
	if verifBool("serversFromDiscovery") {
		// the weights are the ones the registry reports, and the list is built by the real
		// ServerPool.useService from that report
		sp := &ServerPool{spec: &ServerPoolSpec{Servers: vMakeServers(1, false), ServerTags: []string{"blue"}, LoadBalance: spec.LoadBalance}}
		verifInitMaps(sp)
		ids := []string{"i0", "i1", "i2", "i3", "i4"}
		instances := map[string]*serviceregistry.ServiceInstanceSpec{}
		var urls [5]string
		for i, s := range servers {
			inst := &serviceregistry.ServiceInstanceSpec{InstanceID: ids[i], Address: "10.1.0.1", Port: uint16(8000 + i), Tags: []string{"blue"}, Weight: s.Weight}
			instances[ids[i]] = inst
			urls[i] = inst.URL()
		}
		sp.useService(instances)
		s := sp.LoadBalancer().ChooseServer(nil) // a panic here is reported as a violation
		reported := -1
		for i := range servers {
			if s != nil && s.URL == urls[i] {
				reported = servers[i].Weight
			}
		}
		verifAssert(reported >= 0, "chosen-server-in-list")
		if total > 0 {
			verifAssert(reported > 0, "zero-weight-server-never-chosen")
			verifCover("positive-weights")
		}
		verifCover("discovered-servers")
		// the registry reports again, with other weights (all zero now, or some positive now):
		// replacing the list never fails, and the rule holds for the new report as well
		instances2 := map[string]*serviceregistry.ServiceInstanceSpec{}
		total2 := 0
		var w2 [5]int
		for i := range servers {
			w2[i] = int(verifInt("weightInSecondReport", 0, 100))
			total2 += w2[i]
			instances2[ids[i]] = &serviceregistry.ServiceInstanceSpec{InstanceID: ids[i], Address: "10.1.0.1", Port: uint16(8000 + i), Tags: []string{"blue"}, Weight: w2[i]}
		}
		sp.useService(instances2) // a panic here is reported as a violation
		s2 := sp.LoadBalancer().ChooseServer(nil)
		rep2 := -1
		for i := range servers {
			if s2 != nil && s2.URL == urls[i] {
				rep2 = w2[i]
			}
		}
		verifAssert(rep2 >= 0, "chosen-server-in-list")
		if total2 > 0 {
			verifAssert(rep2 > 0, "zero-weight-server-never-chosen")
		}
		if (total == 0) != (total2 == 0) {
			verifCover("report-crossing-the-all-zero-border")
		}
		return
	}
	verifAssume(spec.Validate() == nil)
	lb := NewLoadBalancer(spec.LoadBalance, servers)
	s := lb.ChooseServer(nil) // a panic here is reported as a violation
	verifAssert(vIndexOf(servers, s) >= 0, "chosen-server-in-list")
	if total > 0 {
		verifAssert(s.Weight > 0, "zero-weight-server-never-chosen")
		verifCover("positive-weights")
	}
}

// verifC04_Random / default policy: chosen server is a member; nil only for an empty list.
func verifC04_Member() {
	n := verifChoose("n", verifBound("maxServers")+1)
	servers := vMakeServers(n, false)
	policies := []string{"", LoadBalancePolicyRoundRobin, LoadBalancePolicyRandom, LoadBalancePolicyWeightedRandom, LoadBalancePolicyIPHash, LoadBalancePolicyHeaderHash, "bogus"}
	pol := policies[verifChoose("policy", len(policies))]
	lb := NewLoadBalancer(&LoadBalanceSpec{Policy: pol, HeaderHashKey: "X-Key"}, servers)
	if pol == LoadBalancePolicyWeightedRandom {
		for _, s := range servers {
			s.Weight = 1
		}
		lb = NewLoadBalancer(&LoadBalanceSpec{Policy: pol}, servers)
	}
	s := lb.ChooseServer(vReq("1.2.3.4", "v", true))
	if n == 0 {
		verifAssert(s == nil, "empty-list-nil")
		verifCover("empty")
	} else {
		verifAssert(s != nil && vIndexOf(servers, s) >= 0, "chosen-server-in-list")
	}
}

// verifC04_Service: after every discovery report the pool's current list is the
// tagged instances of THAT report, falling back to the static list when none
// qualifies (also after an earlier report did qualify).
func verifC04_Service() {
	static := vMakeServers(2, false)
	sp := &ServerPool{spec: &ServerPoolSpec{Servers: static, ServerTags: []string{"blue", "canary"}, LoadBalance: &LoadBalanceSpec{Policy: LoadBalancePolicyRoundRobin}}}
	verifInitMaps(sp) // maps a bypassed constructor would have made
	names := []string{"i0", "i1"}
	prevTagged := 0
	for round := 0; round < verifBound("discoveryRounds"); round++ {
		ni := verifChoose("instances", 3)
		instances := map[string]*serviceregistry.ServiceInstanceSpec{}
		tagged := 0
		var urls [2]string
		for i := 0; i < ni; i++ {
			inst := &serviceregistry.ServiceInstanceSpec{InstanceID: names[i], Address: "10.1.0.1", Port: uint16(8000 + 10*round + i), Weight: int(verifInt("iweight", 0, 100))}
			if verifBool("tagged") {
				// an instance qualifies when it carries one of the pool's tags - or several
				inst.Tags = [][]string{{"x", "blue"}, {"canary"}, {"blue", "x", "canary"}}[verifChoose("instanceTags", 3)]
				if len(inst.Tags) == 3 {
					verifCover("instance-with-several-matching-tags")
				}
				urls[tagged] = inst.URL()
				tagged++
			} else {
				inst.Tags = []string{"green"}
			}
			instances[names[i]] = inst
		}
		if round > 0 && verifBool("nilReport") {
			instances, tagged = nil, 0
		}
		sp.useService(instances)
		lb := vListOf(sp.LoadBalancer())
		if tagged == 0 {
			verifAssert(len(lb.Servers) == 2 && vIndexOf(lb.Servers, static[0]) >= 0 && vIndexOf(lb.Servers, static[1]) >= 0, "fallback-to-static-list")
			verifCover("fallback")
			if prevTagged > 0 {
				verifCover("fallback-after-instances-vanished")
			}
		} else {
			verifAssert(len(lb.Servers) == tagged, "list-is-tagged-instances")
			for _, s := range lb.Servers {
				verifAssert(vIndexOf(static, s) < 0, "no-static-server-while-instances-qualify")
				verifAssert(s.URL == urls[0] || (tagged == 2 && s.URL == urls[1]), "list-is-the-latest-report")
			}
			verifCover("discovered")
		}
		s := lb.ChooseServer(nil)
		verifAssert(s != nil && vIndexOf(lb.Servers, s) >= 0, "chosen-server-in-list")
		prevTagged = tagged
	}
}

// verifC04_FallbackSticky: a discovery-backed pool that keeps falling back to its static list
// (report after report without a qualifying instance): the list is unchanged, so ipHash /
// headerHash keep sending a key to the same server - through the balancer a request already
// holds and through the one the pool hands out after the next report.
func verifC04_FallbackSticky() {
	static := vMakeServers(3, false)
	pol := []string{LoadBalancePolicyIPHash, LoadBalancePolicyHeaderHash}[verifChoose("policy", 2)]
	sp := &ServerPool{spec: &ServerPoolSpec{Servers: static, ServerTags: []string{"blue"}, LoadBalance: &LoadBalanceSpec{Policy: pol, HeaderHashKey: "X-Key"}}}
	verifInitMaps(sp)
	sp.useService(nil)
	lb1 := sp.LoadBalancer()
	keys := []string{"1.2.3.4", "5.6.7.8", "9.9.9.9"}
	var first [3]*Server
	for i, k := range keys {
		first[i] = lb1.ChooseServer(vReq(k, k, true))
		verifAssert(vIndexOf(static, first[i]) >= 0, "chosen-server-in-list")
	}
	// another report without a qualifying instance: still the static list
	sp.useService(map[string]*serviceregistry.ServiceInstanceSpec{"i0": {InstanceID: "i0", Address: "10.1.0.1", Port: 8000, Tags: []string{"green"}}})
	lb2 := sp.LoadBalancer()
	for i, k := range keys {
		verifAssert(lb1.ChooseServer(vReq(k, k, true)) == first[i], "equal-keys-same-server-while-the-list-is-unchanged")
		verifAssert(lb2.ChooseServer(vReq(k, k, true)) == first[i], "equal-keys-same-server-while-the-list-is-unchanged")
	}
	verifCover("two-fallbacks-in-a-row")
}

// verifC04_Conc: concurrent selectors through the pool and a concurrent list
// replacement; every schedule within the preemption bound. Fairness of the
// multiset (when the list is not replaced), membership in one of the two
// generations, and freedom from data races on the balancer and the pool.
func verifC04_Conc() {
	n := verifChoose("n", 2) + 2
	servers := vMakeServers(n, false)
	sp := &ServerPool{spec: &ServerPoolSpec{Servers: servers, LoadBalance: &LoadBalanceSpec{Policy: LoadBalancePolicyRoundRobin}}}
	verifInitMaps(sp) // maps a bypassed constructor would have made
	sp.createLoadBalancer(servers)
	bases := []uint64{0, 1<<32 - 1, 1<<62 + 1}
	if rr, ok := sp.LoadBalancer().(*roundRobinLoadBalancer); ok {
		rr.counter = bases[verifChoose("counterBase", 3)]
		verifRaceScopeDeep(rr, "roundRobinLoadBalancer")
	}
	verifRaceScopeDeep(sp, "ServerPool")
	threads := verifBound("threads")
	per := verifBound("selectionsPerThread")
	replaced := verifBool("replaceList")
	newList := vMakeServers(2, false)
	var picks [4][4]*Server
	var wg sync.WaitGroup
	for t := 0; t < threads; t++ {
		wg.Add(1)
		t := t
		go func() {
			defer wg.Done()
			for i := 0; i < per; i++ {
				picks[t][i] = sp.LoadBalancer().ChooseServer(nil)
			}
		}()
	}
	if replaced {
		wg.Add(1)
		go func() {
			defer wg.Done()
			sp.createLoadBalancer(newList)
		}()
	}
	wg.Wait()
	var counts [8]int
	for t := 0; t < threads; t++ {
		for i := 0; i < per; i++ {
			s := picks[t][i]
			j := vIndexOf(servers, s)
			verifAssert(s != nil && (j >= 0 || (replaced && vIndexOf(newList, s) >= 0)), "selection-from-a-generation")
			if j >= 0 {
				counts[j]++
			}
		}
	}
	if !replaced {
		k := threads * per
		for j := 0; j < n; j++ {
			verifAssert(counts[j] == k/n || counts[j] == (k+n-1)/n, "round-robin-fair-concurrent")
		}
		verifCover("fair-without-replacement")
	} else {
		after := sp.LoadBalancer().ChooseServer(nil)
		verifAssert(vIndexOf(newList, after) >= 0, "new-list-after-replacement")
	}
}

// verifC04_HashConc: ipHash / headerHash under concurrent selectors: every selection gives the
// server that the same key gets when selections are made one after the other, and the
// balancer is free of data races (it is shared by all requests of the pool).
func verifC04_HashConc() {
	n := verifChoose("n", 2) + 2
	servers := vMakeServers(n, false)
	pol := []string{LoadBalancePolicyIPHash, LoadBalancePolicyHeaderHash}[verifChoose("policy", 2)]
	lb := NewLoadBalancer(&LoadBalanceSpec{Policy: pol, HeaderHashKey: "X-Key"}, servers)
	keys := []string{"1.2.3.4", "5.6.7.8", "9.9.9.9"}
	var want [3]*Server
	for i, k := range keys {
		want[i] = lb.ChooseServer(vReq(k, k, true))
	}
	verifRaceScopeDeep(lb, "hash load balancer")
	var got [3]*Server
	var wg sync.WaitGroup
	for i := range keys {
		i := i
		wg.Add(1)
		go func() {
			defer wg.Done()
			got[i] = lb.ChooseServer(vReq(keys[i], keys[i], true))
		}()
	}
	wg.Wait()
	for i := range keys {
		verifAssert(got[i] == want[i], "equal-keys-get-the-same-server-under-concurrency")
	}
	verifCover("concurrent-hash-selection")
}

// verifC04_DiscoveryOnlyPool: "a request is failed for lack of a server only when the CURRENT
// list is empty" for a pool that names a service and lists no static servers (validation accepts
// it): before the registry reports an instance the pool has no server and refuses; once an
// instance is reported, requests are forwarded to it; when the instances vanish again (no
// static fallback exists) it refuses again.
func verifC04_DiscoveryOnlyPool() {
	vSymbolicRequest = false
	sp, _ := vPool(0, 0)
	sp.spec.Servers = nil
	sp.spec.ServiceName = "orders"
	sp.spec.ServerTags = []string{"blue"}
	sp.createLoadBalancer(nil)
	fnSendRequest = vSend
	vOutcome = func(attempt int) (*http.Response, error) {
		return &http.Response{StatusCode: 200, Header: http.Header{}, Body: &vBody{}}, nil
	}
	try := func() (string, int) {
		ctx, _, _ := vClientRequest([]byte{1}, false)
		vNSends = 0
		return sp.handle(ctx, false), vNSends
	}
	res, sends := try()
	verifAssert(res != "" && sends == 0, "no-server-no-forwarding")
	sp.useService(map[string]*serviceregistry.ServiceInstanceSpec{"i0": {InstanceID: "i0", Address: "10.1.0.1", Port: 8000, Tags: []string{"blue"}}})
	res, sends = try()
	verifAssert(res == "" && sends == 1, "forwarded-to-the-discovered-instance")
	verifAssert(len(vSends[0].url) >= 20 && vSends[0].url[:20] == "http://10.1.0.1:8000", "forwarded-to-the-address-of-the-discovered-instance")
	if verifBool("instancesVanish") {
		sp.useService(map[string]*serviceregistry.ServiceInstanceSpec{})
		res, sends = try()
		verifAssert(res != "" && sends == 0, "no-server-no-forwarding")
		verifCover("instances-vanished")
	}
	verifCover("discovery-only-pool")
}
