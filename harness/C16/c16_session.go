package mqttproxy

import (
	"errors"
	"io"
	"net"
	"reflect"
	"strings"
	"time"

	"github.com/eclipse/paho.mqtt.golang/packets"
)

// ---------------------------------------------------------------------------
// C16 / C17 part 2 harnesses, package mqttproxy: the REAL Broker.handleConn,
// connectionValidation, checkConnectPermission, setSession, Client.readLoop
// (with its deferred teardown), closeAndDelSession, close, Broker.removeClient,
// deleteSession, SessionManager.get/delLocal/delDB/newSessionFromConn/
// newSessionFromYaml, processSubscribe, TopicManager. Connections are harness
// net.Conn values whose inbound packets are scripted; a connection "drops" when
// the harness closes its drop channel (ReadPacket then fails). Every schedule of
// the connection goroutines within the preemption bound.
// ---------------------------------------------------------------------------

type vConn struct {
	net.Conn
	id      int
	script  []packets.ControlPacket
	drop    chan struct{}
	connack int // return code of the CONNACK written to it (-1: none)
	closed  bool
}

func (c *vConn) Close() error                  { c.closed = true; return nil }
func (c *vConn) SetDeadline(t time.Time) error { return nil }
func (c *vConn) Read(p []byte) (int, error)    { return 0, io.EOF }
func (c *vConn) Write(p []byte) (int, error)   { return len(p), nil }

func vReadPacket(r io.Reader) (packets.ControlPacket, error) {
	c := r.(*vConn)
	if len(c.script) > 0 {
		p := c.script[0]
		c.script = c.script[1:]
		return p, nil
	}
	<-c.drop // the connection stays open until the harness drops it
	return nil, errors.New("connection dropped")
}

func vConnackWrite(p *packets.ConnackPacket, w io.Writer) error {
	w.(*vConn).connack = int(p.ReturnCode)
	return nil
}

func vNow() time.Time { return time.Time{} }

// storage: an in-memory map; session encode/decode are the identity on SessionInfo
type vStorage struct{ kv map[string]string }

func (s *vStorage) get(key string) (*string, error) {
	if v, ok := s.kv[key]; ok {
		return &v, nil
	}
	return nil, nil
}
func (s *vStorage) getPrefix(prefix string, keysOnly bool) (map[string]string, error) {
	return nil, nil
}
func (s *vStorage) put(key, value string) error { s.kv[key] = value; return nil }
func (s *vStorage) delete(key string) error {
	_, existed := s.kv[key]
	delete(s.kv, key)
	if existed && vWatchCh != nil {
		vWatchCh <- map[string]*string{key: nil} // the store's delete watch (when a harness keeps it live)
	}
	return nil
}

var vWatchCh chan map[string]*string

func (s *vStorage) watchDelete(prefix string) (<-chan map[string]*string, func(), error) {
	return nil, func() {}, nil
}

var vDB = map[string]*SessionInfo{} // what the YAML in the store stands for
var vStore *vStorage

// vSessionStore replaces Session.store (which marshals to YAML and hands the text to a
// background goroutine): the session info is persisted synchronously.
func vSessionStore(s *Session) {
	cp := &SessionInfo{EGName: s.info.EGName, Name: s.info.Name, ClientID: s.info.ClientID, CleanFlag: s.info.CleanFlag, Topics: map[string]int{}}
	for k, v := range s.info.Topics {
		cp.Topics[k] = v
	}
	vDB[s.info.ClientID] = cp
	vStore.kv[sessionStoreKey(s.info.ClientID)] = s.info.ClientID
}

func vSessionDecode(s *Session, str string) error {
	src := vDB[str]
	if src == nil {
		return errors.New("no such session")
	}
	s.info.EGName, s.info.Name, s.info.ClientID, s.info.CleanFlag = src.EGName, src.Name, src.ClientID, src.CleanFlag
	// yaml: a field tagged omitempty is left out of the record when empty, and a key that is
	// absent leaves the decoded field at its zero value (a nil map)
	if len(src.Topics) == 0 && vYAMLOmitEmpty("Topics") {
		s.info.Topics = nil
		return nil
	}
	s.info.Topics = map[string]int{}
	for k, v := range src.Topics {
		s.info.Topics[k] = v
	}
	return nil
}

func vYAMLOmitEmpty(field string) bool {
	t := reflect.TypeOf(SessionInfo{})
	for i := 0; i < t.NumField(); i++ {
		if f := t.Field(i); f.Name == field {
			for _, part := range strings.Split(f.Tag.Get("yaml"), ",")[1:] {
				if part == "omitempty" {
					return true
				}
			}
		}
	}
	return false
}

func vNoResend(s *Session) {}

func vAlwaysPermit(l *Limiter, n int) bool { return true }

func vSessionKey(cid string) string { return "/mqtt/sessions/" + cid }

func vC16Broker(maxConn int) *Broker {
	b := &Broker{egName: "eg", name: "mqtt", spec: &Spec{MaxAllowedConnection: maxConn}, clients: map[string]*Client{},
		pipelines: map[PacketType]string{}, topicMgr: &TopicManager{root: newNode(), levelMgr: &topicLevelManager{}},
		connectionLimiter: &Limiter{}, done: make(chan struct{})}
	verifInitMaps(b) // maps a bypassed constructor would have made
	vStore = &vStorage{kv: map[string]string{}}
	vWatchCh = nil
	b.sessMgr = &SessionManager{broker: b, store: vStore, storeCh: make(chan SessionStore, 64), done: make(chan struct{})}
	verifInitMaps(b.sessMgr) // maps a bypassed constructor would have made
	return b
}

var vConnSeq int

func vConnect(cid string, clean bool, subscribe string) *vConn {
	connect := packets.NewControlPacket(packets.Connect).(*packets.ConnectPacket)
	connect.ProtocolName, connect.ProtocolVersion = "MQTT", 4
	connect.ClientIdentifier, connect.CleanSession = cid, clean
	vConnSeq++
	c := &vConn{id: vConnSeq, drop: make(chan struct{}), connack: -1, script: []packets.ControlPacket{connect}}
	if subscribe != "" {
		sub := packets.NewControlPacket(packets.Subscribe).(*packets.SubscribePacket)
		sub.Topics, sub.Qoss, sub.MessageID = []string{subscribe}, []byte{1}, 1
		c.script = append(c.script, sub)
	}
	return c
}

func vRouted(b *Broker, topic, cid string) bool {
	subs, _ := b.topicMgr.findSubscribers(topic)
	_, ok := subs[cid]
	return ok
}

// verifC16_Reconnect: connect, subscribe, network drop, (teardown completes), reconnect.
func verifC16_Reconnect() {
	b := vC16Broker(0)
	clean1, clean2 := verifBool("firstConnection.cleanSession"), verifBool("secondConnection.cleanSession")
	c1 := vConnect("c", clean1, "t/1")
	go b.handleConn(c1)
	verifQuiesce()
	verifAssert(c1.connack == int(packets.Accepted) && vRouted(b, "t/1", "c"), "connected-and-subscribed")
	close(c1.drop) // network drop
	verifQuiesce()
	verifAssert(len(b.clients) == 0, "dropped-client-deregistered")
	c2 := vConnect("c", clean2, "")
	go b.handleConn(c2)
	verifQuiesce()
	verifAssert(c2.connack == int(packets.Accepted), "reconnect-accepted")
	cl := b.clients["c"]
	verifAssert(cl != nil && !cl.disconnected() && cl.conn == net.Conn(c2), "broker-maps-the-id-to-the-new-connection")
	sess := b.sessMgr.get("c")
	verifAssert(cl != nil && sess == cl.session, "session-manager-holds-the-connections-session")
	if !clean1 && !clean2 {
		verifAssert(vRouted(b, "t/1", "c"), "cleanSession-false-restores-previous-subscriptions")
		verifCover("session-resumed")
	} else {
		verifAssert(!vRouted(b, "t/1", "c"), "cleanSession-true-discards-the-previous-session")
		verifCover("session-discarded")
	}
}

// verifC16_Takeover: a second connection takes over the client id while the first is
// still open; the first one's teardown happens whenever (the harness drops it at a
// symbolic point). Afterwards the broker, the session manager and the subscriptions
// must be those of the new connection.
func verifC16_Takeover() {
	b := vC16Broker(0)
	clean2 := verifBool("secondConnection.cleanSession")
	c1 := vConnect("c", false, "t/1")
	go b.handleConn(c1)
	verifQuiesce()
	verifAssert(c1.connack == int(packets.Accepted) && vRouted(b, "t/1", "c"), "connected-and-subscribed")
	c2 := vConnect("c", clean2, "t/2")
	go b.handleConn(c2)
	// the old connection notices its end at any moment relative to the new one's steps
	go func() { close(c1.drop) }()
	verifQuiesce()

	verifAssert(c2.connack == int(packets.Accepted), "takeover-accepted")
	cl := b.clients["c"]
	verifAssert(cl != nil && cl.conn == net.Conn(c2) && !cl.disconnected(), "broker-maps-the-id-to-the-new-connection")
	if cl == nil {
		return
	}
	v, ok := b.sessMgr.sessionMap.Load("c")
	verifAssert(ok && v.(*Session) == cl.session, "old-teardown-must-not-remove-the-new-connections-session")
	verifAssert(vRouted(b, "t/2", "c"), "old-teardown-must-not-remove-the-new-connections-subscriptions")
	if !clean2 {
		verifAssert(vRouted(b, "t/1", "c"), "cleanSession-false-keeps-the-earlier-subscriptions")
	}
	verifCover("taken-over")
}

// verifC16_AdminDelete: deleting a session through the admin path disconnects that client.
func verifC16_AdminDelete() {
	b := vC16Broker(0)
	// client ids of several shapes (the id is recovered from the storage key of the session)
	id := []string{"c", "sensor-7", "42", "mqtt/line-3"}[verifChoose("clientID", 4)]
	c1 := vConnect(id, verifBool("cleanSession"), "t/1")
	go b.handleConn(c1)
	verifQuiesce()
	cl := b.clients[id]
	verifAssert(cl != nil, "connected")
	if verifBool("throughTheStorageWatch") {
		// the admin endpoint deletes the session from the store; every member learns it from
		// its delete watch
		ch := make(chan map[string]*string, 1)
		go b.watchDelete(ch, func() {})
		ch <- map[string]*string{sessionStoreKey(id): nil}
		verifCover("through-the-delete-watch")
	} else {
		b.deleteSession(id)
	}
	verifQuiesce()
	verifAssert(cl.disconnected(), "admin-delete-disconnects-the-client")
	_, still := b.clients[id]
	verifAssert(!still, "admin-delete-deregisters-the-client")
}

// verifC17_MQTTCap: at no instant more than maxAllowedConnection registered clients;
// refused connections get server-unavailable.
func verifC17_MQTTCap() {
	capacity := verifChoose("maxAllowedConnection", 2) + 1
	b := vC16Broker(capacity)
	// every connection picks its client id: equal ids are takeovers, different ids compete
	// for the last free slot
	n := verifBound("connections")
	var ids [3]string
	for i := 0; i < n; i++ {
		ids[i] = []string{"a", "b"}[verifChoose("clientID", 2)]
	}
	var conns [3]*vConn
	for i := 0; i < n; i++ {
		conns[i] = vConnect(ids[i], true, "")
		c := conns[i]
		go func() {
			b.handleConn(c)
		}()
	}
	// a monitor samples the registered count at arbitrary moments
	for k := 0; k < verifBound("samples"); k++ {
		verifYield()
		b.Lock()
		verifAssert(len(b.clients) <= capacity, "registered-clients-never-exceed-the-cap")
		b.Unlock()
	}
	verifQuiesce()
	verifAssert(len(b.clients) <= capacity, "registered-clients-never-exceed-the-cap")
	accepted := 0
	for i := 0; i < n; i++ {
		switch conns[i].connack {
		case int(packets.Accepted):
			accepted++
		case int(packets.ErrRefusedServerUnavailable):
			verifCover("refused-server-unavailable")
		default:
			verifAssert(false, "connection-gets-accepted-or-server-unavailable")
		}
	}
	verifAssert(accepted >= 1, "some-connection-accepted")
	// Sockets end: those the broker closed (refused connections), and those of superseded
	// clients (a takeover marks the old client disconnected; its socket ends at the next read
	// failure). Their read loops tear down. Afterwards every id with an accepted connection
	// must still be registered, with the connection that superseded the others - so that the
	// cap keeps counting exactly the connected clients.
	superseded := 0
	for i := 0; i < n; i++ {
		c := conns[i]
		if c.closed {
			close(c.drop)
			continue
		}
		if c.connack == int(packets.Accepted) {
			if reg := b.clients[ids[i]]; reg == nil || reg.conn != net.Conn(c) {
				superseded++
				close(c.drop)
			}
		}
	}
	verifQuiesce()
	distinct := 0
	for i := 0; i < n; i++ {
		if conns[i].connack != int(packets.Accepted) {
			continue
		}
		first := true
		for j := 0; j < i; j++ {
			if conns[j].connack == int(packets.Accepted) && ids[j] == ids[i] {
				first = false
			}
		}
		if first {
			distinct++
			reg := b.clients[ids[i]]
			verifAssert(reg != nil && !reg.disconnected(), "an-id-with-an-accepted-connection-stays-registered")
		}
	}
	verifAssert(len(b.clients) == distinct, "the-cap-counts-exactly-the-connected-clients")
	if superseded > 0 {
		verifCover("superseded-connection-torn-down")
	}
}

// verifC16_ReconnectViaOtherMember: two brokers (cluster members) over ONE session store. A
// client with a persistent session connects to member 1 and subscribes, goes away, comes back
// through member 2 (its session is resumed from the store) and subscribes to more, goes away,
// and reconnects to member 1: it gets ALL its previous subscriptions back - whatever member 1
// still remembers of the client's earlier visit must not win over the stored session.
func verifC16_ReconnectViaOtherMember() {
	b1 := vC16Broker(10)
	store := vStore
	b2 := vC16Broker(10)
	vStore = store
	b2.sessMgr.store = store

	c1 := vConnect("a", false, "t1")
	go b1.handleConn(c1)
	verifQuiesce()
	verifAssert(c1.connack == int(packets.Accepted) && vRouted(b1, "t1", "a"), "connected-and-subscribed")
	close(c1.drop)
	verifQuiesce()

	c2 := vConnect("a", false, "t2")
	go b2.handleConn(c2)
	verifQuiesce()
	verifAssert(c2.connack == int(packets.Accepted), "connected-and-subscribed")
	verifAssert(vRouted(b2, "t1", "a") && vRouted(b2, "t2", "a"), "reconnect-gets-the-previous-subscriptions-back")
	close(c2.drop)
	verifQuiesce()

	c3 := vConnect("a", false, "")
	go b1.handleConn(c3)
	verifQuiesce()
	verifAssert(c3.connack == int(packets.Accepted), "connected-and-subscribed")
	verifAssert(vRouted(b1, "t1", "a") && vRouted(b1, "t2", "a"), "reconnect-gets-the-previous-subscriptions-back")
	cl := b1.clients["a"]
	verifAssert(cl != nil && cl.session != nil && len(cl.session.info.Topics) == 2, "resumed-session-holds-every-subscription")
	verifCover("came-back-through-another-member")
}

// verifC16_CleanReconnectWithLiveWatch: the broker's delete watch on the session store is LIVE
// (every delete of an existing session key comes back as a delete event, as etcd delivers it).
// A client with a persistent session goes away; the same id connects with cleanSession=true:
// the previous session is discarded (no earlier subscription routes to it) and the new
// connection stays registered and connected - nothing the connect does may come back through
// the watch and tear the new connection down.
func verifC16_CleanReconnectWithLiveWatch() {
	b := vC16Broker(10)
	vWatchCh = make(chan map[string]*string, 8)
	go b.watchDelete(vWatchCh, func() {})
	c1 := vConnect("a", false, "t1")
	go b.handleConn(c1)
	verifQuiesce()
	verifAssert(c1.connack == int(packets.Accepted) && vRouted(b, "t1", "a"), "connected-and-subscribed")
	close(c1.drop)
	verifQuiesce()
	c2 := vConnect("a", true, "t2")
	go b.handleConn(c2)
	verifQuiesce()
	verifAssert(c2.connack == int(packets.Accepted), "connected-and-subscribed")
	cl := b.clients["a"]
	verifAssert(cl != nil && cl.conn == net.Conn(c2) && !cl.disconnected() && !c2.closed, "new-connection-stays-registered-and-connected")
	verifAssert(!vRouted(b, "t1", "a"), "clean-session-discards-the-previous-subscriptions")
	verifAssert(vRouted(b, "t2", "a"), "new-connection-subscribes-and-receives")
	verifCover("clean-reconnect-after-a-persistent-session")
	vWatchCh = nil
}

// verifC16_ReconnectThenSubscribe: a persistent session that was stored WITHOUT any subscription
// is resumed from the store and subscribes then: the session works like any other (what the
// stored record leaves out when a field is empty - read from the yaml tags of the current
// source - must not leave the resumed session half initialised).
func verifC16_ReconnectThenSubscribe() {
	b := vC16Broker(10)
	c1 := vConnect("a", false, "")
	go b.handleConn(c1)
	verifQuiesce()
	verifAssert(c1.connack == int(packets.Accepted), "connected-and-subscribed")
	close(c1.drop)
	verifQuiesce()
	c2 := vConnect("a", false, "t1")
	go b.handleConn(c2)
	verifQuiesce()
	verifAssert(c2.connack == int(packets.Accepted) && vRouted(b, "t1", "a"), "resumed-session-subscribes-and-receives")
	cl := b.clients["a"]
	verifAssert(cl != nil && cl.session != nil && len(cl.session.info.Topics) == 1, "resumed-session-holds-every-subscription")
	verifCover("resumed-without-subscriptions")
}

// verifC17_MQTTKickedClientFreesSlot: "capacity released by a closed connection becomes usable
// again" when it is the BROKER that closes a client (a pipeline's disconnect verdict, a write
// error, a lost session): once the connection has ended the client is no longer counted, and
// the next CONNECT at the cap is accepted.
func verifC17_MQTTKickedClientFreesSlot() {
	b := vC16Broker(1)
	c1 := vConnect("a", verifBool("a.cleanSession"), "")
	go b.handleConn(c1)
	verifQuiesce()
	cl := b.clients["a"]
	verifAssert(c1.connack == int(packets.Accepted) && cl != nil, "connected")
	cl.close() // the broker closes the client
	verifQuiesce()
	close(c1.drop) // the connection ends (the peer notices, or the broker's close reaches it)
	verifQuiesce()
	verifAssert(len(b.clients) == 0, "the-cap-counts-exactly-the-connected-clients")
	c2 := vConnect("b", true, "")
	go b.handleConn(c2)
	verifQuiesce()
	verifAssert(c2.connack == int(packets.Accepted), "released-capacity-is-usable-again")
	verifCover("kicked-client-freed-its-slot")
}

// verifC17_MQTTCapReturning: the cap counts CONNECTED clients; a session the broker still keeps
// for a client that went away (cleanSession=false) holds no slot and gives no right to one: with
// the broker full, the returning client's CONNECT is refused like any other.
func verifC17_MQTTCapReturning() {
	b := vC16Broker(1)
	clean := verifBool("first.cleanSession")
	c1 := vConnect("a", clean, "")
	go b.handleConn(c1)
	verifQuiesce()
	verifAssert(c1.connack == int(packets.Accepted), "connected")
	close(c1.drop)
	verifQuiesce()
	verifAssert(len(b.clients) == 0, "the-cap-counts-exactly-the-connected-clients")
	c2 := vConnect("b", true, "")
	go b.handleConn(c2)
	verifQuiesce()
	verifAssert(c2.connack == int(packets.Accepted), "free-slot-is-given-to-the-next-client")
	c3 := vConnect("a", verifBool("again.cleanSession"), "")
	go b.handleConn(c3)
	verifQuiesce()
	verifAssert(c3.connack == int(packets.ErrRefusedServerUnavailable), "connect-beyond-the-cap-refused-server-unavailable")
	verifAssert(len(b.clients) == 1 && b.clients["b"] != nil, "registered-clients-never-exceed-the-cap")
	if !clean {
		verifCover("returning-client-with-a-kept-session")
	}
}

// verifC17_MQTTDeleteEvent: a delete event of the session watch arrives for a connected client
// (a real admin delete, or a stale event from the id's previous connection while the session
// has been stored again). Whatever the broker decides to do about it, the clients it counts
// are exactly the connected ones: a client that stays connected stays registered, so the next
// CONNECT at the cap is refused; a client that is unregistered has been disconnected.
func verifC17_MQTTDeleteEvent() {
	b := vC16Broker(1)
	c1 := vConnect("a", verifBool("a.cleanSession"), "")
	go b.handleConn(c1)
	verifQuiesce()
	verifAssert(c1.connack == int(packets.Accepted), "connected")
	clA := b.clients["a"]
	verifAssert(clA != nil, "registered")
	if !verifBool("sessionStillInTheStore") {
		delete(vStore.kv, sessionStoreKey("a")) // a real delete; otherwise the event is stale
	} else {
		verifCover("stale-delete-event")
	}
	b.deleteSession("a")
	verifQuiesce()
	verifAssert(clA.disconnected() || b.clients["a"] == clA, "a-client-that-stays-connected-stays-registered")
	c2 := vConnect("b", true, "")
	go b.handleConn(c2)
	verifQuiesce()
	alive := 0
	if !clA.disconnected() {
		alive++
	}
	if c2.connack == int(packets.Accepted) {
		if clB := b.clients["b"]; clB != nil && !clB.disconnected() {
			alive++
		}
	}
	verifAssert(alive <= 1, "connected-clients-never-exceed-the-cap")
}

// verifC15_DeliveryAfterTakeover: a second connection takes over the client id; the superseded
// connection ends later and tears down. The new connection then subscribes and a message is
// published: it is delivered to the new connection (the registered client of that id), for
// QoS 0 and 1, with both cleanSession values of the two connections.
func verifC15_DeliveryAfterTakeover() {
	b := vC16Broker(0)
	oldClean, newClean := verifBool("old.cleanSession"), verifBool("new.cleanSession")
	c1 := vConnect("c", oldClean, "old/1")
	go b.handleConn(c1)
	verifQuiesce()
	cl1 := b.clients["c"]
	verifAssert(cl1 != nil && vRouted(b, "old/1", "c"), "first-connection-subscribed")
	// a QoS1 message is in flight to the first connection, not yet acknowledged
	cl1.session.publish(nil, "old/1", []byte{5}, QoS1)
	unacked := len(cl1.session.pending)
	c2 := vConnect("c", newClean, "")
	go b.handleConn(c2)
	verifQuiesce()
	verifAssert(c2.connack == int(packets.Accepted), "takeover-accepted")
	cl2 := b.clients["c"]
	verifAssert(cl2 != nil && cl2.conn == net.Conn(c2), "broker-maps-the-id-to-the-new-connection")
	if !oldClean && !newClean {
		// the session goes on: the subscription and the unacknowledged message are the new connection's
		verifAssert(len(cl2.session.pending) == unacked && unacked == 1, "takeover-with-cleanSession-false-keeps-the-unacknowledged-messages")
		_, has := cl2.session.info.Topics["old/1"]
		verifAssert(has, "takeover-with-cleanSession-false-keeps-the-subscriptions")
		verifCover("session-continued")
	}
	close(c1.drop) // the superseded connection ends now
	verifQuiesce()
	if !cl2.disconnected() {
		// whatever the old connection's teardown did: the id is not routed for a filter that the
		// session of the connection holding the id does not have
		_, has := cl2.session.info.Topics["old/1"]
		verifAssert(!vRouted(b, "old/1", "c") || has, "no-routing-for-filters-the-current-session-does-not-hold")
	}
	if cl2.disconnected() {
		// known finding F-C16-1b: with a clean old session the old teardown ends the new
		// connection through the delete watch; nothing to deliver to
		return
	}
	q := byte(verifInt("qos", 0, 1))
	verifAssert(cl2.processPacket(vSubscribePacket(5, []string{"t/2"}, []byte{q})) == nil, "subscribe-accepted")
	for len(cl2.writeCh) > 0 {
		<-cl2.writeCh // SUBACK
	}
	b.sendMsgToClient(nil, "t/2", []byte{7}, q)
	verifAssert(len(cl2.writeCh) == 1, "message-delivered-to-the-connection-that-holds-the-client-id")
	verifCover("delivered-after-takeover")
}

// verifC15_ResendOnRestoredSession: QoS1 at-least-once for a session that was restored from
// storage (reconnect with cleanSession=false on a broker that does not have the session in
// memory) as well as for a fresh one: the unacknowledged message is retransmitted on the resend
// timer until it is acknowledged, and not afterwards.
func verifC15_ResendOnRestoredSession() {
	b := vC16Broker(0)
	vResendTick = make(chan time.Time, 4)
	var s *Session
	if verifBool("sessionRestoredFromStorage") {
		vDB["stored-c"] = &SessionInfo{EGName: "eg", Name: "mqtt", ClientID: "c", Topics: map[string]int{"t/1": 1}}
		vStore.kv[sessionStoreKey("c")] = "stored-c"
		s = b.sessMgr.get("c")
		verifCover("restored-from-storage")
	} else {
		connect := packets.NewControlPacket(packets.Connect).(*packets.ConnectPacket)
		connect.ClientIdentifier = "c"
		s = b.sessMgr.newSessionFromConn(connect)
	}
	verifAssert(s != nil, "session-available")
	cl := vClient(b, "c", 4)
	cl.session = s
	b.clients["c"] = cl
	s.publish(nil, "t/1", []byte{9}, QoS1)
	verifAssert(len(cl.writeCh) == 1, "first-transmission")
	first := (<-cl.writeCh).(*packets.PublishPacket)
	vResendTick <- time.Time{}
	verifQuiesce()
	verifAssert(len(cl.writeCh) == 1, "unacknowledged-message-retransmitted-on-the-resend-timer")
	if len(cl.writeCh) == 1 {
		again := (<-cl.writeCh).(*packets.PublishPacket)
		verifAssert(again.MessageID == first.MessageID, "retransmission-keeps-the-packet-id")
	}
	ack := packets.NewControlPacket(packets.Puback).(*packets.PubackPacket)
	ack.MessageID = first.MessageID
	verifAssert(cl.processPacket(ack) == nil, "puback-accepted")
	vResendTick <- time.Time{}
	verifQuiesce()
	verifAssert(len(cl.writeCh) == 0, "acknowledged-message-not-retransmitted")
	s.close()
}

// ---- persistence of session changes ----------------------------------------------------------

var vEncodeSeq int

var vPersistTopics = []string{"t/1", "t/2", "t/3"}

// vSessionEncode replaces Session.encode (YAML): the text lists the subscriptions with their QoS
func vSessionEncode(s *Session) (string, error) {
	out := ""
	for _, t := range vPersistTopics {
		if q, ok := s.info.Topics[t]; ok {
			out += t + "=" + []string{"0", "1", "2"}[q] + ";"
		}
	}
	return out, nil
}

// verifC16_SessionPersist: the REAL Session.store and SessionManager.doStore. A session change
// that was acknowledged (SUBACK sent) before the connection ended must reach the store, and
// the store must end with the LATEST state of the session - so that a reconnect with
// cleanSession=false on a fresh broker (restart, another member) gets the subscriptions back.
func verifC16_SessionPersist() {
	b := vC16Broker(0)
	sm := &SessionManager{broker: b, store: vStore, storeCh: make(chan SessionStore), done: make(chan struct{})}
	verifInitMaps(sm)
	b.sessMgr = sm
	go sm.doStore()
	connect := packets.NewControlPacket(packets.Connect).(*packets.ConnectPacket)
	connect.ClientIdentifier, connect.CleanSession = "c", false
	s := &Session{}
	s.init(sm, b, connect)
	changes := verifBound("changes")
	want := ""
	for i := 0; i < changes; i++ {
		s.subscribe([]string{vPersistTopics[i]}, []byte{1}) // the real Session.subscribe (updates and stores)
		want += vPersistTopics[i] + "=1;"
	}
	if verifBool("connectionEndsRightAway") {
		s.close()
		verifCover("connection-ended-with-writes-in-flight")
	}
	verifQuiesce()
	got, ok := vStore.kv[sessionStoreKey("c")]
	verifAssert(ok, "acknowledged-session-change-reaches-the-store")
	if ok {
		verifAssert(got == want, "store-ends-with-the-latest-session-state")
	}
}

// verifC16_ResubscribePersist: one change at a time (no two writes in flight, so independent of
// F-C16-3): subscribe, re-subscribe the same filter with another QoS, unsubscribe - after each
// step the stored session is the session, so a resume from storage restores exactly it.
func verifC16_ResubscribePersist() {
	b := vC16Broker(0)
	sm := &SessionManager{broker: b, store: vStore, storeCh: make(chan SessionStore), done: make(chan struct{})}
	verifInitMaps(sm)
	b.sessMgr = sm
	go sm.doStore()
	connect := packets.NewControlPacket(packets.Connect).(*packets.ConnectPacket)
	connect.ClientIdentifier, connect.CleanSession = "c", false
	s := &Session{}
	s.init(sm, b, connect)
	q1 := byte(verifInt("firstQoS", 0, 1))
	s.subscribe([]string{"t/1"}, []byte{q1})
	verifQuiesce()
	verifAssert(vStore.kv[sessionStoreKey("c")] == "t/1="+[]string{"0", "1"}[q1]+";", "subscription-persisted")
	switch verifChoose("secondStep", 4) {
	case 3: // the session is resumed from storage (a reconnect with cleanSession=false), then changes
		stored := vStore.kv[sessionStoreKey("c")]
		vDB[stored] = &SessionInfo{EGName: s.info.EGName, Name: s.info.Name, ClientID: "c", Topics: map[string]int{"t/1": int(q1)}}
		s2 := sm.newSessionFromYaml(&stored)
		verifAssert(s2 != nil, "session-restored-from-storage")
		s2.subscribe([]string{"t/2"}, []byte{1})
		verifQuiesce()
		verifAssert(vStore.kv[sessionStoreKey("c")] == "t/1="+[]string{"0", "1"}[q1]+";t/2=1;", "change-of-a-resumed-session-persisted")
		verifCover("resumed-session-changed")
	case 0: // the same filter again with the other QoS
		s.subscribe([]string{"t/1"}, []byte{1 - q1})
		verifQuiesce()
		verifAssert(vStore.kv[sessionStoreKey("c")] == "t/1="+[]string{"0", "1"}[1-q1]+";", "re-subscription-with-another-qos-persisted")
		verifCover("qos-changed")
	case 1: // another filter
		s.subscribe([]string{"t/2"}, []byte{1})
		verifQuiesce()
		verifAssert(vStore.kv[sessionStoreKey("c")] == "t/1="+[]string{"0", "1"}[q1]+";t/2=1;", "second-subscription-persisted")
	case 2:
		s.unsubscribe([]string{"t/1"})
		verifQuiesce()
		verifAssert(vStore.kv[sessionStoreKey("c")] == "", "unsubscription-persisted")
		verifCover("unsubscribed")
	}
}

// ---- subscriptions of a client over its connection life -------------------------------------

func vSubscribePacket(id uint16, topics []string, qoss []byte) *packets.SubscribePacket {
	sub := packets.NewControlPacket(packets.Subscribe).(*packets.SubscribePacket)
	sub.Topics, sub.Qoss, sub.MessageID = topics, qoss, id
	return sub
}

func vRoutedQoS(b *Broker, topic, cid string) (byte, bool) {
	subs, _ := b.topicMgr.findSubscribers(topic)
	q, ok := subs[cid]
	return q, ok
}

// verifC14_ClientSubscriptions: through the REAL connection handling (handleConn, readLoop,
// processSubscribe, closeAndDelSession): a client subscribes two filters with different QoS,
// possibly sends a SUBSCRIBE with a malformed filter in between, and drops. While connected
// it is routed with the QoS it asked for; after the drop nothing of it is left in the routing
// table; after a reconnect with cleanSession=false every filter is back WITH ITS OWN QoS, and
// the malformed filter was never accepted.
func verifC14_ClientSubscriptions() {
	b := vC16Broker(0)
	q1, q2 := byte(verifInt("qos.f1", 0, 1)), byte(verifInt("qos.f2", 0, 1))
	connect := func(clean bool) *vConn { return vConnect("c", clean, "") }
	c1 := connect(false)
	// the two filters are subscribed in either order (the session keeps them in a map)
	first, second := vSubscribePacket(1, []string{"a/1"}, []byte{q1}), vSubscribePacket(3, []string{"b/+"}, []byte{q2})
	if verifBool("secondFilterSubscribedFirst") {
		first, second = second, first
	}
	c1.script = append(c1.script, first)
	malformed := verifBool("malformedSubscribeInBetween")
	if malformed {
		c1.script = append(c1.script, vSubscribePacket(2, []string{"zz/#/x"}, []byte{1}))
		verifCover("malformed-subscribe")
	}
	c1.script = append(c1.script, second)
	// the first filter may be subscribed once more, with the other QoS: the later SUBSCRIBE counts
	if !malformed && verifBool("firstFilterSubscribedAgainWithTheOtherQoS") {
		q1 = 1 - q1
		c1.script = append(c1.script, vSubscribePacket(4, []string{"a/1"}, []byte{q1}))
		verifCover("re-subscribed-with-another-qos")
	}
	go b.handleConn(c1)
	verifQuiesce()
	verifAssert(c1.connack == int(packets.Accepted), "connected")
	g1, ok1 := vRoutedQoS(b, "a/1", "c")
	g2, ok2 := vRoutedQoS(b, "b/x", "c")
	if !malformed {
		verifAssert(ok1 && g1 == q1 && ok2 && g2 == q2, "routed-with-the-qos-of-its-own-subscription")
	} else {
		// the connection may be kept or ended after the malformed SUBSCRIBE; what was
		// subscribed before it is routed as long as the client is connected
		if cl := b.clients["c"]; cl != nil && !cl.disconnected() {
			verifAssert((ok1 && g1 == q1) || (ok2 && g2 == q2), "routed-with-the-qos-of-its-own-subscription")
		}
	}
	if s := b.sessMgr.get("c"); s != nil {
		_, has := s.info.Topics["zz/#/x"]
		verifAssert(!has, "malformed-filter-is-not-recorded-in-the-session")
	}
	close(c1.drop)
	verifQuiesce()
	_, r1 := vRoutedQoS(b, "a/1", "c")
	_, r2 := vRoutedQoS(b, "b/x", "c")
	verifAssert(!r1 && !r2, "no-routing-residue-after-the-client-is-gone")
	// reconnect, resuming the session
	c2 := connect(false)
	go b.handleConn(c2)
	verifQuiesce()
	if c2.connack == int(packets.Accepted) && !malformed {
		g1, ok1 = vRoutedQoS(b, "a/1", "c")
		g2, ok2 = vRoutedQoS(b, "b/x", "c")
		verifAssert(ok1 && ok2, "resumed-session-restores-every-subscription")
		verifAssert(g1 == q1 && g2 == q2, "resumed-subscriptions-keep-their-own-qos")
		if q1 != q2 {
			verifCover("filters-with-different-qos-resumed")
		}
	}
}

func vUnsubscribePacket(id uint16, topics []string) *packets.UnsubscribePacket {
	u := packets.NewControlPacket(packets.Unsubscribe).(*packets.UnsubscribePacket)
	u.Topics, u.MessageID = topics, id
	return u
}

// verifC14_MultiFilterPackets: SUBSCRIBE / UNSUBSCRIBE packets that list several filters, one of
// them malformed, in either position, through the REAL handleConn / readLoop / processSubscribe /
// processUnsubscribe. The routing table and the session (what the broker acknowledged, persists
// and restores) agree on every filter; a filter the client unsubscribed (the broker always
// answers UNSUBACK) is not routed any more; when the client is gone nothing of it is routed.
func verifC14_MultiFilterPackets() {
	b := vC16Broker(0)
	c1 := vConnect("c", false, "")
	// the client may have registered a will; when its connection is lost the will is published
	// through the Publish pipeline, which may let it pass or reject it - the teardown of the
	// connection does not depend on that
	if verifBool("clientHasAWill") {
		cp := c1.script[0].(*packets.ConnectPacket)
		cp.WillFlag, cp.WillTopic, cp.WillMessage, cp.WillQos = true, "w/1", []byte{1}, 0
		b.pipelines[Publish] = "pub"
		b.muxMapper = &vMapper{&vHandler{verdict: verifChoose("willPublicationVerdict", 2)}}
		verifCover("client-with-a-will")
	}
	c1.script = append(c1.script, vSubscribePacket(1, []string{"a/1"}, []byte{1}))
	bad := "zz/#/x"
	kind := verifChoose("packetWithMalformedFilter", 6)
	switch kind {
	case 5: // one SUBSCRIBE lists the same filter twice with different QoS: the later entry counts
		c1.script = append(c1.script, vSubscribePacket(2, []string{"c/3", "c/3"}, []byte{1, 0}))
	case 4: // the rejected SUBSCRIBE lists a filter the client already holds
		c1.script = append(c1.script, vSubscribePacket(2, []string{"a/1", bad}, []byte{0, 1}))
	case 0:
		c1.script = append(c1.script, vSubscribePacket(2, []string{"c/3", bad}, []byte{1, 1}))
	case 1:
		c1.script = append(c1.script, vSubscribePacket(2, []string{bad, "c/3"}, []byte{1, 1}))
	case 2:
		c1.script = append(c1.script, vUnsubscribePacket(2, []string{"a/1", bad}))
	case 3:
		c1.script = append(c1.script, vUnsubscribePacket(2, []string{bad, "a/1"}))
	}
	go b.handleConn(c1)
	verifQuiesce()
	verifAssert(c1.connack == int(packets.Accepted), "connected")
	cl := b.clients["c"]
	connected := cl != nil && !cl.disconnected()
	if connected {
		sess := b.sessMgr.get("c")
		verifAssert(sess != nil, "connected-client-has-a-session")
		for _, f := range []string{"a/1", "c/3"} {
			_, inSession := sess.info.Topics[f]
			verifAssert(vRouted(b, f, "c") == inSession, "routing-table-and-session-agree-on-every-filter")
			if q, ok := vRoutedQoS(b, f, "c"); ok && inSession {
				verifAssert(int(q) == sess.info.Topics[f], "routing-table-and-session-agree-on-the-qos")
			}
		}
		_, hasBad := sess.info.Topics[bad]
		verifAssert(!hasBad, "malformed-filter-is-not-recorded-in-the-session")
		if kind == 5 {
			q, ok := vRoutedQoS(b, "c/3", "c")
			verifAssert(ok && q == 0, "later-entry-of-a-repeated-filter-counts")
			verifCover("filter-repeated-in-one-packet")
		} else if kind == 2 || kind == 3 {
			verifAssert(!vRouted(b, "a/1", "c"), "unsubscribed-filter-is-not-routed-any-more")
			verifCover("unsubscribe-listing-a-malformed-filter")
		} else {
			verifAssert(vRouted(b, "a/1", "c"), "earlier-subscription-survives-a-rejected-packet")
			verifCover("subscribe-listing-a-malformed-filter")
		}
	}
	// the connection ends: the network drops it, or the broker closes the client first (a
	// pipeline asked for the disconnect) and the read loop then sees the closed socket
	if connected && verifBool("closedByTheBrokerFirst") {
		cl.close()
		verifCover("closed-by-the-broker")
	}
	close(c1.drop)
	verifQuiesce()
	for _, f := range []string{"a/1", "c/3"} {
		verifAssert(!vRouted(b, f, "c"), "no-routing-residue-after-the-client-is-gone")
	}
}

// ---- retransmission follows the connection that holds the session ---------------------------

var vResendTick chan time.Time

func vResendTicker(d time.Duration) *time.Ticker { return &time.Ticker{C: vResendTick} }
func vResendTickerStop(t *time.Ticker)           {}

// verifC16_ResendAfterTakeover: an unacknowledged QoS1 message of a persistent session is
// retransmitted by the REAL backgroundResendPending to whichever connection holds the client
// id at that moment: after a takeover (cleanSession=false, same session) to the new
// connection, never to the superseded one.
func verifC16_ResendAfterTakeover() {
	b := vC16Broker(0)
	cA := vClient(b, "c", 4)
	b.clients["c"] = cA
	s := cA.session
	s.info.CleanFlag = false
	b.sessMgr.sessionMap.Store("c", s)
	s.done = make(chan struct{})
	s.pending[7] = newMsg("t/1", []byte{1}, QoS1)
	s.pendingQueue = append(s.pendingQueue, 7)
	vResendTick = make(chan time.Time, 4)
	go s.backgroundResendPending()
	ticksBefore := verifChoose("resendTicksBeforeTheTakeover", 2)
	for i := 0; i < ticksBefore; i++ {
		vResendTick <- time.Time{}
		verifQuiesce()
		verifAssert(len(cA.writeCh) == 1, "unacknowledged-message-retransmitted-to-the-connected-client")
		<-cA.writeCh
	}
	if verifBool("takeoverWithCleanSession") {
		// takeover with cleanSession=true through the REAL setSession: the previous session is
		// discarded - its unacknowledged message is never delivered to the new connection
		cB := vClient(b, "c", 4)
		connect := packets.NewControlPacket(packets.Connect).(*packets.ConnectPacket)
		connect.ClientIdentifier, connect.CleanSession = "c", true
		b.Lock()
		b.setSession(cB, connect)
		b.clients["c"] = cB
		b.Unlock()
		verifAssert(cB.session != s, "clean-session-connect-gets-a-new-session")
		go cA.close()
		// the resend timer fires after the takeover has settled (a tick that is already due at
		// the very moment the old session is closed may still be served by Go's select: that
		// window is outside this harness, see DESIGN section 8)
		verifQuiesce()
		vResendTick <- time.Time{}
		verifQuiesce()
		vResendTick <- time.Time{}
		verifQuiesce()
		verifAssert(len(cB.writeCh) == 0, "discarded-sessions-messages-never-reach-the-new-connection")
		verifAssert(len(cA.writeCh) == 0, "nothing-is-sent-to-the-superseded-connection")
		verifCover("clean-session-takeover")
		cB.session.close()
		return
	}
	// takeover with cleanSession=false: the new connection continues the session
	cB := vClient(b, "c", 4)
	cB.session = s
	b.Lock()
	b.clients["c"] = cB
	b.Unlock()
	go cA.close()
	vResendTick <- time.Time{}
	verifQuiesce()
	verifAssert(len(cB.writeCh) == 1, "after-a-takeover-the-retransmission-goes-to-the-new-connection")
	verifAssert(len(cA.writeCh) == 0, "nothing-is-sent-to-the-superseded-connection")
	if len(cB.writeCh) == 1 {
		p := (<-cB.writeCh).(*packets.PublishPacket)
		verifAssert(p.MessageID == 7 && p.TopicName == "t/1", "retransmission-keeps-packet-id-and-topic")
	}
	if ticksBefore > 0 {
		verifCover("resent-before-and-after-the-takeover")
	}
	s.close()
}
