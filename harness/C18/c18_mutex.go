package cluster

import (
	"context"
	"errors"
	"sync"
	"time"

	"go.etcd.io/etcd/client/v3/concurrency"

	"github.com/megaease/easegress/pkg/option"
)

// ---------------------------------------------------------------------------
// C18 part 1, package cluster: cluster.mutex.Lock/Unlock. etcd is replaced by an
// IDEAL LEASE-SCOPED LOCK (this stub is the trusted part and is said so): Lock
// succeeds at once when the same session already holds the key (the re-entrancy
// that makes the local sync.Mutex necessary), blocks while another session holds
// it, or fails by free choice leaving the key unheld; Unlock releases the key and
// may report an error.
// ---------------------------------------------------------------------------

var (
	vSessionOf = map[*concurrency.Mutex]int{}
	vHolder    int        // 0 = free, otherwise the session id holding the key
	vKey       sync.Mutex // the key in etcd
)

var vMemberOfSession = map[*concurrency.Session]int{}

func vMemberOf(em *concurrency.Mutex) int {
	if id, ok := vSessionOf[em]; ok {
		return id
	}
	// a mutex made by the real concurrency.NewMutex: it belongs to its session
	return vMemberOfSession[verifGetField(em, "s").(*concurrency.Session)]
}

func vEtcdLock(em *concurrency.Mutex, ctx context.Context) error {
	me := vMemberOf(em)
	if verifBool("etcdLockFails") {
		return errors.New("etcd: lock failed / timed out")
	}
	if vHolder == me {
		return nil // the session already owns the key: etcd answers at once
	}
	vKey.Lock() // blocks while another session holds the key
	vHolder = me
	return nil
}

func vEtcdUnlock(em *concurrency.Mutex, ctx context.Context) error {
	vHolder = 0
	vKey.Unlock()
	if verifBool("etcdUnlockReportsError") {
		return errors.New("etcd: unlock error")
	}
	return nil
}

// vWithTimeout replaces context.WithTimeout. The passage of time is not modelled: the etcd
// stub decides by itself whether an acquisition times out. In the harnesses that set
// vDeadlinesPass the deadline of a request may in addition pass at ANY moment while the
// caller is still inside Lock (a goroutine cancels the context with DeadlineExceeded).
var vDeadlinesPass bool

type vDeadlineCtx struct {
	context.Context
	expired *bool
}

func (c vDeadlineCtx) Err() error {
	if *c.expired {
		return context.DeadlineExceeded
	}
	return c.Context.Err()
}

func vWithTimeout(parent context.Context, d time.Duration) (context.Context, context.CancelFunc) {
	ctx, cancel := context.WithCancel(parent)
	if vDeadlinesPass && verifBool("deadlinePassesAtSomeMoment") {
		expired := false
		go func() {
			expired = true
			cancel()
		}()
		return vDeadlineCtx{ctx, &expired}, cancel
	}
	return ctx, cancel
}

func verifC18_Mutex() {
	vHolder = 0
	// member 1: one mutex object shared by its goroutines; member 2: its own object, other session
	e1, e2 := &concurrency.Mutex{}, &concurrency.Mutex{}
	vSessionOf[e1], vSessionOf[e2] = 1, 2
	m1 := &mutex{m: e1, timeout: time.Second}
	m2 := &mutex{m: e2, timeout: time.Second}
	inCritical := 0
	entered := 0
	var wg sync.WaitGroup
	worker := func(m *mutex) {
		defer wg.Done()
		if err := m.Lock(); err != nil {
			verifCover("acquisition-failed")
			return
		}
		inCritical++
		entered++
		verifAssert(inCritical == 1, "at-most-one-holder-across-goroutines-and-members")
		verifYield()
		verifAssert(inCritical == 1, "at-most-one-holder-across-goroutines-and-members")
		inCritical--
		m.Unlock()
	}
	n1 := verifBound("goroutinesOnMember1")
	for i := 0; i < n1; i++ {
		wg.Add(1)
		go worker(m1)
	}
	if verifBound("secondMember") == 1 {
		wg.Add(1)
		go worker(m2)
	}
	wg.Wait() // a failed acquisition must leave the mutex free: nobody is stuck
	if entered >= 2 {
		verifCover("two-holders-in-sequence")
	}
}

// verifC18_MutexTimeout: the request timeout of a waiting caller may pass at any moment -
// while it waits for the member's own lock, while it waits for etcd, after it got both. Whatever
// Lock does about it, a caller that was told "failed" holds nothing, the holder is not
// disturbed (at most one holder), and nobody is left stuck.
func verifC18_MutexTimeout() {
	vHolder = 0
	vDeadlinesPass = true
	e1 := &concurrency.Mutex{}
	vSessionOf[e1] = 1
	m1 := &mutex{m: e1, timeout: time.Second}
	inCritical := 0
	var wg sync.WaitGroup
	worker := func() {
		defer wg.Done()
		if err := m1.Lock(); err != nil {
			verifCover("acquisition-failed")
			return
		}
		inCritical++
		verifAssert(inCritical == 1, "at-most-one-holder-across-goroutines")
		verifYield()
		verifAssert(inCritical == 1, "at-most-one-holder-across-goroutines")
		inCritical--
		verifAssert(m1.Unlock() == nil || true, "unlock-returns")
	}
	n := verifBound("goroutinesOnMember1")
	for i := 0; i < n; i++ {
		wg.Add(1)
		go worker()
	}
	wg.Wait()
	vDeadlinesPass = false
}

// verifC18_MutexFromCluster: the mutexes are obtained the way the admin API obtains them, from
// the REAL cluster.Mutex(name) of each member (session cached in the cluster object, real
// concurrency.NewMutex): a primary member whose initial-cluster lists one peer and a secondary
// member that joined it. At most one holder across both members.
func verifC18_MutexFromCluster() {
	vHolder = 0
	s1, s2 := &concurrency.Session{}, &concurrency.Session{}
	vMemberOfSession[s1], vMemberOfSession[s2] = 1, 2
	o1 := &option.Options{ClusterRole: "primary"}
	o1.Cluster.InitialCluster = map[string]string{"m1": "http://10.0.0.1:2380"}
	o2 := &option.Options{ClusterRole: "secondary"}
	o2.Cluster.PrimaryListenPeerURLs = []string{"http://10.0.0.1:2380"}
	c1 := &cluster{opt: o1, requestTimeout: time.Second, session: s1}
	c2 := &cluster{opt: o2, requestTimeout: time.Second, session: s2}
	m1, err1 := c1.Mutex("/config/lock")
	m2, err2 := c2.Mutex("/config/lock")
	verifAssert(err1 == nil && err2 == nil && m1 != nil && m2 != nil, "mutexes-created")
	inCritical := 0
	entered := 0
	var wg sync.WaitGroup
	worker := func(m Mutex) {
		defer wg.Done()
		if err := m.Lock(); err != nil {
			return
		}
		inCritical++
		entered++
		verifAssert(inCritical == 1, "at-most-one-holder-across-members")
		verifYield()
		verifAssert(inCritical == 1, "at-most-one-holder-across-members")
		inCritical--
		m.Unlock()
	}
	wg.Add(2)
	go worker(m1)
	go worker(m2)
	wg.Wait()
	if entered == 2 {
		verifCover("both-members-held-the-lock-in-turn")
	}
}
