package api

import (
	"errors"
	"io"
	"net/http"
	"net/url"
	"sync"

	"github.com/megaease/easegress/pkg/cluster"
	"github.com/megaease/easegress/pkg/supervisor"
)

// ---------------------------------------------------------------------------
// C18 part 2, package api: createObject / updateObject / deleteObject /
// upgradeConfigVersion / _plusOneVersion / _getObject / _putObject run
// concurrently against an in-memory store behind the cluster lock.
// ---------------------------------------------------------------------------

// vStore is one member's handle on the cluster: the key space, the store's own linearisation
// and the distributed lock are shared by all members; the etcd session is the member's.
type vStore struct {
	cluster.Cluster
	kv     map[string]string
	mu     *sync.Mutex // the store itself is linearisable (etcd)
	etcd   *vEtcdLock
	member int
	// etcd refuses the writes of OBJECT keys (unavailable, request too large, ...)
	failObjectWrites bool
}

// vEtcdLock: the lock key in etcd. As with the real concurrency.Mutex, the key belongs to a
// SESSION: a second mutex object of the same member acquires it at once while the member
// holds it - only the member-local sync.Mutex inside one cluster.Mutex object keeps the
// goroutines of a member apart. (The real cluster.mutex is the subject of verifC18_Mutex.)
type vEtcdLock struct {
	mu     sync.Mutex
	held   sync.Mutex
	holder int
	depth  int
}

var errLockTimeout = errors.New("context deadline exceeded")

type vLock struct {
	local  sync.Mutex
	etcd   *vEtcdLock
	member int
}

// vLockFailures: how many acquisitions may still time out in etcd (set by the harness). A failed
// acquisition gives the member's own lock back, as cluster.mutex.Lock does.
var vLockFailures int

func (l *vLock) Lock() error {
	l.local.Lock()
	if vLockFailures > 0 && verifBool("lockAcquisitionTimesOut") {
		vLockFailures--
		l.local.Unlock()
		return errLockTimeout
	}
	e := l.etcd
	e.mu.Lock()
	if e.depth > 0 && e.holder == l.member {
		e.depth++
		e.mu.Unlock()
		return nil
	}
	e.mu.Unlock()
	e.held.Lock()
	e.mu.Lock()
	e.holder, e.depth = l.member, 1
	e.mu.Unlock()
	return nil
}

func (l *vLock) Unlock() error {
	e := l.etcd
	e.mu.Lock()
	e.depth--
	if e.depth == 0 {
		e.holder = -1
		e.held.Unlock()
	}
	e.mu.Unlock()
	l.local.Unlock()
	return nil
}

func (s *vStore) Layout() *cluster.Layout { return &cluster.Layout{} }
func (s *vStore) Get(key string) (*string, error) {
	s.mu.Lock()
	defer s.mu.Unlock()
	if v, ok := s.kv[key]; ok {
		return &v, nil
	}
	return nil, nil
}
func (s *vStore) Put(key, value string) error {
	s.mu.Lock()
	defer s.mu.Unlock()
	if s.failObjectWrites && len(key) > len("/config/objects/") && key[:len("/config/objects/")] == "/config/objects/" {
		return errors.New("etcd: write refused")
	}
	s.kv[key] = value
	return nil
}
func (s *vStore) Delete(key string) error {
	s.mu.Lock()
	defer s.mu.Unlock()
	if s.failObjectWrites && len(key) > len("/config/objects/") && key[:len("/config/objects/")] == "/config/objects/" {
		return errors.New("etcd: write refused")
	}
	delete(s.kv, key)
	return nil
}
// every call creates a new mutex object on the member's session, as cluster.Mutex does
func (s *vStore) Mutex(name string) (cluster.Mutex, error) {
	return &vLock{etcd: s.etcd, member: s.member}, nil
}

func vConfigVersionKey(l *cluster.Layout) string          { return "/config/version" }
func vConfigObjectKey(l *cluster.Layout, n string) string { return "/config/objects/" + n }

// configuration texts are tokens "name|kind|payload"
type vTok struct{ name, kind string }

var vToks = map[string]vTok{}

func vNewSpec(s *supervisor.Supervisor, cfg string) (*supervisor.Spec, error) {
	t := vToks[cfg]
	spec := &supervisor.Spec{}
	verifSetField(spec, "meta", &supervisor.MetaSpec{Name: t.name, Kind: t.kind})
	verifSetField(spec, "yamlConfig", cfg)
	return spec, nil
}

var vNames = map[*http.Request]string{}

func vURLParam(r *http.Request, key string) string { return vNames[r] }

func vHandleAPIError(w http.ResponseWriter, r *http.Request, code int, err error) { w.WriteHeader(code) }

// net/http contract of a ResponseWriter: the header map is sent with the FIRST WriteHeader (or
// Write); what a handler sets afterwards never reaches the client.
type vRespWriter struct {
	hdr    http.Header
	status int
	wrote  bool
	sentV  string // X-Config-Version as it was when the headers were sent
}

func (w *vRespWriter) Header() http.Header { return w.hdr }
func (w *vRespWriter) WriteHeader(c int) {
	if !w.wrote {
		w.status, w.wrote, w.sentV = c, true, w.hdr.Get(ConfigVersionKey)
	}
}
func (w *vRespWriter) Write(p []byte) (int, error) {
	if !w.wrote {
		w.WriteHeader(200)
	}
	return len(p), nil
}

// sentVersion: the X-Config-Version the client receives (a handler that returns without writing
// gets an implicit WriteHeader(200) with the headers as they are then).
func (w *vRespWriter) sentVersion() string {
	if w.wrote {
		return w.sentV
	}
	return w.hdr.Get(ConfigVersionKey)
}

type vBodyReader struct {
	s    string
	done bool
}

func (b *vBodyReader) Read(p []byte) (int, error) {
	if b.done {
		return 0, io.EOF
	}
	b.done = true
	return copy(p, b.s), io.EOF
}
func (b *vBodyReader) Close() error { return nil }


type vOp struct {
	kind    int // 0 create, 1 update, 2 delete
	name    string
	objKind string
	tok     string
	w       *vRespWriter
	failed  bool
}

func verifC18_AdminAPI() { vAdminAPI(true) }

// verifC18_AdminMembers: the same contract when the requests go, one after the other, to
// DIFFERENT members of the cluster (each member runs its own api.Server; they share nothing
// but the store and the cluster lock).
func verifC18_AdminMembers() { vAdminAPI(false) }

func vAdminAPI(concurrent bool) {
	store := &vStore{kv: map[string]string{}, mu: &sync.Mutex{}, etcd: &vEtcdLock{holder: -1}, member: 0}
	store1 := &vStore{kv: store.kv, mu: store.mu, etcd: store.etcd, member: 1}
	members := []*Server{{cluster: store, super: &supervisor.Supervisor{}}, {cluster: store1, super: &supervisor.Supervisor{}}}
	v0 := int64(7)
	store.kv["/config/version"] = "7"
	names := []string{"a", "b"}
	kinds := []string{"K1", "K2"}
	// an object "a" of kind K1 may exist beforehand
	vPreExisted = verifBool("aExists")
	if vPreExisted {
		vToks["pre"] = vTok{"a", "K1"}
		store.kv["/config/objects/a"] = "pre"
	}
	n := verifBound("requests")
	ops := make([]*vOp, n)
	toks := []string{"t0", "t1", "t2", "t3"}
	for i := 0; i < n; i++ {
		op := &vOp{kind: verifChoose("op", 3), name: names[verifChoose("name", 2)], objKind: kinds[verifChoose("kind", 2)], tok: toks[i],
			w: &vRespWriter{hdr: http.Header{}}}
		vToks[op.tok] = vTok{op.name, op.objKind}
		ops[i] = op
	}
	var wg sync.WaitGroup
	for _, op := range ops {
		op := op
		s := members[0]
		if !concurrent {
			s = members[verifChoose("member", 2)]
			if s == members[1] {
				verifCover("request-to-another-member")
			}
		}
		wg.Add(1)
		run := func() {
			defer wg.Done()
			r := &http.Request{Method: "X", URL: &url.URL{Path: "/objects"}, Body: &vBodyReader{s: op.tok}}
			// as in the real router: the config-version attacher middleware runs first (it
			// stamps the response with the version current at arrival), then the handler
			dm := &dynamicMux{server: s}
			dm.newConfigVersionAttacher(http.HandlerFunc(func(w http.ResponseWriter, r *http.Request) {
				switch op.kind {
				case 0:
					s.createObject(w, r)
				case 1:
					vNames[r] = op.name
					s.updateObject(w, r)
				case 2:
					vNames[r] = op.name
					s.deleteObject(w, r)
				}
			})).ServeHTTP(op.w, r)
		}
		if concurrent {
			go run()
		} else {
			run()
		}
	}
	wg.Wait()

	// successful mutations carry distinct versions v0+1 .. v0+m without gaps
	succ := 0
	var seen [6]bool
	for _, op := range ops {
		ok := op.w.status == 0 || op.w.status == 200 || op.w.status == 201
		if !ok {
			// a refused request carries the version that was current when it arrived, never a new one
			fv := op.w.sentVersion()
			old := false
			for d := 0; d <= n; d++ {
				if fv == vItoa(v0+int64(d)) {
					old = true
				}
			}
			verifAssert(old, "failed-request-gets-no-new-version")
			op.failed = true
			continue
		}
		succ++
		v := op.w.sentVersion()
		k := -1
		for d := 1; d <= n; d++ {
			if v == vItoa(v0+int64(d)) {
				k = d
			}
		}
		verifAssert(k >= 1, "version-in-range")
		if k >= 1 {
			verifAssert(!seen[k], "versions-are-distinct")
			seen[k] = true
		}
	}
	for d := 1; d <= succ; d++ {
		verifAssert(seen[d], "versions-without-gaps")
	}
	verifAssert(store.kv["/config/version"] == vItoa(v0+int64(succ)), "stored-version-counts-successful-mutations")
	if succ == n && n >= 2 {
		verifCover("all-succeeded")
	}
	if succ < n {
		verifCover("some-rejected")
	}
	// the stored objects equal the sequential application of the successful requests in version order
	ref := map[string]string{}
	if vPreExisted {
		ref["a"] = "pre"
	}
	for d := 1; d <= succ; d++ {
		for _, op := range ops {
			if !op.failed && op.w.sentVersion() == vItoa(v0+int64(d)) {
				cur, exists := ref[op.name]
				switch op.kind {
				case 0:
					verifAssert(!exists, "create-of-an-existing-name-must-be-409")
					ref[op.name] = op.tok
				case 1:
					verifAssert(exists && vToks[cur].kind == op.objKind, "update-needs-an-existing-object-of-the-same-kind")
					ref[op.name] = op.tok
				case 2:
					verifAssert(exists, "delete-needs-an-existing-object")
					delete(ref, op.name)
				}
			}
		}
	}
	for _, nm := range names {
		got, ok := store.kv["/config/objects/"+nm]
		want, wok := ref[nm]
		verifAssert(ok == wok && got == want, "store-equals-sequential-application-in-version-order")
	}
}

var vPreExisted bool

func vItoa(v int64) string {
	digits := ""
	if v == 0 {
		return "0"
	}
	for v > 0 {
		digits = string(rune('0'+v%10)) + digits
		v /= 10
	}
	return digits
}

// verifC18_ServerLock: the admin API's own Lock / Unlock (lazily created, cached cluster mutex)
// used by several requests of one member at once, one acquisition possibly timing out: the
// request that was refused panics with a cluster error (answered 5xx by the recoverer) and
// holds nothing; of the others at most one is inside the critical section at any moment, and
// nobody is left stuck.
func verifC18_ServerLock() {
	store := &vStore{kv: map[string]string{}, mu: &sync.Mutex{}, etcd: &vEtcdLock{holder: -1}, member: 0}
	s := &Server{cluster: store, super: &supervisor.Supervisor{}}
	vLockFailures = 1
	inCritical := 0
	entered := 0
	var wg sync.WaitGroup
	worker := func() {
		defer wg.Done()
		refused := false
		func() {
			defer func() {
				if r := recover(); r != nil {
					_, isClusterErr := r.(clusterErr)
					verifAssert(isClusterErr, "failed-acquisition-is-reported-as-a-cluster-error")
					refused = true
				}
			}()
			s.Lock()
		}()
		if refused {
			verifCover("acquisition-failed")
			return
		}
		inCritical++
		entered++
		verifAssert(inCritical == 1, "at-most-one-admin-operation-in-the-critical-section")
		verifYield()
		verifAssert(inCritical == 1, "at-most-one-admin-operation-in-the-critical-section")
		inCritical--
		s.Unlock()
	}
	n := verifBound("requests")
	for i := 0; i < n; i++ {
		wg.Add(1)
		go worker()
	}
	wg.Wait()
	vLockFailures = 0
	if entered >= 2 {
		verifCover("two-holders-in-sequence")
	}
}

// verifC18_FreshCluster: a cluster that has no version key yet. A read-only request passes the
// config-version attacher (which reads the version for its response header) while the first
// mutation runs; a second mutation follows. Reading never writes: the two mutations get the
// versions 1 and 2, and the stored version ends at 2.
func verifC18_FreshCluster() {
	store := &vStore{kv: map[string]string{}, mu: &sync.Mutex{}, etcd: &vEtcdLock{holder: -1}, member: 0}
	s := &Server{cluster: store, super: &supervisor.Supervisor{}}
	dm := &dynamicMux{server: s}
	vToks["f1"], vToks["f2"] = vTok{"a", "K1"}, vTok{"b", "K1"}
	create := func(tok string) *vRespWriter {
		w := &vRespWriter{hdr: http.Header{}}
		r := &http.Request{Method: "X", URL: &url.URL{Path: "/objects"}, Body: &vBodyReader{s: tok}}
		dm.newConfigVersionAttacher(http.HandlerFunc(func(w http.ResponseWriter, r *http.Request) { s.createObject(w, r) })).ServeHTTP(w, r)
		return w
	}
	var wg sync.WaitGroup
	wg.Add(2)
	var w1 *vRespWriter
	go func() { defer wg.Done(); w1 = create("f1") }()
	go func() {
		defer wg.Done()
		w := &vRespWriter{hdr: http.Header{}}
		r := &http.Request{Method: "GET", URL: &url.URL{Path: "/objects"}, Body: &vBodyReader{}}
		dm.newConfigVersionAttacher(http.HandlerFunc(func(w http.ResponseWriter, r *http.Request) {})).ServeHTTP(w, r)
	}()
	wg.Wait()
	w2 := create("f2")
	verifAssert(w1.sentVersion() == "1" && w2.sentVersion() == "2", "versions-grow-by-one-per-successful-mutation")
	verifAssert(store.kv["/config/version"] == "2", "stored-version-counts-successful-mutations")
	verifCover("fresh-cluster")
}

// verifC18_FailedWrite: "versions grow by exactly one per SUCCESSFUL mutation and a failed
// request modifies nothing" when the store refuses the object write of a request (the handler
// panics with a cluster error, the recoverer middleware - as wired in the real router, inside
// the version attacher - answers 503): the request consumes no version, the stored objects are
// as before, and the next successful mutation gets the next version. (A refusal of the VERSION
// write after the object write went through is outside: the two writes are not one transaction
// in the code.)
func verifC18_FailedWrite() {
	store := &vStore{kv: map[string]string{}, mu: &sync.Mutex{}, etcd: &vEtcdLock{holder: -1}, member: 0}
	s := &Server{cluster: store, super: &supervisor.Supervisor{}}
	dm := &dynamicMux{server: s}
	store.kv["/config/version"] = "7"
	exists := verifBool("aExists")
	if exists {
		vToks["pre"] = vTok{"a", "K1"}
		store.kv["/config/objects/a"] = "pre"
	}
	vToks["w1"], vToks["w2"] = vTok{"a", "K1"}, vTok{"b", "K1"}
	run := func(kind int, name, tok string) *vRespWriter {
		w := &vRespWriter{hdr: http.Header{}}
		r := &http.Request{Method: "X", URL: &url.URL{Path: "/objects"}, Body: &vBodyReader{s: tok}}
		dm.newConfigVersionAttacher(dm.newRecoverer(http.HandlerFunc(func(w http.ResponseWriter, r *http.Request) {
			switch kind {
			case 0:
				s.createObject(w, r)
			case 1:
				vNames[r] = name
				s.updateObject(w, r)
			case 2:
				vNames[r] = name
				s.deleteObject(w, r)
			}
		}))).ServeHTTP(w, r)
		return w
	}
	store.failObjectWrites = true
	kind := verifChoose("op", 3)
	w1 := run(kind, "a", "w1")
	store.failObjectWrites = false
	verifAssert(w1.status >= 400, "request-whose-write-is-refused-fails")
	if w1.status == 503 {
		verifCover("object-write-refused")
	}
	verifAssert(w1.sentVersion() == "7", "failed-request-gets-no-new-version")
	verifAssert(store.kv["/config/version"] == "7", "failed-request-consumes-no-version")
	v, ok := store.kv["/config/objects/a"]
	verifAssert(ok == exists && (!ok || v == "pre"), "failed-request-modifies-nothing")
	w2 := run(0, "b", "w2")
	verifAssert(w2.status == 201 && w2.sentVersion() == "8" && store.kv["/config/version"] == "8", "versions-grow-by-one-per-successful-mutation")
}
