package ratelimiter

import (
	stdcontext "context"
	"net/http"
	"net/url"
	"time"

	"github.com/megaease/easegress/pkg/context"
	"github.com/megaease/easegress/pkg/protocols/httpprot"
	librl "github.com/megaease/easegress/pkg/util/ratelimiter"
	"github.com/megaease/easegress/pkg/util/urlrule"
)

// ---------------------------------------------------------------------------
// C09 filter-level harnesses, package filters/ratelimiter.
// ---------------------------------------------------------------------------

var vMono int64

const vHasMonotonic = 1 << 63

func vNow() time.Time {
	var t time.Time
	verifSetField(&t, "wall", uint64(vHasMonotonic|(4000000000<<30)))
	verifSetField(&t, "ext", vMono)
	return t
}

func vAdd(t time.Time, d time.Duration) time.Time {
	ext := verifGetField(&t, "ext").(int64)
	verifSetField(&t, "ext", ext+int64(d))
	return t
}

var vTimerWaits int
var vLastTimer time.Duration

func vNewTimer(d time.Duration) *time.Timer {
	vTimerWaits++
	vLastTimer = d
	ch := make(chan time.Time, 1)
	ch <- time.Time{}
	return &time.Timer{C: ch}
}

func vTimerStop(t *time.Timer) bool { return true }

func vTokens(rl *librl.RateLimiter) int { return verifGetField(rl, "tokens").(int) }

// vRule0ViaDefault: rule 0 names no policy of its own and gets "strict" through defaultPolicyRef
var vRule0ViaDefault bool

func vSpec(p1limit int) *Spec {
	s := &Spec{
		Policies: []*Policy{
			{Name: "strict", TimeoutDuration: "0s", LimitRefreshPeriod: "1h", LimitForPeriod: p1limit},
			{Name: "loose", TimeoutDuration: "0s", LimitRefreshPeriod: "1h", LimitForPeriod: 100},
		},
		DefaultPolicyRef: "loose",
	}
	// rule 0: exact path, methods POST; rule 1: prefix, any method
	s.URLs = []*URLRule{
		{URLRule: urlrule.URLRule{Methods: []string{"POST"}, URL: urlrule.StringMatch{Exact: verifString("rule0.exact", 2)}, PolicyRef: "strict"}},
		{URLRule: urlrule.URLRule{URL: urlrule.StringMatch{Prefix: verifString("rule1.prefix", 2)}}},
	}
	verifAssume(s.URLs[0].URL.Exact != "" && s.URLs[1].URL.Prefix != "")
	if vRule0ViaDefault {
		s.DefaultPolicyRef = "strict"
		s.URLs[0].PolicyRef = ""
		s.URLs[1].PolicyRef = "loose"
	}
	return s
}

func vReq(label string) *httpprot.Request {
	m := []string{"GET", "POST"}[verifChoose(label+".method", 2)]
	return &httpprot.Request{Request: &http.Request{Method: m, URL: &url.URL{Path: verifString(label+".path", 3)}, Header: http.Header{}}}
}

func vHandle(rl *RateLimiter, req *httpprot.Request) (string, *httpprot.Response) {
	ctx := context.New(nil)
	ctx.SetRequest(context.DefaultNamespace, req)
	res := rl.Handle(ctx)
	resp, _ := ctx.GetOutputResponse().(*httpprot.Response)
	return res, resp
}

// verifC09_Filter: unmatched requests are never limited, the first matching rule's
// limiter is the one charged, rejection is 429 + header + result rateLimited.
func verifC09_Filter() {
	vMono = 1000
	limit := int(verifInt("strictLimit", 1, 2))
	spec := vSpec(limit)
	// both rules may be bound to the SAME policy: each rule still has a permit budget of its own
	samePolicy := verifBool("bothRulesBoundToTheSamePolicy")
	if samePolicy {
		spec.URLs[1].PolicyRef = "strict"
		verifCover("two-rules-one-policy")
	}
	verifAssert(spec.Validate() == nil, "spec-valid")
	rl := &RateLimiter{spec: spec}
	rl.Init()
	r0, r1 := spec.URLs[0], spec.URLs[1]
	for k := 0; k < verifBound("requests"); k++ {
		req := vReq("req")
		path, method := req.Path(), req.Method()
		b0, b1 := vTokens(r0.rl), vTokens(r1.rl)
		res, resp := vHandle(rl, req)
		a0, a1 := vTokens(r0.rl), vTokens(r1.rl)
		m0 := method == "POST" && path == r0.URL.Exact
		m1 := len(path) >= len(r1.URL.Prefix) && path[:len(r1.URL.Prefix)] == r1.URL.Prefix
		switch {
		case m0:
			verifAssert(a1 == b1, "only-the-first-matching-rule-is-charged")
			if b0 >= limit {
				verifAssert(res == resultRateLimited && resp != nil && resp.StatusCode() == 429 &&
					resp.HTTPHeader().Get("X-EG-Rate-Limiter") == "too-many-requests", "rejected-429-rateLimited")
				verifCover("rejected")
			} else {
				verifAssert(res == "" && a0 == b0+1, "admitted-and-charged")
				verifCover("admitted-by-strict-rule")
			}
		case m1 && samePolicy && b1 >= limit:
			verifAssert(res == resultRateLimited && a0 == b0, "rejected-429-rateLimited")
		case m1:
			verifAssert(res == "" && a0 == b0 && a1 == b1+1, "second-rule-charged-when-first-does-not-match")
			verifCover("admitted-by-prefix-rule")
		default:
			verifAssert(res == "" && resp == nil && a0 == b0 && a1 == b1, "unmatched-request-never-limited")
			verifCover("unmatched")
		}
	}
}

// verifC09_Inherit: reloading with an unchanged rule keeps the limiter's accumulated
// state (also after the previous generation was closed, as the pipeline does); a
// changed policy gets a fresh limiter.
func verifC09_Inherit() {
	vMono = 1000
	vRule0ViaDefault = verifBool("rule0.policyThroughDefaultPolicyRef")
	if vRule0ViaDefault {
		verifCover("policy-through-defaultPolicyRef")
	}
	// rule 0 may select its requests by a regular expression instead of an exact path
	byRegex := verifBool("rule0.matchesByRegex")
	useRegex := func(sp *Spec) {
		if byRegex {
			sp.URLs[0].URL = urlrule.StringMatch{RegEx: "^/re[0-9]$"}
		}
	}
	oldSpec := vSpec(1)
	useRegex(oldSpec)
	old := &RateLimiter{spec: oldSpec}
	old.Init()
	// exhaust the strict rule of the old generation
	exact := old.spec.URLs[0].URL.Exact
	if byRegex {
		exact = "/re1"
		verifCover("rule-matching-by-regex")
	}
	post := func() *httpprot.Request {
		return &httpprot.Request{Request: &http.Request{Method: "POST", URL: &url.URL{Path: exact}, Header: http.Header{}}}
	}
	res, _ := vHandle(old, post())
	verifAssert(res == "", "first-request-admitted")
	oldLimiter := old.spec.URLs[0].rl

	changed := verifBool("policyChanged")
	nl := 1
	if changed {
		nl = 2
	}
	ns := vSpec(nl)
	verifAssume((byRegex || ns.URLs[0].URL.Exact == exact) && ns.URLs[1].URL.Prefix == old.spec.URLs[1].URL.Prefix)
	useRegex(ns)
	// a rule that gets its policy through defaultPolicyRef also changes policy when the
	// default is pointed at another (itself unchanged) policy
	if vRule0ViaDefault && !changed && verifBool("defaultPolicyRefSwitched") {
		ns.DefaultPolicyRef = "loose"
		changed = true
		verifCover("default-policy-switched")
	}
	// ... while a rule that names its policy itself is untouched by a switch of the default
	if !vRule0ViaDefault && verifBool("defaultPolicyRefSwitchedWhileTheRuleNamesItsPolicy") {
		ns.DefaultPolicyRef = "strict"
		verifCover("default-switched-under-an-explicit-rule")
	}
	// the unchanged rule may sit at another position in the new spec (a rule was added in front)
	k := 0
	if verifBool("ruleInsertedInFront") {
		front := &URLRule{URLRule: urlrule.URLRule{URL: urlrule.StringMatch{Exact: "/zz-new"}, PolicyRef: "loose"}}
		ns.URLs = append([]*URLRule{front}, ns.URLs...)
		k = 1
		verifCover("rule-moved-to-another-position")
	}
	nw := &RateLimiter{spec: ns}
	nw.Inherit(old)
	old.Close()
	if !changed {
		verifAssert(nw.spec.URLs[k].rl == oldLimiter, "unchanged-rule-keeps-the-limiter-object")
		res, resp := vHandle(nw, post())
		verifAssert(res == resultRateLimited && resp != nil && resp.StatusCode() == 429, "accumulated-state-survives-the-reload")
		verifCover("state-kept")
	} else {
		verifAssert(nw.spec.URLs[k].rl != oldLimiter && nw.spec.URLs[k].rl != nil, "changed-policy-gets-a-fresh-limiter")
		res, _ := vHandle(nw, post())
		verifAssert(res == "", "fresh-limiter-admits")
		verifCover("fresh-limiter")
	}
}

// verifC09_FilterPolicy: the limiter the filter builds for a rule has exactly the configured
// policy - an explicit zero timeout stays zero (reject at once, never wait), omitted values
// get the documented defaults (50 per 10ms, timeout 100ms) - and a burst on it behaves so.
func verifC09_FilterPolicy() {
	timeouts := []string{"", "0s", "5ms", "100ms"}
	tvals := []time.Duration{100 * time.Millisecond, 0, 5 * time.Millisecond, 100 * time.Millisecond}
	periods := []string{"", "10ms", "50ms", "1h"}
	pvals := []time.Duration{10 * time.Millisecond, 10 * time.Millisecond, 50 * time.Millisecond, time.Hour}
	ti, pi := verifChoose("timeoutDuration", len(timeouts)), verifChoose("limitRefreshPeriod", len(periods))
	limit := verifChoose("limitForPeriod", 3) // 0 = omitted
	wantLimit := limit
	if limit == 0 {
		wantLimit = 50
	}
	spec := &Spec{
		Policies:         []*Policy{{Name: "p", TimeoutDuration: timeouts[ti], LimitRefreshPeriod: periods[pi], LimitForPeriod: limit}},
		DefaultPolicyRef: "p",
		URLs:             []*URLRule{{URLRule: urlrule.URLRule{URL: urlrule.StringMatch{Prefix: "/"}}}},
	}
	verifAssume(spec.Validate() == nil)
	vMono = 1000
	rl := &RateLimiter{spec: spec}
	rl.Init()
	pol := verifGetField(spec.URLs[0].rl, "policy").(*librl.Policy)
	verifAssert(pol.TimeoutDuration == tvals[ti], "timeout-as-configured")
	verifAssert(pol.LimitRefreshPeriod == pvals[pi], "refresh-period-as-configured")
	verifAssert(pol.LimitForPeriod == wantLimit, "limit-as-configured")
	// a burst of limit+1 requests at one instant: at the start of a period, half a
	// millisecond or one nanosecond before the next one
	offs := []time.Duration{0, pvals[pi] - 500*time.Microsecond, pvals[pi] - 1}
	off := offs[verifChoose("burstAtOffsetInPeriod", 3)]
	vMono = 1000 + int64(off)
	vTimerWaits = 0
	get := func() *httpprot.Request {
		return &httpprot.Request{Request: &http.Request{Method: "GET", URL: &url.URL{Path: "/x"}, Header: http.Header{}}}
	}
	for i := 0; i < wantLimit && i < 3; i++ {
		res, _ := vHandle(rl, get())
		verifAssert(res == "", "request-within-the-limit-admitted")
	}
	if wantLimit <= 2 {
		verifAssert(vTimerWaits == 0, "spare-permit-means-no-wait")
		res, resp := vHandle(rl, get())
		if tvals[ti] < pvals[pi] {
			// the next period starts after the timeout: rejected at once
			verifAssert(res == resultRateLimited && resp != nil && resp.StatusCode() == 429 && vTimerWaits == 0, "request-beyond-limit-and-timeout-rejected-at-once")
			verifCover("rejected-at-once")
		} else {
			verifAssert(res == "" && vTimerWaits == 1, "request-beyond-the-limit-waits-within-the-timeout")
			verifAssert(vLastTimer == pvals[pi]-off, "released-at-the-start-of-the-next-period-not-before")
			verifCover("waited")
			if vLastTimer < time.Millisecond {
				verifCover("waited-less-than-a-millisecond")
			}
		}
	}
	if ti == 1 {
		verifCover("explicit-zero-timeout")
	}
}

// verifC09_CancelledWaiter: requests that arrive at one instant reserve permits in consecutive
// periods and WAIT (on the engine's virtual-time timers); one of the waiting ones is cancelled
// by its client while the others are still waiting, then one more request arrives. Whatever
// happens to the cancelled reservation, the requests that are forwarded are released at most
// limitForPeriod per period.
func verifC09_CancelledWaiter() {
	period := 10 * time.Millisecond
	spec := &Spec{
		Policies:         []*Policy{{Name: "p", TimeoutDuration: "1s", LimitRefreshPeriod: "10ms", LimitForPeriod: 1}},
		DefaultPolicyRef: "p",
		URLs:             []*URLRule{{URLRule: urlrule.URLRule{URL: urlrule.StringMatch{Prefix: "/"}}}},
	}
	verifAssume(spec.Validate() == nil)
	vMono = 0
	rl := &RateLimiter{spec: spec}
	rl.Init()
	var releasedAt [5]int64
	var done [5]bool
	var cancels [5]stdcontext.CancelFunc
	start := func(i int) {
		cctx, cancel := stdcontext.WithCancel(stdcontext.Background())
		cancels[i] = cancel
		std := (&http.Request{Method: "GET", URL: &url.URL{Path: "/x"}, Header: http.Header{}}).WithContext(cctx)
		go func() {
			res, _ := vHandle(rl, &httpprot.Request{Request: std})
			verifAssert(res == "", "admitted-within-the-timeout")
			releasedAt[i] = verifClock()
			done[i] = true
		}()
		verifQuiesce()
	}
	// r0 is released at once, r1 and r2 wait for the next two periods
	start(0)
	start(1)
	start(2)
	verifAssert(done[0] && !done[1] && !done[2], "first-request-proceeds-the-others-wait")
	victim := 1 + verifChoose("cancelledWaiter", 2)
	cancels[victim]()
	verifQuiesce()
	verifAssert(done[victim], "cancelled-request-returns")
	start(3) // one more arrival at the same instant
	for step := 0; step < 5; step++ {
		vMono += int64(period)
		verifAdvance(int64(period))
		verifQuiesce()
	}
	var perPeriod [8]int
	for i := 0; i < 4; i++ {
		verifAssert(done[i], "every-admitted-request-is-released-within-the-timeout")
		if i == victim {
			continue // the client is gone: not forwarded
		}
		k := int(releasedAt[i] / int64(period))
		verifAssert(k < 8, "released-within-the-horizon")
		perPeriod[k]++
		verifAssert(perPeriod[k] <= 1, "at-most-limitForPeriod-releases-per-period")
	}
	verifCover("waiting-request-cancelled")
}
