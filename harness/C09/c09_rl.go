package ratelimiter

import "time"

// ---------------------------------------------------------------------------
// C09 harnesses, package ratelimiter. Reference = the specification arithmetic
// of the statement: periods are aligned at the limiter's start time; release
// time = arrival + imposed wait.
// ---------------------------------------------------------------------------

// Clock: monotonic flavour of time.Time (what time.Now() returns). vMono is the
// monotonic reading in nanoseconds ("ticks" in the small symbolic ranges).
var vMono int64

const vHasMonotonic = 1 << 63

func vNow() time.Time {
	var t time.Time
	verifSetField(&t, "wall", uint64(vHasMonotonic|(4000000000<<30)))
	verifSetField(&t, "ext", vMono)
	return t
}

// vAdd replaces (time.Time).Add for monotonic values: the monotonic reading
// moves by d; the wall-clock part (not consulted by Sub on monotonic values) is
// left alone. Overflow of the int64 reading is outside the stated horizon.
func vAdd(t time.Time, d time.Duration) time.Time {
	ext := verifGetField(&t, "ext").(int64)
	verifSetField(&t, "ext", ext+int64(d))
	return t
}

type vArrival struct {
	t     int64
	ok    bool
	wait  int64
	cycle int64 // release cycle
}

func vPolicy() *Policy {
	kind := verifBound("policyKind")
	switch kind {
	case 1:
		return NewDefaultPolicy() // 50 per 10ms, timeout 100ms
	case 2:
		return NewPolicy(0, time.Second, 1)
	case 3:
		return NewPolicy(500*time.Millisecond, time.Second, 3)
	case 4:
		return NewPolicy(25*time.Millisecond, 10*time.Millisecond, 2)
	}
	// limit and period are divisors in the code under test: they are case-split
	// into concrete values (each value of the stated range is explored), so the
	// solver only sees division by constants; timeout and all times stay symbolic.
	return &Policy{
		LimitForPeriod:     int(verifConcrete(verifInt("limitForPeriod", 1, int64(verifBound("maxLimit"))), int64(verifBound("maxLimit")))),
		LimitRefreshPeriod: time.Duration(verifConcrete(verifInt("limitRefreshPeriod", 1, int64(verifBound("maxPeriod"))), int64(verifBound("maxPeriod")))),
		TimeoutDuration:    time.Duration(verifInt("timeoutDuration", 0, int64(verifBound("maxTimeout")))),
	}
}

// verifC09_Hist: N arrivals at arbitrary non-decreasing times.
func verifC09_Hist() {
	p := vPolicy()
	horizon := int64(verifBound("horizon"))
	t0 := verifInt("t0", 0, horizon)
	vMono = t0
	nowFunc = vNow
	rl := New(p)
	L := int64(p.LimitForPeriod)
	per := int64(p.LimitRefreshPeriod)
	T := int64(p.TimeoutDuration)

	n := verifBound("arrivals")
	var hist [8]vArrival
	for i := 0; i < n; i++ {
		t := verifInt("arrival", 0, horizon)
		verifAssume(t >= vMono)
		vMono = t
		ok, w := rl.AcquirePermission()
		a := vArrival{t: t, ok: ok, wait: int64(w)}
		arrCycle := (t - t0) / per
		// admitted requests already released into the arrival's own period
		inCur := int64(0)
		for j := 0; j < i; j++ {
			if hist[j].ok && hist[j].cycle == arrCycle {
				inCur++
			}
		}
		if ok {
			verifAssert(a.wait >= 0, "wait-nonnegative")
			verifAssert(a.wait <= T, "wait-within-timeout")
			a.cycle = (t + a.wait - t0) / per
			if inCur < L {
				verifAssert(a.wait == 0, "spare-permit-means-immediate")
				verifCover("immediate")
			} else {
				verifCover("delayed")
			}
			// at most L admitted requests are released in any period
			same := int64(1)
			for j := 0; j < i; j++ {
				if hist[j].ok && hist[j].cycle == a.cycle {
					same++
				}
			}
			verifAssert(same <= L, "at-most-limit-per-period")
		} else {
			verifCover("rejected")
			verifAssert(inCur >= L, "rejected-although-spare-permit")
			// every period up to the timeout horizon is fully reserved. The horizon is
			// counted in whole refresh periods starting with the current one
			// (floor(timeout/period)+1 periods): the reading shared by the statement
			// and doc/reference; the sub-period phase of the arrival is not asserted.
			last := arrCycle + T/per
			for c := arrCycle; c <= last; c++ {
				cnt := int64(0)
				for j := 0; j < i; j++ {
					if hist[j].ok && hist[j].cycle == c {
						cnt++
					}
				}
				verifAssert(cnt >= L, "rejected-although-permit-within-timeout")
			}
		}
		hist[i] = a
	}
}
