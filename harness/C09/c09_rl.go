package ratelimiter

import (
	"sync"
	"time"
)

// ---------------------------------------------------------------------------
// C09 harnesses, package ratelimiter. Reference = the specification arithmetic
// of the statement: periods are aligned at the limiter's start time; release
// time = arrival + imposed wait.
// ---------------------------------------------------------------------------

// Clock: monotonic flavour of time.Time (what time.Now() returns). vMono is the
// monotonic reading in nanoseconds ("ticks" in the small symbolic ranges).
var vMono int64

const vHasMonotonic = 1 << 63

func vNow() time.Time {
	var t time.Time
	verifSetField(&t, "wall", uint64(vHasMonotonic|(4000000000<<30)))
	verifSetField(&t, "ext", vMono)
	return t
}

// vAdd replaces (time.Time).Add for monotonic values: the monotonic reading
// moves by d; the wall-clock part (not consulted by Sub on monotonic values) is
// left alone. Overflow of the int64 reading is outside the stated horizon.
func vAdd(t time.Time, d time.Duration) time.Time {
	ext := verifGetField(&t, "ext").(int64)
	verifSetField(&t, "ext", ext+int64(d))
	return t
}

type vArrival struct {
	t     int64
	ok    bool
	wait  int64
	cycle int64 // release cycle
}

func vPolicy() *Policy {
	kind := verifBound("policyKind")
	switch kind {
	case 1:
		return NewDefaultPolicy() // 50 per 10ms, timeout 100ms
	case 2:
		return NewPolicy(0, time.Second, 1)
	case 3:
		return NewPolicy(500*time.Millisecond, time.Second, 3)
	case 4:
		return NewPolicy(25*time.Millisecond, 10*time.Millisecond, 2)
	}
	// limit and period are divisors in the code under test: they are case-split
	// into concrete values (each value of the stated range is explored), so the
	// solver only sees division by constants; timeout and all times stay symbolic.
	return &Policy{
		LimitForPeriod:     int(verifConcrete(verifInt("limitForPeriod", 1, int64(verifBound("maxLimit"))), int64(verifBound("maxLimit")))),
		LimitRefreshPeriod: time.Duration(verifConcrete(verifInt("limitRefreshPeriod", 1, int64(verifBound("maxPeriod"))), int64(verifBound("maxPeriod")))),
		TimeoutDuration:    time.Duration(verifInt("timeoutDuration", 0, int64(verifBound("maxTimeout")))),
	}
}

// verifC09_Hist: N arrivals at arbitrary non-decreasing times.
func verifC09_Hist() {
	p := vPolicy()
	horizon := int64(verifBound("horizon"))
	t0 := verifInt("t0", 0, horizon)
	vMono = t0
	nowFunc = vNow
	rl := New(p)
	L := int64(p.LimitForPeriod)
	per := int64(p.LimitRefreshPeriod)
	T := int64(p.TimeoutDuration)

	n := verifBound("arrivals")
	var hist [8]vArrival
	for i := 0; i < n; i++ {
		t := verifInt("arrival", 0, horizon)
		verifAssume(t >= vMono)
		vMono = t
		ok, w := rl.AcquirePermission()
		a := vArrival{t: t, ok: ok, wait: int64(w)}
		arrCycle := (t - t0) / per
		// admitted requests already released into the arrival's own period
		inCur := int64(0)
		for j := 0; j < i; j++ {
			if hist[j].ok && hist[j].cycle == arrCycle {
				inCur++
			}
		}
		if ok {
			verifAssert(a.wait >= 0, "wait-nonnegative")
			verifAssert(a.wait <= T, "wait-within-timeout")
			a.cycle = (t + a.wait - t0) / per
			if inCur < L {
				verifAssert(a.wait == 0, "spare-permit-means-immediate")
				verifCover("immediate")
			} else {
				verifCover("delayed")
			}
			// at most L admitted requests are released in any period
			same := int64(1)
			for j := 0; j < i; j++ {
				if hist[j].ok && hist[j].cycle == a.cycle {
					same++
				}
			}
			verifAssert(same <= L, "at-most-limit-per-period")
		} else {
			verifCover("rejected")
			verifAssert(inCur >= L, "rejected-although-spare-permit")
			// every period up to the timeout horizon is fully reserved. The horizon is
			// counted in whole refresh periods starting with the current one
			// (floor(timeout/period)+1 periods): the reading shared by the statement
			// and doc/reference; the sub-period phase of the arrival is not asserted.
			last := arrCycle + T/per
			for c := arrCycle; c <= last; c++ {
				cnt := int64(0)
				for j := 0; j < i; j++ {
					if hist[j].ok && hist[j].cycle == c {
						cnt++
					}
				}
				verifAssert(cnt >= L, "rejected-although-permit-within-timeout")
			}
		}
		hist[i] = a
	}
}

// ---------------------------------------------------------------------------
// Inductive step (any history length): ONE acquirePermission from an ARBITRARY
// state (startTime T0, cycle c, tokens k) satisfying the representation
// invariant 0 <= k <= M, M = L*(floor(T/p)+1), with the clock not before the
// start of cycle c. Ghost reading of a state: R(j) = clamp(k - j*L, 0, L) admitted
// requests are released in cycle c+j. The step must (1) admit iff fewer than M
// permits are reserved from the current cycle on, (2) impose exactly the wait
// that puts the request into the first cycle with a spare permit, 0 <= wait <= T,
// (3) keep every earlier reservation in its cycle and add the new one:
// R'(j) = R(delta+j) + [j == j*] <= L for every j, (4) preserve the invariant.
// By induction no period ever releases more than L requests.
// ---------------------------------------------------------------------------
func vClamp(x, lo, hi int64) int64 {
	if x < lo {
		return lo
	}
	if x > hi {
		return hi
	}
	return x
}

func verifC09_Step() {
	p := vPolicy()
	L := int64(p.LimitForPeriod)
	per := int64(p.LimitRefreshPeriod)
	T := int64(p.TimeoutDuration)
	M := L * (T/per + 1)
	horizon := int64(verifBound("horizon"))
	t0 := verifInt("t0", 0, horizon)
	c := verifInt("pre.cycle", 0, int64(verifBound("maxCycle")))
	k := verifInt("pre.tokens", 0, int64(verifBound("maxLimit"))*(int64(verifBound("maxTimeout"))+1))
	verifAssume(k <= M) // representation invariant: reservations never pass the timeout horizon
	t := verifInt("now", 0, horizon)
	verifAssume(t >= t0+c*per) // the clock does not run backwards
	vMono = t
	nowFunc = vNow
	start := vNow()
	verifSetField(&start, "ext", t0)
	rl := &RateLimiter{policy: p, startTime: start, cycle: int(c), tokens: int(k)}

	ok, w := rl.AcquirePermission()
	wait := int64(w)

	// the specification step
	cNew := (t - t0) / per
	delta := cNew - c
	tp := k - delta*L
	if tp < 0 {
		tp = 0
	}
	verifAssert(ok == (tp < M), "admitted-iff-a-permit-is-free-within-the-timeout-horizon")
	if !ok {
		adv := int64(rl.cycle) - c
		e := k - adv*int64(L)
		if e < 0 {
			e = 0
		}
		verifAssert(adv >= 0 && adv <= delta && int64(rl.tokens) == e, "rejection-leaves-the-reservations-unchanged")
		verifCover("rejected")
		return
	}
	jStar := tp / L
	if tp < L {
		verifAssert(wait == 0, "spare-permit-means-immediate")
		verifCover("immediate")
	} else {
		verifAssert(wait == t0+per*(cNew+jStar)-t, "wait-until-the-first-cycle-with-a-spare-permit")
		verifCover("delayed")
	}
	verifAssert(wait >= 0 && wait <= T, "wait-within-timeout")
	verifAssert((t+wait-t0)/per == cNew+jStar, "released-in-the-reserved-cycle")
	verifAssert(int64(rl.cycle) == cNew && int64(rl.tokens) == tp+1, "post-state")
	verifAssert(int64(rl.tokens) >= 0 && int64(rl.tokens) <= M, "invariant-preserved")
	// release accounting, for an arbitrary later cycle j
	j := verifInt("ghost.j", 0, int64(verifBound("maxCycle"))+4)
	before := vClamp(k-(delta+j)*L, 0, L)
	after := vClamp(int64(rl.tokens)-j*L, 0, L)
	add := int64(0)
	if j == jStar {
		add = 1
	}
	verifAssert(after == before+add, "earlier-reservations-keep-their-cycle-and-the-new-one-is-added")
	verifAssert(after <= L, "at-most-limit-per-period")
	if delta >= 2 {
		verifCover("idle-gap-of-several-periods")
	}
	if (t-t0)%per == 0 {
		verifCover("arrival-on-a-period-boundary")
	}
}

// verifC09_MultiStep: the packet+byte limiter of the MQTT proxy (timeout 0): one step from an
// arbitrary state satisfying packets <= L1 and bytes <= L2 - 1 + maxPacket. Admitted iff both
// dimensions have a spare permit in the current period; so per period at most L1 packets are
// admitted and the admitted bytes exceed L2 by less than one packet.
func verifC09_MultiStep() {
	L1 := int(verifConcrete(verifInt("requestRate", 1, int64(verifBound("maxLimit"))), int64(verifBound("maxLimit"))))
	L2 := int(verifConcrete(verifInt("bytesRate", 1, int64(verifBound("maxBytes"))), int64(verifBound("maxBytes"))))
	per := int64(verifConcrete(verifInt("period", 1, int64(verifBound("maxPeriod"))), int64(verifBound("maxPeriod"))))
	maxPacket := int64(verifBound("maxPacket"))
	pol := NewMultiPolicy(0, time.Duration(per), []int{L1, L2})
	horizon := int64(verifBound("horizon"))
	t0 := verifInt("t0", 0, horizon)
	c := verifInt("pre.cycle", 0, int64(verifBound("maxCycle")))
	k1 := verifInt("pre.packets", 0, int64(L1))
	k2 := verifInt("pre.bytes", 0, int64(L2)-1+maxPacket)
	t := verifInt("now", 0, horizon)
	verifAssume(t >= t0+c*per)
	vMono = t
	nowFunc = vNow
	start := vNow()
	verifSetField(&start, "ext", t0)
	rl := &MultiRateLimiter{policy: pol, startTime: start, cycle: int(c), tokens: []int{int(k1), int(k2)}}
	n := verifInt("packetBytes", 1, maxPacket)
	ok, w, err := rl.AcquirePermission([]int{1, int(n)})
	verifAssert(err == nil, "no-error")
	delta := (t-t0)/per - c
	p1 := k1 - delta*int64(L1)
	if p1 < 0 {
		p1 = 0
	}
	p2 := k2 - delta*int64(L2)
	if p2 < 0 {
		p2 = 0
	}
	verifAssert(ok == (p1 < int64(L1) && p2 < int64(L2)), "admitted-iff-both-dimensions-have-a-spare-permit-in-this-period")
	if ok {
		verifAssert(w == 0, "timeout-zero-never-waits")
		verifAssert(int64(rl.tokens[0]) == p1+1 && int64(rl.tokens[1]) == p2+n, "post-state")
		verifAssert(int64(rl.tokens[0]) <= int64(L1), "at-most-requestRate-packets-per-period")
		verifAssert(int64(rl.tokens[1]) <= int64(L2)-1+maxPacket, "bytes-exceed-bytesRate-by-less-than-one-packet")
		verifCover("admitted")
	} else {
		// a rejection reserves nothing: the state stands for the same reservations as before
		// (left as it was, or re-based to a later cycle with the elapsed periods refilled)
		adv := int64(rl.cycle) - c
		verifAssert(adv >= 0 && adv <= delta, "rejection-leaves-the-reservations-unchanged")
		e1, e2 := k1-adv*int64(L1), k2-adv*int64(L2)
		if e1 < 0 {
			e1 = 0
		}
		if e2 < 0 {
			e2 = 0
		}
		verifAssert(int64(rl.tokens[0]) == e1 && int64(rl.tokens[1]) == e2, "rejection-leaves-the-reservations-unchanged")
		verifCover("rejected")
	}
}

// verifC09_StepN: the MQTT byte limiter (AcquireNPermission, timeout 0): one packet of n bytes
// from an arbitrary state with bytes <= L-1+maxPacket. Admitted iff the current period still
// has a spare permit - whatever the size of the packet - so the admitted bytes of a period
// exceed bytesRate by less than one packet.
func verifC09_StepN() {
	L := int(verifConcrete(verifInt("bytesRate", 1, int64(verifBound("maxBytes"))), int64(verifBound("maxBytes"))))
	per := int64(verifConcrete(verifInt("period", 1, int64(verifBound("maxPeriod"))), int64(verifBound("maxPeriod"))))
	maxPacket := int64(verifBound("maxPacket"))
	p := NewPolicy(0, time.Duration(per), L)
	horizon := int64(verifBound("horizon"))
	t0 := verifInt("t0", 0, horizon)
	c := verifInt("pre.cycle", 0, int64(verifBound("maxCycle")))
	k := verifInt("pre.bytes", 0, int64(L)-1+maxPacket)
	t := verifInt("now", 0, horizon)
	verifAssume(t >= t0+c*per)
	vMono = t
	nowFunc = vNow
	start := vNow()
	verifSetField(&start, "ext", t0)
	rl := &RateLimiter{policy: p, startTime: start, cycle: int(c), tokens: int(k)}
	n := verifInt("packetBytes", 1, maxPacket)
	ok, w := rl.AcquireNPermission(int(n))
	delta := (t-t0)/per - c
	tp := k - delta*int64(L)
	if tp < 0 {
		tp = 0
	}
	verifAssert(ok == (tp < int64(L)), "admitted-iff-the-period-has-a-spare-permit")
	if ok {
		verifAssert(w == 0, "timeout-zero-never-waits")
		verifAssert(int64(rl.tokens) == tp+n, "post-state")
		verifAssert(int64(rl.tokens) <= int64(L)-1+maxPacket, "bytes-exceed-bytesRate-by-less-than-one-packet")
		verifCover("admitted")
		if tp+n > int64(L) {
			verifCover("packet-larger-than-the-remaining-budget-admitted")
		}
	} else {
		adv := int64(rl.cycle) - c
		e := k - adv*int64(L)
		if e < 0 {
			e = 0
		}
		verifAssert(adv >= 0 && adv <= delta && int64(rl.tokens) == e, "rejection-leaves-the-reservations-unchanged")
		verifCover("rejected")
	}
}

// verifC09_Conc: concurrent acquirers while the clock moves on. There are fewer requests than
// limitForPeriod, so whatever the order in which they reach the limiter and whatever period
// each of them falls into, every request finds a spare permit in its period: all are permitted
// without any wait. (Time is read by the limiter through nowFunc; the harness clock jumps by
// whole and partial periods at arbitrary moments between the callers' steps.)
func verifC09_Conc() {
	per := int64(10)
	timeouts := []int64{0, 5, 50}
	n := verifBound("threads")
	p := &Policy{LimitForPeriod: n + verifChoose("sparePermits", 2), LimitRefreshPeriod: time.Duration(per), TimeoutDuration: time.Duration(timeouts[verifChoose("timeout", 3)])}
	vMono = verifInt("t0", 0, 25)
	nowFunc = vNow
	rl := New(p)
	verifRaceScope(rl, "RateLimiter")
	var wg sync.WaitGroup
	var ok [4]bool
	var wait [4]time.Duration
	for i := 0; i < n; i++ {
		wg.Add(1)
		i := i
		go func() {
			defer wg.Done()
			ok[i], wait[i] = rl.AcquirePermission()
		}()
	}
	// the clock: moves on twice, at any moment
	wg.Add(1)
	go func() {
		defer wg.Done()
		steps := []int64{1, 9, 10, 25}
		vMono += steps[verifChoose("clockStep1", 4)]
		verifYield()
		vMono += steps[verifChoose("clockStep2", 4)]
	}()
	wg.Wait()
	for i := 0; i < n; i++ {
		verifAssert(ok[i], "fewer-requests-than-the-limit-are-all-permitted")
		verifAssert(wait[i] == 0, "a-request-arriving-while-its-period-has-spare-permits-proceeds-immediately")
	}
	verifCover("done")
}
