package ipfilter

import (
	"errors"
	"net"

	rnet "github.com/yl2chen/cidranger/net"
)

// ---------------------------------------------------------------------------
// C05 part 1, package ipfilter: the allow/block decision table and the prefix
// semantics of IPFilter.Allow with the REAL cidranger trie. Lists are drawn from
// a pool of concrete addresses / CIDRs (parsed natively); the CLIENT ADDRESS IS
// SYMBOLIC (all 2^32 IPv4 resp. 2^128 IPv6 addresses), so membership of the
// client in each list is decided by the solver against plain mask arithmetic.
// ---------------------------------------------------------------------------

type vNet struct {
	text string
	base [16]byte // network address (IPv4 in the last 4 bytes)
	ones int      // prefix length
	v6   bool
}

var vPool4 = []vNet{
	{"10.0.0.0/8", [16]byte{12: 10}, 8, false},
	{"10.1.0.0/16", [16]byte{12: 10, 13: 1}, 16, false},
	{"10.1.2.3", [16]byte{12: 10, 13: 1, 14: 2, 15: 3}, 32, false},
	{"0.0.0.0/0", [16]byte{}, 0, false},
	{"192.168.1.128/25", [16]byte{12: 192, 13: 168, 14: 1, 15: 128}, 25, false},
	{"255.255.255.255", [16]byte{12: 255, 13: 255, 14: 255, 15: 255}, 32, false},
	{"10.1.2.2/31", [16]byte{12: 10, 13: 1, 14: 2, 15: 2}, 31, false},
	{"128.0.0.0/1", [16]byte{12: 128}, 1, false},
	{"10.0.0.0/24", [16]byte{12: 10}, 24, false}, // same network address as 10.0.0.0/8, narrower
}

var vPool6 = []vNet{
	{"::1", [16]byte{15: 1}, 128, true},
	{"fe80::/10", [16]byte{0: 0xfe, 1: 0x80}, 10, true},
	{"2001:db8::/32", [16]byte{0: 0x20, 1: 0x01, 2: 0x0d, 3: 0xb8}, 32, true},
	{"2001:db8:0:1::/64", [16]byte{0: 0x20, 1: 0x01, 2: 0x0d, 3: 0xb8, 7: 1}, 64, true},
	{"::/0", [16]byte{}, 0, true},
	{"2001:db8::/64", [16]byte{0: 0x20, 1: 0x01, 2: 0x0d, 3: 0xb8}, 64, true}, // same network address as 2001:db8::/32, narrower
}

var vClient net.IP

func vParseIP(s string) net.IP {
	if s == "client" {
		return vClient
	}
	b := verifParseIP(s)
	if b == nil {
		return nil
	}
	return net.IP(b)
}

func vParseCIDR(s string) (net.IP, *net.IPNet, error) {
	ip, mask, ok := verifParseCIDR(s)
	if !ok {
		return nil, nil, errors.New("invalid CIDR address")
	}
	// as net.ParseCIDR: the address AS WRITTEN (host bits included) and the masked network
	written := net.IP(ip)
	for i := 0; i < len(s); i++ {
		if s[i] == '/' {
			written = net.IP(verifParseIP(s[:i]))
		}
	}
	return written, &net.IPNet{IP: net.IP(ip), Mask: net.IPMask(mask)}, nil
}

// vNetEqual replaces rnet.Network.Equal (which compares IPNet.String()): same
// address family, network number and mask.
func vNetEqual(n, n1 rnet.Network) bool {
	if len(n.Number) != len(n1.Number) || len(n.Mask) != len(n1.Mask) {
		return false
	}
	for i := range n.Number {
		if n.Number[i] != n1.Number[i] {
			return false
		}
	}
	for i := range n.Mask {
		if n.Mask[i] != n1.Mask[i] {
			return false
		}
	}
	return true
}

// vIn: plain prefix arithmetic: the first `ones` bits of addr equal those of base.
func vIn(addr [16]byte, n vNet, clientV6 bool) bool {
	if n.v6 != clientV6 {
		return false
	}
	start := 0
	if !n.v6 {
		start = 12
	}
	bits := n.ones
	for i := start; i < 16; i++ {
		if bits >= 8 {
			if addr[i] != n.base[i] {
				return false
			}
			bits -= 8
		} else {
			if bits > 0 {
				m := byte(0xff << (8 - uint(bits)))
				if addr[i]&m != n.base[i]&m {
					return false
				}
			}
			return true
		}
	}
	return true
}

func vPick(label string, pool []vNet, max int) []vNet {
	n := verifChoose(label+".entries", max+1)
	var out []vNet
	for i := 0; i < n; i++ {
		out = append(out, pool[verifChoose(label+".entry", len(pool))])
	}
	return out
}

func vTexts(l []vNet) []string {
	var out []string
	for _, n := range l {
		out = append(out, n.text)
	}
	return out
}

func vDecision(v6 bool) {
	pool := vPool4
	if v6 {
		pool = vPool6
	}
	max := verifBound("maxEntries")
	allow := vPick("allow", pool, max)
	block := vPick("block", pool, max)
	// with mixed families in the lists the other family's entries never match
	if verifBound("mixFamilies") == 1 && verifBool("mixFamilies") {
		other := vPool6
		if v6 {
			other = vPool4
		}
		allow = append(allow, other[verifChoose("allow.otherFamilyEntry", len(other))])
	}
	spec := &Spec{BlockByDefault: verifBool("blockByDefault"), AllowIPs: vTexts(allow), BlockIPs: vTexts(block)}
	f := New(spec)

	var addr [16]byte
	if v6 {
		for i := 0; i < 16; i++ {
			addr[i] = verifByte("client")
		}
		// a real IPv6 address, not an IPv4-mapped one
		verifAssume(!(addr[0] == 0 && addr[1] == 0 && addr[2] == 0 && addr[3] == 0 && addr[4] == 0 && addr[5] == 0 &&
			addr[6] == 0 && addr[7] == 0 && addr[8] == 0 && addr[9] == 0 && addr[10] == 0xff && addr[11] == 0xff))
		vClient = net.IP(addr[:])
	} else {
		for i := 12; i < 16; i++ {
			addr[i] = verifByte("client")
		}
		// what net.ParseIP returns for dotted-decimal text: the 16-byte IPv4-mapped form
		vClient = net.IP{0, 0, 0, 0, 0, 0, 0, 0, 0, 0, 0xff, 0xff, addr[12], addr[13], addr[14], addr[15]}
	}
	got := f.Allow("client")

	inAllow, inBlock := false, false
	for _, n := range allow {
		if vIn(addr, n, v6) {
			inAllow = true
		}
	}
	for _, n := range block {
		if vIn(addr, n, v6) {
			inBlock = true
		}
	}
	denied := (inBlock && !inAllow) || ((inBlock == inAllow) && spec.BlockByDefault)
	verifAssert(got == !denied, "allow-block-decision-table-with-prefix-semantics")
	switch {
	case inAllow && inBlock:
		verifCover("in-both-lists")
	case inAllow:
		verifCover("allowed-only")
	case inBlock:
		verifCover("blocked-only")
	default:
		verifCover("in-neither-list")
	}
}

// verifC05_MixedFamilies: lists that mix IPv4 and IPv6 entries in any order: an entry of the
// other family never matches and never disturbs the entries around it.
func verifC05_MixedFamilies() {
	mixed := []vNet{vPool6[0], vPool4[2], vPool4[0], vPool6[2]} // ::1, 10.1.2.3, 10.0.0.0/8, 2001:db8::/32
	allow := vPick("allow", mixed, 2)
	block := vPick("block", mixed, 2)
	spec := &Spec{BlockByDefault: verifBool("blockByDefault"), AllowIPs: vTexts(allow), BlockIPs: vTexts(block)}
	f := New(spec)
	v6 := verifBool("clientIsIPv6")
	var addr [16]byte
	if v6 {
		for i := 0; i < 16; i++ {
			addr[i] = verifByte("client")
		}
		verifAssume(!(addr[0] == 0 && addr[1] == 0 && addr[2] == 0 && addr[3] == 0 && addr[4] == 0 && addr[5] == 0 &&
			addr[6] == 0 && addr[7] == 0 && addr[8] == 0 && addr[9] == 0 && addr[10] == 0xff && addr[11] == 0xff))
		vClient = net.IP(addr[:])
	} else {
		for i := 12; i < 16; i++ {
			addr[i] = verifByte("client")
		}
		vClient = net.IP{0, 0, 0, 0, 0, 0, 0, 0, 0, 0, 0xff, 0xff, addr[12], addr[13], addr[14], addr[15]}
	}
	got := f.Allow("client")
	inAllow, inBlock := false, false
	families := 0
	for _, n := range allow {
		if vIn(addr, n, v6) {
			inAllow = true
		}
		if n.v6 {
			families |= 1
		} else {
			families |= 2
		}
	}
	for _, n := range block {
		if vIn(addr, n, v6) {
			inBlock = true
		}
		if n.v6 {
			families |= 1
		} else {
			families |= 2
		}
	}
	denied := (inBlock && !inAllow) || ((inBlock == inAllow) && spec.BlockByDefault)
	verifAssert(got == !denied, "allow-block-decision-table-with-prefix-semantics")
	if families == 3 {
		verifCover("lists-mixing-both-families")
	}
}

// verifC05_HostBits: CIDR entries written with host bits set ("10.200.3.4/8" means 10.0.0.0/8;
// the spec's format check accepts them) next to narrower and wider entries, in any order.
var vPoolHostBits = []vNet{
	{"10.1.0.0/16", [16]byte{12: 10, 13: 1}, 16, false},
	{"10.200.3.4/8", [16]byte{12: 10}, 8, false},
	{"10.1.2.3", [16]byte{12: 10, 13: 1, 14: 2, 15: 3}, 32, false},
	{"172.31.255.254/12", [16]byte{12: 172, 13: 16}, 12, false},
	{"172.16.5.0/24", [16]byte{12: 172, 13: 16, 14: 5}, 24, false},
}

func verifC05_HostBits() {
	allow := vPick("allow", vPoolHostBits, 2)
	block := vPick("block", vPoolHostBits, 2)
	spec := &Spec{BlockByDefault: verifBool("blockByDefault"), AllowIPs: vTexts(allow), BlockIPs: vTexts(block)}
	f := New(spec)
	var addr [16]byte
	for i := 12; i < 16; i++ {
		addr[i] = verifByte("client")
	}
	vClient = net.IP{0, 0, 0, 0, 0, 0, 0, 0, 0, 0, 0xff, 0xff, addr[12], addr[13], addr[14], addr[15]}
	got := f.Allow("client")
	inAllow, inBlock := false, false
	for _, n := range allow {
		if vIn(addr, n, false) {
			inAllow = true
		}
	}
	for _, n := range block {
		if vIn(addr, n, false) {
			inBlock = true
		}
	}
	denied := (inBlock && !inAllow) || ((inBlock == inAllow) && spec.BlockByDefault)
	verifAssert(got == !denied, "allow-block-decision-table-with-prefix-semantics")
	if len(block) == 2 && block[0].ones > block[1].ones && block[1].text != "10.1.2.3" && block[1].base[14] == 0 && block[1].ones < 16 {
		verifCover("wide-entry-with-host-bits-after-a-narrower-one")
	}
}

// verifC05_ClientText: the client address as TEXT, in the notations a client address arrives in
// (dotted IPv4, hexadecimal IPv6, IPv6 with a dotted-decimal tail as written for NAT64 prefixes):
// the decision is the one for the address the text denotes.
type vTextAddr struct {
	text string
	addr [16]byte
	v6   bool
}

var vClientTexts = []vTextAddr{
	{"203.0.113.7", [16]byte{12: 203, 13: 0, 14: 113, 15: 7}, false},
	{"10.1.2.3", [16]byte{12: 10, 13: 1, 14: 2, 15: 3}, false},
	{"64:ff9b::203.0.113.7", [16]byte{1: 0x64, 2: 0xff, 3: 0x9b, 12: 203, 13: 0, 14: 113, 15: 7}, true},
	{"64:ff9b::cb00:7107", [16]byte{1: 0x64, 2: 0xff, 3: 0x9b, 12: 203, 13: 0, 14: 113, 15: 7}, true},
	{"2001:db8::1", [16]byte{0: 0x20, 1: 0x01, 2: 0x0d, 3: 0xb8, 15: 1}, true},
}

var vPoolText = []vNet{
	{"203.0.113.0/24", [16]byte{12: 203, 13: 0, 14: 113}, 24, false},
	{"64:ff9b::/96", [16]byte{1: 0x64, 2: 0xff, 3: 0x9b}, 96, true},
	{"10.0.0.0/8", [16]byte{12: 10}, 8, false},
	{"2001:db8::/32", [16]byte{0: 0x20, 1: 0x01, 2: 0x0d, 3: 0xb8}, 32, true},
}

func verifC05_ClientText() {
	allow := vPick("allow", vPoolText, 1)
	block := vPick("block", vPoolText, 2)
	spec := &Spec{BlockByDefault: verifBool("blockByDefault"), AllowIPs: vTexts(allow), BlockIPs: vTexts(block)}
	f := New(spec)
	c := vClientTexts[verifChoose("client.text", len(vClientTexts))]
	got := f.Allow(c.text)
	inAllow, inBlock := false, false
	for _, n := range allow {
		if vIn(c.addr, n, c.v6) {
			inAllow = true
		}
	}
	for _, n := range block {
		if vIn(c.addr, n, c.v6) {
			inBlock = true
		}
	}
	denied := (inBlock && !inAllow) || ((inBlock == inAllow) && spec.BlockByDefault)
	verifAssert(got == !denied, "allow-block-decision-table-with-prefix-semantics")
	if c.v6 && c.addr[12] == 203 && inBlock && !inAllow {
		verifCover("ipv6-client-with-dotted-tail-denied")
	}
}

func verifC05_DecisionV4() { vDecision(false) }
func verifC05_DecisionV6() { vDecision(true) }

// verifC05_Unparsable: an address that cannot be parsed gets the default answer.
func verifC05_Unparsable() {
	spec := &Spec{BlockByDefault: verifBool("blockByDefault"), AllowIPs: []string{"10.0.0.0/8"}, BlockIPs: []string{"10.1.2.3"}}
	f := New(spec)
	vClient = nil
	verifAssert(f.Allow("client") == !spec.BlockByDefault, "unparsable-address-gets-default")
}
