package httpprot

import "net/http"

// C05, package httpprot: which address the IP filters are asked about. The REAL
// httpprot.NewRequest and the REAL realip.FromRequest (net.ParseIP native, private-range test
// executed) over combinations of X-Forwarded-For (one or two entries, public or private
// addresses, padded with blanks), X-Real-IP and RemoteAddr: the client address is the first
// public address of X-Forwarded-For, otherwise X-Real-IP, and RemoteAddr without its port
// when neither header is present.
func verifC05_ClientAddress() {
	type addr struct {
		text   string
		public bool
	}
	pool := []addr{{"8.8.8.8", true}, {"203.0.113.9", true}, {"10.1.2.3", false}, {"192.168.1.1", false}, {"2001:db8::1", true}, {"fe80::1", false}}
	hdr := http.Header{}
	want := ""
	nx := verifChoose("xff.entries", 3)
	xff := ""
	for i := 0; i < nx; i++ {
		a := pool[verifChoose("xff.entry", len(pool))]
		if i > 0 {
			xff += []string{",", ", "}[verifChoose("xff.separator", 2)]
		}
		xff += a.text
		if want == "" && a.public {
			want = a.text
		}
	}
	if nx > 0 {
		hdr["X-Forwarded-For"] = []string{xff}
	}
	realIP := ""
	if verifBool("hasXRealIP") {
		realIP = pool[verifChoose("xRealIP", len(pool))].text
		hdr["X-Real-Ip"] = []string{realIP}
	}
	remote := []string{"198.51.100.7:4321", "[2001:db8::7]:4321"}[verifChoose("remoteAddr", 2)]
	remoteHost := []string{"198.51.100.7", "2001:db8::7"}[0]
	if remote[0] == '[' {
		remoteHost = "2001:db8::7"
	}
	if want == "" {
		if nx == 0 && realIP == "" {
			want = remoteHost
			verifCover("from-remote-addr")
		} else {
			want = realIP // X-Forwarded-For has no public entry
			verifCover("from-x-real-ip")
		}
	} else {
		verifCover("from-x-forwarded-for")
		if realIP != "" && realIP != want {
			verifCover("both-headers-naming-different-addresses")
		}
	}
	req, err := NewRequest(&http.Request{Method: "GET", Header: hdr, RemoteAddr: remote})
	verifAssert(err == nil, "request-created")
	verifAssert(req.RealIP() == want, "client-address-from-x-forwarded-for-then-x-real-ip-then-remote-addr")
}
