package globalfilter

import (
	"errors"

	"github.com/megaease/easegress/pkg/context"
	"github.com/megaease/easegress/pkg/object/pipeline"
)

// C02, GlobalFilter: its before and after flows "run under the same rules" - also at
// validation: a GlobalFilter spec is rejected iff one of its two flows is rejected by the
// pipeline validation (whose verdict per flow is a free boolean here; the pipeline validation
// itself is the subject of verifC02_ValidateJumpIf / ValidateNames).
var (
	vSpecUnderTest        *Spec
	vBeforeBad, vAfterBad bool
	vValidated            int
)

func vPipelineValidate(s *pipeline.Spec) error {
	vValidated++
	switch s {
	case &vSpecUnderTest.BeforePipeline:
		if vBeforeBad {
			return errors.New("flow: before flow is invalid")
		}
	case &vSpecUnderTest.AfterPipeline:
		if vAfterBad {
			return errors.New("flow: after flow is invalid")
		}
	default:
		verifAssert(false, "only-the-two-flows-of-the-spec-are-validated")
	}
	return nil
}

func verifC02_GlobalFilterValidate() {
	spec := &Spec{}
	vSpecUnderTest = spec
	vBeforeBad, vAfterBad = verifBool("beforeFlowInvalid"), verifBool("afterFlowInvalid")
	vValidated = 0
	err := spec.Validate()
	verifAssert((err != nil) == (vBeforeBad || vAfterBad), "global-filter-spec-rejected-iff-one-of-its-flows-is-invalid")
	if err == nil {
		verifAssert(vValidated == 2, "both-flows-validated-before-acceptance")
		verifCover("accepted")
	} else if !vBeforeBad {
		verifCover("rejected-for-the-after-flow")
	}
}

// verifC02_GlobalFilterHandle: GlobalFilter.Handle hands the main pipeline to
// HandleWithBeforeAfter (decided by verifC02_BeforeAfter) together with exactly the flows the
// GlobalFilter has: both, only a before flow, only an after flow, or none (then a plain Handle
// of the main pipeline is the same thing).
var (
	vGotMain, vGotBefore, vGotAfter *pipeline.Pipeline
	vPlainHandles, vBAHandles       int
)

func vPipelineHandle(p *pipeline.Pipeline, ctx *context.Context) string {
	vPlainHandles++
	vGotMain, vGotBefore, vGotAfter = p, nil, nil
	return ""
}

func vPipelineHandleBA(p *pipeline.Pipeline, ctx *context.Context, before, after *pipeline.Pipeline) string {
	vBAHandles++
	vGotMain, vGotBefore, vGotAfter = p, before, after
	return ""
}

func verifC02_GlobalFilterHandle() {
	gf := &GlobalFilter{}
	main, before, after := &pipeline.Pipeline{}, &pipeline.Pipeline{}, &pipeline.Pipeline{}
	hasBefore, hasAfter := verifBool("hasBeforeFlow"), verifBool("hasAfterFlow")
	if hasBefore {
		gf.beforePipeline.Store(before)
	} else {
		before = nil
	}
	if hasAfter {
		gf.afterPipeline.Store(after)
	} else {
		after = nil
	}
	vPlainHandles, vBAHandles = 0, 0
	gf.Handle(context.New(nil), main)
	verifAssert(vPlainHandles+vBAHandles == 1 && vGotMain == main, "main-pipeline-handled-exactly-once")
	verifAssert(vGotBefore == before && vGotAfter == after, "before-and-after-flows-run-around-the-main-flow")
	if hasBefore != hasAfter {
		verifCover("only-one-of-the-two-flows")
	}
}
