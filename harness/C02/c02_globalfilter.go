package globalfilter

import (
	"errors"

	"github.com/megaease/easegress/pkg/object/pipeline"
)

// C02, GlobalFilter: its before and after flows "run under the same rules" - also at
// validation: a GlobalFilter spec is rejected iff one of its two flows is rejected by the
// pipeline validation (whose verdict per flow is a free boolean here; the pipeline validation
// itself is the subject of verifC02_ValidateJumpIf / ValidateNames).
var (
	vSpecUnderTest        *Spec
	vBeforeBad, vAfterBad bool
	vValidated            int
)

func vPipelineValidate(s *pipeline.Spec) error {
	vValidated++
	switch s {
	case &vSpecUnderTest.BeforePipeline:
		if vBeforeBad {
			return errors.New("flow: before flow is invalid")
		}
	case &vSpecUnderTest.AfterPipeline:
		if vAfterBad {
			return errors.New("flow: after flow is invalid")
		}
	default:
		verifAssert(false, "only-the-two-flows-of-the-spec-are-validated")
	}
	return nil
}

func verifC02_GlobalFilterValidate() {
	spec := &Spec{}
	vSpecUnderTest = spec
	vBeforeBad, vAfterBad = verifBool("beforeFlowInvalid"), verifBool("afterFlowInvalid")
	vValidated = 0
	err := spec.Validate()
	verifAssert((err != nil) == (vBeforeBad || vAfterBad), "global-filter-spec-rejected-iff-one-of-its-flows-is-invalid")
	if err == nil {
		verifAssert(vValidated == 2, "both-flows-validated-before-acceptance")
		verifCover("accepted")
	} else if !vBeforeBad {
		verifCover("rejected-for-the-after-flow")
	}
}
