package pipeline

import (
	"time"

	"github.com/megaease/easegress/pkg/context"
	"github.com/megaease/easegress/pkg/filters"
	"github.com/megaease/easegress/pkg/supervisor"
)

// ---------------------------------------------------------------------------
// C02 harnesses, package pipeline. The reference interpreter and the reference
// validity predicate are written from the property statement.
// ---------------------------------------------------------------------------

const vKindName = "VerifKind"

var vKind = &filters.Kind{Name: vKindName, Results: []string{"r1", "r2"}}

type vSpec struct {
	filters.BaseSpec
}

// vFilter is the harness filter: every invocation returns an arbitrary result.
type vFilter struct {
	id   int
	spec filters.Spec
}

type vCall struct {
	id int
	ns string
}

var (
	vTrace  [16]vCall
	vNTrace int
)

func (f *vFilter) Name() string                  { return "" }
func (f *vFilter) Kind() *filters.Kind           { return vKind }
func (f *vFilter) Spec() filters.Spec            { return f.spec }
func (f *vFilter) Init()                         {}
func (f *vFilter) Inherit(prev filters.Filter)   {}
func (f *vFilter) Status() interface{}           { return nil }
func (f *vFilter) Close()                        {}
func (f *vFilter) Handle(ctx *context.Context) string {
	vTrace[vNTrace] = vCall{f.id, verifGetField(ctx, "activeNs").(string)}
	vNTrace++
	// "", a declared result, the other declared result, or an undeclared one
	r := []string{"", "r1", "r2", "zz"}[verifChoose("result", 4)]
	vResults[vNResults] = r
	vNResults++
	return r
}

func vZeroTime() time.Time                 { return time.Time{} }
func vZeroSince(t time.Time) time.Duration { return 0 }

// vName: the empty string or a one-byte name.
func vName(label string) string { return verifString(label, 1) }

// vNodeName: a one-byte filter name or END.
func vNodeName(label string) string {
	s := verifString(label, 3)
	verifAssume(len(s) == 1 || s == BuiltInFilterEnd)
	return s
}

// vTarget: "" (stands for "result not mapped": JumpIf[result] yields "" either
// way), END, or a (possibly unknown) one-byte alias.
func vTarget(label string, allowUnmapped bool) string {
	s := verifString(label, 3)
	verifAssume((allowUnmapped && len(s) == 0) || len(s) == 1 || s == BuiltInFilterEnd)
	return s
}

// vFlow builds a symbolic flow of n nodes without forking: node kinds, aliases,
// namespaces and jump targets are symbolic strings; the code under test decides
// what to compare.
//
// Restrictions (recorded as outside the claim): no jump targets the alias of an END node
// (validation ignores that alias while the run-time would match it); namespaces are
// symbolic only when symNs is set (verifC02_Namespace), otherwise a fixed mix.
func vFlow(label string, n int, base int) []FlowNode { return vFlowNs(label, n, base, false) }

var vFixedNs = []string{"", "A", "default", "B", "A"} // "default" (lower case) is a namespace of its own, not the built-in DEFAULT

func vFlowNs(label string, n int, base int, symNs bool) []FlowNode {
	flow := make([]FlowNode, n)
	for i := 0; i < n; i++ {
		node := &flow[i]
		node.FilterName = vNodeName(label + ".filter")
		node.FilterAlias = vName(label + ".alias")
		// an END node may carry an alias (the field is optional on every node) as long as no
		// jump targets that alias: validation ignores the alias of END nodes while the run-time
		// would match it - that combination stays outside, see below
		if symNs {
			node.Namespace = vName(label + ".ns")
		} else {
			node.Namespace = vFixedNs[(base+i)%len(vFixedNs)]
		}
		node.JumpIf = map[string]string{
			"r1": vTarget(label+".target1", true),
			"r2": vTarget(label+".target2", true),
		}
		node.filter = &vFilter{id: base + i}
	}
	for i := 0; i < n; i++ {
		if flow[i].FilterName != BuiltInFilterEnd || flow[i].FilterAlias == "" {
			continue
		}
		for j := 0; j < n; j++ {
			verifAssume(flow[j].JumpIf["r1"] != flow[i].FilterAlias && flow[j].JumpIf["r2"] != flow[i].FilterAlias)
		}
	}
	return flow
}

// vFlowForValidation builds flows whose jumpIf maps have 0..k entries with
// symbolic result keys (declared or not) and symbolic targets.
func vFlowForValidation(label string, n int, entries int) []FlowNode {
	flow := make([]FlowNode, n)
	for i := 0; i < n; i++ {
		node := &flow[i]
		node.FilterName = vNodeName(label + ".filter")
		node.FilterAlias = vName(label + ".alias")
		node.JumpIf = map[string]string{}
		for e := 0; e < entries; e++ {
			if verifBool(label + ".hasJump") {
				// declared results are r1, r2; undeclared keys before, between and after them
				key := verifString(label+".result", 3)
				verifAssume(key == "r1" || key == "r2" || key == "zz" || key == "aa" || key == "r1a")
				node.JumpIf[key] = vTarget(label+".target", false)
			}
		}
	}
	return flow
}

// vRefValid: every jump target is END or the alias of exactly one later filter
// node, and every jumpIf key is a declared result.
func vRefValid(flow []FlowNode) bool {
	for i := range flow {
		node := &flow[i]
		if node.FilterName == BuiltInFilterEnd {
			continue
		}
		for result, target := range node.JumpIf {
			if result != "r1" && result != "r2" {
				return false
			}
			if target == BuiltInFilterEnd || target == "" {
				continue // END, or (Run harnesses only) the stand-in for "not mapped"
			}
			cnt := 0
			for j := i + 1; j < len(flow); j++ {
				later := &flow[j]
				if later.FilterName == BuiltInFilterEnd {
					continue
				}
				alias := later.FilterAlias
				if alias == "" {
					alias = later.FilterName
				}
				if alias == target {
					cnt++
				}
			}
			if cnt != 1 {
				return false
			}
		}
	}
	return true
}

type vRefOut struct {
	calls  [16]vCall
	n      int
	result string
	sawEnd bool
}

// vRefRun interprets one flow as the statement describes; results are taken
// from the recorded trace of the implementation run (same invocation order is
// asserted by comparing ids as we go).
func vRefRun(flow []FlowNode, results []string, out *vRefOut) {
	i := 0
	out.result = ""
	for i < len(flow) {
		node := &flow[i]
		if node.FilterName == BuiltInFilterEnd {
			out.sawEnd = true
			return
		}
		ns := node.Namespace
		if ns == "" {
			ns = context.DefaultNamespace
		}
		f := node.filter.(*vFilter)
		out.calls[out.n] = vCall{f.id, ns}
		r := ""
		if out.n < len(results) {
			r = results[out.n]
		}
		out.n++
		out.result = r
		if r == "" {
			i++
			continue
		}
		target, mapped := node.JumpIf[r]
		if !mapped || target == "" || target == BuiltInFilterEnd {
			out.sawEnd = true
			return
		}
		// jump forward to exactly the named node
		j := i + 1
		for ; j < len(flow); j++ {
			later := &flow[j]
			if later.FilterName == BuiltInFilterEnd {
				continue
			}
			alias := later.FilterAlias
			if alias == "" {
				alias = later.FilterName
			}
			if alias == target {
				break
			}
		}
		i = j
	}
}

// vResults records what each invocation returned (filled by vHandle).
var (
	vResults  [16]string
	vNResults int
)

func vRecordingFlow(flow []FlowNode) {}

func vCompare(out *vRefOut) {
	verifAssert(vNTrace == out.n, "number-of-filter-invocations")
	for k := 0; k < out.n && k < vNTrace; k++ {
		verifAssert(vTrace[k].id == out.calls[k].id, "invocation-order")
		verifAssert(vTrace[k].ns == out.calls[k].ns, "namespace")
	}
}

// verifC02_Run: a valid main flow, every assignment of results to invocations.
func verifC02_Run() {
	n := verifBound("nodes")
	flow := vFlow("n", n, 0)
	verifAssume(vRefValid(flow))
	vRecordingFlow(flow)
	p := &Pipeline{flow: flow}
	ctx := context.New(nil)
	vNTrace, vNResults = 0, 0
	result := p.Handle(ctx)

	out := &vRefOut{}
	vRefRun(flow, vResults[:vNResults], out)
	vCompare(out)
	verifAssert(result == out.result, "pipeline-result-is-last-filter-result")
	if vNTrace >= 2 && vTrace[1].id > vTrace[0].id+1 {
		verifCover("jump-skipped-a-node")
	}
	if out.sawEnd && vNTrace < n {
		verifCover("ended-early")
	}
}

// verifC02_Namespace: symbolic namespaces on a short flow.
func verifC02_Namespace() {
	flow := vFlowNs("n", 2, 0, true)
	verifAssume(vRefValid(flow))
	p := &Pipeline{flow: flow}
	ctx := context.New(nil)
	vNTrace, vNResults = 0, 0
	result := p.Handle(ctx)
	out := &vRefOut{}
	vRefRun(flow, vResults[:vNResults], out)
	vCompare(out)
	verifAssert(result == out.result, "pipeline-result-is-last-filter-result")
	if vNTrace == 2 && vTrace[0].ns != vTrace[1].ns {
		verifCover("two-namespaces")
	}
}

// verifC02_BeforeAfter: before / main / after flows run under the same rules; an
// END anywhere stops all three.
func verifC02_BeforeAfter() {
	nb, nm, na := verifBound("beforeNodes"), verifBound("nodes"), verifBound("afterNodes")
	var before, after *Pipeline
	var bflow, aflow []FlowNode
	if verifBool("hasBefore") {
		bflow = vFlow("b", nb, 100)
		verifAssume(vRefValid(bflow))
		vRecordingFlow(bflow)
		before = &Pipeline{flow: bflow}
	}
	mflow := vFlow("n", nm, 200)
	verifAssume(vRefValid(mflow))
	vRecordingFlow(mflow)
	p := &Pipeline{flow: mflow}
	if verifBool("hasAfter") {
		aflow = vFlow("a", na, 300)
		verifAssume(vRefValid(aflow))
		vRecordingFlow(aflow)
		after = &Pipeline{flow: aflow}
	}
	ctx := context.New(nil)
	vNTrace, vNResults = 0, 0
	result := p.HandleWithBeforeAfter(ctx, before, after)

	out := &vRefOut{}
	ran := false
	if before != nil {
		vRefRun(bflow, vResults[:vNResults], out)
		ran = true
	}
	if !out.sawEnd {
		// the result of a flow that ran no filter is the empty result
		vRefRun(mflow, vResults[:vNResults], out)
		ran = true
	}
	if !out.sawEnd && after != nil {
		vRefRun(aflow, vResults[:vNResults], out)
	}
	_ = ran
	vCompare(out)
	if vNTrace > 0 {
		verifAssert(result == vResults[vNTrace-1] || result == "", "result-is-a-last-filter-result")
	}
	verifAssert(result == out.result, "pipeline-result")
	if before != nil && out.sawEnd && vNTrace > 0 && vTrace[vNTrace-1].id < 200 {
		verifCover("END-in-before-stops-all")
	}
	if after != nil && vNTrace > 0 && vTrace[vNTrace-1].id >= 300 {
		verifCover("after-flow-ran")
	}
}

func vSpecs(flow []FlowNode) map[string]filters.Spec {
	specs := map[string]filters.Spec{}
	for i := range flow {
		if flow[i].FilterName == BuiltInFilterEnd {
			continue
		}
		s := &vSpec{}
		s.BaseSpec.MetaSpec = supervisor.MetaSpec{Name: flow[i].FilterName, Kind: vKindName}
		specs[flow[i].FilterName] = s
	}
	return specs
}

func vPanics(f func()) (panicked bool) {
	defer func() {
		if r := recover(); r != nil {
			panicked = true
		}
	}()
	f()
	return false
}

// verifC02_ValidateJumpIf: accepted iff every target is a unique later node or
// END and every result is declared by the filter kind.
func verifC02_ValidateJumpIf() {
	filters.Register(vKind)
	n := verifBound("nodes")
	flow := vFlowForValidation("n", n, verifBound("jumpEntries"))
	spec := &Spec{Flow: flow}
	specs := vSpecs(flow)
	valid := vRefValid(flow)
	// the flow may name a filter the pipeline does not define (cross-reference flow -> filters)
	if k := verifChoose("nodeWhoseFilterIsUndefined", n+1); k < n && flow[k].FilterName != BuiltInFilterEnd {
		delete(specs, flow[k].FilterName)
		valid = false
		verifCover("flow-names-an-undefined-filter")
	}
	rejected := vPanics(func() { spec.ValidateJumpIf(specs) })
	verifAssert(rejected == !valid, "validation-accepts-iff-targets-unique-later-and-results-declared")
	if rejected {
		verifCover("rejected")
	} else {
		verifCover("accepted")
	}
}

// vNewSpec replaces filters.NewSpec (YAML + JSON-schema reflection): it builds
// the spec from the raw map and keeps nothing else.
func vNewSpec(super *supervisor.Supervisor, pipeline string, rawSpec interface{}) (filters.Spec, error) {
	m := rawSpec.(map[string]interface{})
	s := &vSpec{}
	s.BaseSpec.MetaSpec = supervisor.MetaSpec{Name: m["name"].(string), Kind: m["kind"].(string)}
	return s, nil
}

// verifC02_ValidateNames: duplicated or reserved filter names are rejected.
func verifC02_ValidateNames() {
	filters.Register(vKind)
	n1 := verifString("name1", 3)
	n2 := verifString("name2", 3)
	verifAssume(len(n1) > 0 && len(n2) > 0)
	spec := &Spec{Filters: []map[string]interface{}{
		{"name": n1, "kind": vKindName},
		{"name": n2, "kind": vKindName},
	}}
	err := spec.Validate()
	bad := n1 == n2 || n1 == BuiltInFilterEnd || n2 == BuiltInFilterEnd
	verifAssert((err != nil) == bad, "duplicate-or-reserved-names-rejected")
	if n1 == n2 {
		verifCover("duplicate")
	}
	if n1 == BuiltInFilterEnd {
		verifCover("reserved")
	}
	if !bad {
		verifCover("accepted")
	}
}
