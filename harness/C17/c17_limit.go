package limitlistener

import (
	"errors"
	"net"
	"sync"

	"golang.org/x/sync/semaphore"
)

// ---------------------------------------------------------------------------
// C17 part 1, package limitlistener: LimitListener.Accept/Close/SetMaxConnection,
// limitListenerConn.Close, sem.Semaphore and the REAL x/sync semaphore.Weighted
// (mutex + waiter list + channels) under every schedule within the preemption
// bound. The inner listener hands out harness connections without blocking.
// ---------------------------------------------------------------------------

type vConn struct {
	net.Conn
	closed int
}

// Closing a socket takes a moment (other goroutines run meanwhile); the connection counts as
// open until the close has completed.
func (c *vConn) Close() error {
	verifYield()
	if c.closed == 0 {
		vInnerOpen--
	}
	c.closed++
	return nil
}

// vInnerOpen: connections taken from the inner listener and not yet closed; vInnerCap: the cap
// they are checked against at every accept (0: not checked)
var vInnerOpen, vInnerCap int

// a read that fails while the connection stays open (net/http aborts its background read with a
// past deadline after every request on a keep-alive connection)
func (c *vConn) Read(p []byte) (int, error) { return 0, vTempErr{} }

type vListener struct {
	accepted int
	closed   bool
	failNext int // the next accepts fail with a temporary error (EMFILE, ECONNABORTED ...)
}

type vTempErr struct{}

func (vTempErr) Error() string   { return "accept: too many open files" }
func (vTempErr) Timeout() bool   { return false }
func (vTempErr) Temporary() bool { return true }

func (l *vListener) Accept() (net.Conn, error) {
	if l.closed {
		return nil, errors.New("listener closed")
	}
	if l.failNext > 0 {
		l.failNext--
		return nil, vTempErr{}
	}
	l.accepted++
	vInnerOpen++
	if vInnerCap > 0 {
		verifAssert(vInnerOpen <= vInnerCap, "accepted-and-still-open-connections-never-exceed-the-cap")
	}
	return &vConn{}, nil
}
func (l *vListener) Close() error   { l.closed = true; return nil }
func (l *vListener) Addr() net.Addr { return nil }

const vMaxCapacity int64 = 20000000

// vAvailable: free permits of the underlying weighted semaphore
func vAvailable(l *LimitListener) int64 {
	w := verifGetField(l.sem, "sem").(*semaphore.Weighted)
	return verifGetField(w, "size").(int64) - verifGetField(w, "cur").(int64)
}

var (
	vMu   sync.Mutex
	vOpen int
)

// verifC17_Accept: k clients connect and close concurrently; open <= cap at every instant.
func verifC17_Accept() {
	capacity := verifChoose("cap", 2) + 1
	l := NewLimitListener(&vListener{}, uint32(capacity))
	vOpen = 0
	vInnerOpen, vInnerCap = 0, capacity
	clients := verifBound("clients")
	var wg sync.WaitGroup
	for i := 0; i < clients; i++ {
		wg.Add(1)
		go func() {
			defer wg.Done()
			c, err := l.Accept()
			if err != nil {
				verifAssert(false, "accept-fails-only-when-closed")
				return
			}
			vMu.Lock()
			vOpen++
			verifAssert(vOpen <= capacity, "open-connections-never-exceed-the-cap")
			if vOpen == capacity {
				verifCover("cap-reached")
			}
			vMu.Unlock()
			vMu.Lock()
			vOpen--
			vMu.Unlock()
			c.Close()
			if verifBool("doubleClose") {
				c.Close() // releases once
			}
		}()
	}
	wg.Wait()
	vInnerCap = 0
	verifAssert(vOpen == 0, "all-closed")
	verifAssert(vAvailable(l) == int64(capacity), "released-capacity-is-usable-again-no-lost-or-extra-permits")
}

// verifC17_Resize: a run-time change of the cap with connections open.
func verifC17_Resize() {
	vInnerOpen, vInnerCap = 0, 0
	cap0 := verifChoose("cap0", 2) + 1
	l := NewLimitListener(&vListener{}, uint32(cap0))
	open := verifChoose("open", cap0+1)
	var conns [4]net.Conn
	for i := 0; i < open; i++ {
		c, err := l.Accept()
		verifAssert(err == nil, "accept-below-cap")
		conns[i] = c
	}
	n := verifChoose("newCap", 4) // 0..3
	done := l.sem.SetMaxCount(int64(n))
	applied := func() bool {
		select {
		case <-done:
			return true
		default:
			return false
		}
	}
	verifQuiesce()
	if open > n {
		// shrinking below current usage: not applied until enough connections close,
		// and meanwhile nobody is accepted
		verifAssert(!applied(), "shrink-below-usage-waits-for-closes")
		accepted := false
		go func() {
			c, err := l.Accept()
			if err == nil {
				accepted = true
				c.Close()
			}
		}()
		verifQuiesce()
		verifAssert(!accepted, "no-accept-while-shrink-pending")
		for open > n {
			open--
			conns[open].Close()
		}
		verifQuiesce()
		verifAssert(applied(), "shrink-applied-after-closes")
		verifAssert(!accepted, "no-accept-at-the-new-cap")
		verifCover("shrunk-below-usage")
		for i := 0; i < open; i++ {
			verifAssert(conns[i].(*limitListenerConn).Conn.(*vConn).closed == 0, "established-connections-not-dropped")
		}
		if open > 0 {
			open--
			conns[open].Close()
			verifQuiesce()
			verifAssert(accepted, "released-capacity-admits-the-waiting-client")
			verifCover("waiting-client-admitted")
		}
		return
	}
	verifAssert(applied(), "change-applied")
	for i := 0; i < open; i++ {
		verifAssert(conns[i].(*limitListenerConn).Conn.(*vConn).closed == 0, "established-connections-not-dropped")
	}
	verifAssert(vAvailable(l) == int64(n-open), "capacity-equals-new-cap-minus-open")
	accepted := false
	go func() {
		c, err := l.Accept()
		if err == nil {
			accepted = true
			_ = c
		}
	}()
	verifQuiesce()
	verifAssert(accepted == (open < n), "accept-iff-open-below-the-new-cap")
	if open >= n {
		verifCover("held-back-at-new-cap")
	} else {
		verifCover("accepted-under-new-cap")
	}
}

// verifC17_ConcurrentResize: two cap changes racing with accepts and closes; when
// everything has settled the free capacity equals the last cap minus the open connections.
func verifC17_ConcurrentResize() {
	vInnerOpen, vInnerCap = 0, 0
	l := NewLimitListener(&vListener{}, 1)
	n1 := verifChoose("cap1", 3) + 1
	n2 := verifChoose("cap2", 3) + 1
	var wg sync.WaitGroup
	var d1, d2 chan struct{}
	wg.Add(2)
	go func() { defer wg.Done(); d1 = l.sem.SetMaxCount(int64(n1)) }()
	go func() {
		defer wg.Done()
		c, err := l.Accept()
		if err == nil {
			c.Close()
		}
	}()
	wg.Wait()
	d2 = l.sem.SetMaxCount(int64(n2))
	<-d1
	<-d2
	verifQuiesce()
	verifAssert(vAvailable(l) == int64(n2), "capacity-equals-the-last-cap")
}

// verifC17_ResizeTwice: two run-time changes in a row with connections open - the second one
// may arrive while the first (a shrink below the current usage) is still waiting for
// connections to close. Nobody is accepted at or above the LAST cap, the waiting client is
// admitted as soon as there is room under it, and once everything has closed the free
// capacity is exactly the last cap.
func verifC17_ResizeTwice() {
	vInnerOpen, vInnerCap = 0, 0
	cap0 := verifChoose("cap0", 3) + 1
	l := NewLimitListener(&vListener{}, uint32(cap0))
	open := verifChoose("open", cap0+1)
	var conns [4]net.Conn
	for i := 0; i < open; i++ {
		c, err := l.Accept()
		verifAssert(err == nil, "accept-below-cap")
		conns[i] = c
	}
	n1 := verifChoose("newCap1", 4) // 0..3
	n2 := verifChoose("newCap2", 4)
	l.SetMaxConnection(uint32(n1))
	verifQuiesce()
	if open > n1 {
		verifCover("second-change-while-a-shrink-is-pending")
	}
	l.SetMaxConnection(uint32(n2))
	verifQuiesce()

	var extra net.Conn
	go func() {
		c, err := l.Accept()
		if err == nil {
			extra = c
		}
	}()
	verifQuiesce()
	verifAssert(extra == nil || open < n2, "no-accept-at-or-above-the-last-cap")
	// connections close one by one; the waiting client gets in exactly when there is room
	for open > 0 {
		if extra != nil {
			verifAssert(open+1 <= n2, "open-connections-within-the-last-cap")
		}
		open--
		conns[open].Close()
		verifQuiesce()
		if extra == nil {
			verifAssert(open >= n2, "waiting-client-admitted-as-soon-as-there-is-room")
		}
	}
	if n2 > 0 {
		verifAssert(extra != nil, "waiting-client-admitted-as-soon-as-there-is-room")
		verifCover("admitted")
	}
	if extra != nil {
		extra.Close()
		verifQuiesce()
	}
	if n2 > 0 {
		verifAssert(vAvailable(l) == int64(n2), "free-capacity-equals-the-last-cap-when-idle")
	}
}

// verifC17_AcceptErrors: temporary errors of the inner listener (fd exhaustion, aborted
// connections) neither leak nor create permits: the serve loop retries as net/http does, the
// number of open connections never exceeds the cap, and when all are closed the whole cap is
// free again.
func verifC17_AcceptErrors() {
	vInnerOpen, vInnerCap = 0, 0
	capacity := verifChoose("cap", 2) + 1
	inner := &vListener{failNext: verifChoose("temporaryErrors", 3)}
	l := NewLimitListener(inner, uint32(capacity))
	var conns [4]net.Conn
	open := 0
	want := verifChoose("connectionsWanted", capacity+1) + 1 // up to cap+1
	readFails := verifBool("aReadFailsOnEveryOpenConnection")
	errs := 0
	live := 0 // accepted and not yet closed
	var blocked bool
	go func() {
		for open < want {
			c, err := l.Accept()
			if err != nil {
				ne, ok := err.(net.Error)
				verifAssert(ok && ne.Temporary(), "only-temporary-errors-here")
				errs++
				continue // net/http retries after a temporary error
			}
			conns[open] = c
			open++
			live++
			verifAssert(live <= capacity, "open-connections-never-exceed-the-cap")
			if readFails {
				// the connection stays open (and keeps its slot) after a failed read
				var buf [1]byte
				c.Read(buf[:])
			}
		}
	}()
	verifQuiesce()
	// held back means: not even taken from the underlying listener (its accept queue, and the
	// client's connect, wait) - the server never owns more than cap accepted connections
	verifAssert(inner.accepted <= capacity, "no-connection-beyond-the-cap-is-taken-from-the-listener")
	if want > capacity {
		verifAssert(open == capacity, "connection-beyond-the-cap-held-back")
		blocked = true
		verifCover("held-back")
	} else {
		verifAssert(open == want, "connections-below-the-cap-accepted")
	}
	if inner.failNext == 0 && errs+open > open {
		verifCover("temporary-error-seen")
	}
	// close everything (the held-back client gets in when the first one closes)
	n0 := open
	for i := 0; i < n0; i++ {
		live--
		conns[i].Close()
		verifQuiesce()
	}
	if blocked {
		verifAssert(open == want, "held-back-connection-admitted-after-a-close")
		live--
		conns[open-1].Close()
		verifQuiesce()
	}
	verifAssert(vAvailable(l) == int64(capacity), "released-capacity-is-usable-again-no-lost-or-extra-permits")
}
