package httpserver

import (
	"io"
	"net/http"
	"net/url"
	"time"

	"github.com/megaease/easegress/pkg/context"
	"github.com/megaease/easegress/pkg/protocols/httpprot"
	"github.com/megaease/easegress/pkg/supervisor"
)

// ---------------------------------------------------------------------------
// serveHTTP harness (C01 glue, C07 limit selection and status mapping, C03
// response write-out), package httpserver: the REAL mux.reload + serveHTTP +
// search + match methods + rewrite + Request.FetchPayload, with a harness
// ResponseWriter, MuxMapper and backend handler.
// ---------------------------------------------------------------------------

type vWriter struct {
	hdr    http.Header
	status int
	body   []byte
	wrote  int
}

func (w *vWriter) Header() http.Header { return w.hdr }
func (w *vWriter) WriteHeader(code int) {
	w.status = code
	w.wrote++
}
func (w *vWriter) Write(p []byte) (int, error) {
	w.body = append(w.body, p...)
	return len(p), nil
}

type vBackend struct {
	calls    int
	seenPath string
	seenBody []byte
	status   int
	respBody []byte
	bodyErr  bool
	xff      string
}

func (b *vBackend) Handle(ctx *context.Context) string {
	b.calls++
	req := ctx.GetInputRequest().(*httpprot.Request)
	b.seenPath = req.Path()
	b.xff = req.HTTPHeader().Get("X-Forwarded-For")
	if req.IsStream() {
		b.seenBody, _ = io.ReadAll(req.GetPayload())
	} else {
		b.seenBody = req.RawPayload()
	}
	resp, _ := httpprot.NewResponse(nil)
	resp.SetStatusCode(b.status)
	resp.HTTPHeader().Set("X-Backend", "yes")
	resp.SetPayload(b.respBody)
	ctx.SetOutputResponse(resp)
	return ""
}

type vBackendMapper struct {
	b       *vBackend
	missing bool
}

func (m *vBackendMapper) GetHandler(name string) (context.Handler, bool) {
	if m.missing || name != "backend" {
		return nil, false
	}
	return m.b, true
}

type vReqBody struct {
	data []byte
	pos  int
}

func (b *vReqBody) Read(p []byte) (int, error) {
	if b.pos >= len(b.data) {
		return 0, io.EOF
	}
	n := copy(p, b.data[b.pos:])
	b.pos += n
	return n, nil
}
func (b *vReqBody) Close() error { return nil }

func vRealIP(r *http.Request) string         { return "9.9.9.9" }
func vFastNow() time.Time                   { return time.Time{} }
func vFastSince(t time.Time) time.Duration  { return 0 }
func vMetaSizeReq(r *httpprot.Request) int64 { return 0 }
func vMetaSizeResp(r *httpprot.Response) int64 { return 0 }

func vBytesEq(a, b []byte) bool {
	if len(a) != len(b) {
		return false
	}
	for i := range a {
		if a[i] != b[i] {
			return false
		}
	}
	return true
}

func vLimitValue(label string) int64 {
	switch verifChoose(label+".kind", 3) {
	case 0:
		return 0
	case 1:
		return -1
	}
	return verifInt(label, 1, int64(verifBound("maxLimit")))
}

func verifC01_Serve() {
	// one rule, one entry: prefix path with rewrite target, method list, body limits at both levels
	prefix := verifString("entry.pathPrefix", 2)
	verifAssume(len(prefix) > 0)
	target := verifString("entry.rewriteTarget", 2)
	pathLimit := vLimitValue("pathLimit")
	serverLimit := vLimitValue("serverLimit")
	entry := &Path{PathPrefix: prefix, RewriteTarget: target, Backend: "backend", Methods: []string{"POST", "HEAD"}, ClientMaxBodySize: pathLimit}
	spec := &Spec{ClientMaxBodySize: serverLimit, XForwardedFor: verifBool("xForwardedFor"), Rules: []*Rule{{Paths: []*Path{entry}}}}
	backend := &vBackend{status: int(verifInt("backendStatus", 200, 599)), respBody: verifBytes("respBody", verifChoose("respBodyLen", 3))}
	mapper := &vBackendMapper{b: backend, missing: verifBool("backendMissing")}
	m := &mux{}
	m.inst.Store(&muxInstance{spec: &Spec{}})
	superSpec := &supervisor.Spec{}
	verifSetField(superSpec, "objectSpec", spec)
	verifSetField(superSpec, "meta", &supervisor.MetaSpec{Name: "server"})
	m.reload(superSpec, mapper)

	path := verifString("req.path", 3)
	// the limits hold whatever the method: a HEAD request may carry a body as well
	method := []string{"POST", "GET", "HEAD"}[verifChoose("req.method", 3)]
	bodyLen := verifChoose("req.bodyLength", verifBound("maxBody")+1)
	body := &vReqBody{data: verifBytes("req.body", bodyLen)}
	declared := int64(-1)
	if !verifBool("req.chunked") {
		declared = int64(verifChoose("req.declaredLength", verifBound("maxBody")+2))
	}
	std := &http.Request{Method: method, Host: "h", URL: &url.URL{Path: path}, Header: http.Header{}, Body: body, ContentLength: declared, RemoteAddr: "9.9.9.9:1"}
	// the media type of the body is no reason to treat its size differently
	if ct := []string{"", "application/grpc", "text/event-stream"}[verifChoose("req.contentType", 3)]; ct != "" {
		std.Header["Content-Type"] = []string{ct}
	}
	w := &vWriter{hdr: http.Header{}}
	m.inst.Load().(*muxInstance).serveHTTP(w, std)

	verifAssert(w.wrote == 1, "exactly-one-status-written")
	pathMatches := len(path) >= len(prefix) && path[:len(prefix)] == prefix
	effective := pathLimit
	if effective == 0 {
		effective = serverLimit
	}
	if effective == 0 {
		effective = httpprot.DefaultMaxPayloadSize
	}
	m64 := int64(bodyLen)
	switch {
	case !pathMatches:
		verifAssert(w.status == 404 && backend.calls == 0, "no-entry-matches-404")
		verifCover("404")
	case method == "GET":
		verifAssert(w.status == 405 && backend.calls == 0, "method-mismatch-405")
		verifCover("405")
	case mapper.missing:
		verifAssert(w.status == 503 && backend.calls == 0, "missing-backend-503")
		verifCover("503")
	case effective >= 0 && (declared > effective || (declared < 0 && m64 > effective)):
		verifAssert(w.status == 413 && backend.calls == 0, "oversized-body-413-and-not-forwarded")
		verifCover("413")
		if pathLimit != 0 && serverLimit != 0 && pathLimit != serverLimit {
			verifCover("path-limit-overrides-server-limit")
		}
	case effective >= 0 && declared > 0 && m64 < declared:
		verifAssert(w.status == 400 && backend.calls == 0, "short-body-400-and-not-forwarded")
		verifCover("400-short-body")
	default:
		verifAssert(backend.calls == 1, "backend-invoked-once")
		if target == "" {
			verifAssert(backend.seenPath == path, "no-rewrite-target-leaves-path")
		} else {
			verifAssert(backend.seenPath == target+path[len(prefix):], "backend-sees-rewritten-path")
			verifCover("rewritten")
		}
		want := body.data
		if declared >= 0 && m64 > declared && effective >= 0 {
			want = body.data[:declared]
		}
		verifAssert(vBytesEq(backend.seenBody, want), "backend-sees-the-body-intact")
		verifAssert(w.status == backend.status, "client-gets-backend-status")
		verifAssert(w.hdr.Get("X-Backend") == "yes", "client-gets-backend-headers")
		verifAssert(vBytesEq(w.body, backend.respBody), "client-gets-backend-body")
		if spec.XForwardedFor {
			verifAssert(backend.xff == "9.9.9.9", "x-forwarded-for-appended")
		}
		verifCover("forwarded")
		if effective < 0 {
			verifCover("streamed")
		}
	}
}
