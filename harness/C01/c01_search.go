package httpserver

import (
	"hash"
	"net/http"
	"net/url"

	lru "github.com/hashicorp/golang-lru"
	"github.com/megaease/easegress/pkg/protocols/httpprot"
	"github.com/megaease/easegress/pkg/supervisor"
	"github.com/megaease/easegress/pkg/util/ipfilter"
)

// ---------------------------------------------------------------------------
// Search-level harnesses (C01 lemma C, C12, C05 part 2), package httpserver.
//
// The four match methods and IPFilter.Allow are replaced by UNINTERPRETED
// predicates of (configuration entry, the request field they read): the engine
// gives equal arguments equal answers and nothing else. Their own semantics are
// checked by separate lemmas (c01_match.go, C05 part 1). The muxInstance is
// built by the REAL mux.reload from a symbolic Spec.
// ---------------------------------------------------------------------------

func vRuleMatch(mr *muxRule, r *httpprot.Request) bool {
	return verifUFBool("hostMatch", vRuleOf[mr], r.Host())
}
func vMatchPath(mp *MuxPath, r *httpprot.Request) bool {
	return verifUFBool("pathMatch", vEntryKey(mp), r.Path())
}
func vMatchMethod(mp *MuxPath, r *httpprot.Request) bool {
	return verifUFBool("methodMatch", vEntryKey(mp), r.Method())
}
func vMatchHeaders(mp *MuxPath, r *httpprot.Request) bool {
	return verifUFBool("headerMatch", vEntryKey(mp), vReqID(r))
}

// entries of the cached and of the cache-less instance built from one spec are
// the same configuration entry: key the predicates by the spec entry.
var vEntryOf = map[*MuxPath]*Path{}
var vRuleOf = map[*muxRule]*Rule{}

func vEntryKey(mp *MuxPath) *Path { return vEntryOf[mp] }

var vReqIDs = map[*httpprot.Request]int{}

func vReqID(r *httpprot.Request) int { return vReqIDs[r] }

func vNewIPFilter(spec *ipfilter.Spec) *ipfilter.IPFilter {
	f := &ipfilter.IPFilter{}
	verifSetField(f, "spec", spec)
	return f
}

func vIPAllow(f *ipfilter.IPFilter, ip string) bool {
	return verifUFBool("ipAllow", verifGetField(f, "spec").(*ipfilter.Spec), ip)
}

func vInitHeaderRoute(h *Header) {}

// ---- abstract cache: Get returns the latest Add with an equal key, or (free
// choice) a miss; this over-approximates an ARC cache of every size >= 1.
type vCacheEntry struct {
	key, val interface{}
}

var vCacheLogs = map[*lru.ARCCache][]vCacheEntry{} // one log per cache object
var vCacheLog []vCacheEntry                        // (reset marker kept for the harnesses)
var vCacheHits int

func vNewARC(size int) (*lru.ARCCache, error) { return &lru.ARCCache{}, nil }

func vCacheGet(c *lru.ARCCache, key interface{}) (interface{}, bool) {
	log := vCacheLogs[c]
	for i := len(log) - 1; i >= 0; i-- {
		if log[i].key == key {
			if verifBool("cache.evicted") {
				return nil, false
			}
			vCacheHits++
			return log[i].val, true
		}
	}
	return nil, false
}

func vCacheAdd(c *lru.ARCCache, key, val interface{}) {
	vCacheLogs[c] = append(vCacheLogs[c], vCacheEntry{key, val})
}

// Purge empties the cache (not called by the code as it stands; modelled so that a change that
// starts to reuse a cache object across generations is judged by what it does, not by a crash
// of the model)
func vCachePurge(c *lru.ARCCache) { vCacheLogs[c] = nil }

// ---- symbolic configuration ------------------------------------------------

type vShape struct {
	spec *Spec
}

func vFilterSpec(label string, enabled bool) *ipfilter.Spec {
	if enabled && verifBool(label+".present") {
		return &ipfilter.Spec{}
	}
	return nil
}

func vSpec(withFilters bool, cacheSize uint32) *Spec {
	nr, np := verifBound("rules"), verifBound("paths")
	spec := &Spec{CacheSize: cacheSize, IPFilter: vFilterSpec("serverFilter", withFilters)}
	for i := 0; i < nr; i++ {
		rule := &Rule{IPFilter: vFilterSpec("ruleFilter", withFilters)}
		for j := 0; j < np; j++ {
			p := &Path{Backend: "b", IPFilter: vFilterSpec("pathFilter", withFilters)}
			if verifBound("headerConditions") == 1 && verifBool("path.hasHeaderCondition") {
				p.Headers = []*Header{{Key: "X-H", Values: []string{"v"}}}
			}
			rule.Paths = append(rule.Paths, p)
		}
		spec.Rules = append(spec.Rules, rule)
	}
	return spec
}

func vInstance(spec *Spec) *muxInstance {
	m := &mux{}
	m.inst.Store(&muxInstance{spec: &Spec{}})
	superSpec := &supervisor.Spec{}
	verifSetField(superSpec, "objectSpec", spec)
	m.reload(superSpec, nil)
	mi := m.inst.Load().(*muxInstance)
	for i, r := range mi.rules {
		vRuleOf[r] = spec.Rules[i]
		for j, p := range r.paths {
			vEntryOf[p] = spec.Rules[i].Paths[j]
		}
	}
	return mi
}

var vNextReq int

func vRequest(label string) *httpprot.Request {
	n := verifBound("maxStr")
	std := &http.Request{Method: verifString(label+".method", n), Host: verifString(label+".host", n),
		URL: &url.URL{Path: verifString(label+".path", n)}, Header: http.Header{}}
	req := &httpprot.Request{Request: std}
	verifSetField(req, "realIP", verifString(label+".ip", 1))
	vNextReq++
	vReqIDs[req] = vNextReq
	return req
}

// ---- reference router (from the statement) -----------------------------------

type vRefRoute struct {
	code  int
	entry *Path
	rule  *Rule
}

// vRefSearch: first entry in rule-then-path order whose host, path, method and
// header conditions all hold; otherwise 400 if some entry (under a matching
// host) matched path and method but not its header condition, else 405 if some
// matched the path but not the method, else 404. IP filters are ignored here.
func vRefSearch(mi *muxInstance, req *httpprot.Request) vRefRoute {
	hdrMiss, methodMiss := false, false
	for _, r := range mi.rules {
		if !vRuleMatch(r, req) {
			continue
		}
		for _, p := range r.paths {
			if !vMatchPath(p, req) {
				continue
			}
			if !vMatchMethod(p, req) {
				methodMiss = true
				continue
			}
			if len(p.headers) > 0 && !vMatchHeaders(p, req) {
				hdrMiss = true
				continue
			}
			return vRefRoute{0, vEntryOf[p], vRuleOf[r]}
		}
	}
	switch {
	case hdrMiss:
		return vRefRoute{code: 400}
	case methodMiss:
		return vRefRoute{code: 405}
	}
	return vRefRoute{code: 404}
}

func vSame(rt *route, want vRefRoute) bool {
	if want.code != 0 {
		return rt.code == want.code
	}
	return rt.code == 0 && rt.path != nil && vEntryOf[rt.path] == want.entry
}

// verifC01_Search: cache off, no IP filters.
func verifC01_Search() {
	mi := vInstance(vSpec(false, 0))
	req := vRequest("req")
	got := mi.search(req)
	want := vRefSearch(mi, req)
	verifAssert(vSame(got, want), "first-match-and-error-precedence")
	switch want.code {
	case 0:
		verifCover("routed")
	case 400:
		verifCover("400")
	case 405:
		verifCover("405")
	case 404:
		verifCover("404")
	}
}

// verifC12_CacheFilters: as verifC12_Cache, with IP filters at the three levels.
// The comparison is made twice: (strict) for requests from clients that every
// filter of the server allows, and (plain) for all requests. The plain one is
// the known finding F-C12-3 (a cache hit skips the server-level and earlier
// rules' IP filters); the strict one must hold.
func verifC12_CacheFilters() {
	spec := vSpec(true, 0)
	plain := vInstance(spec)
	cachedSpec := *spec
	cachedSpec.CacheSize = 1
	cached := vInstance(&cachedSpec)
	vCacheLog, vCacheHits = nil, 0
	h := verifBound("history")
	for k := 0; k < h; k++ {
		req := vRequest("req")
		ip := req.RealIP()
		want := plain.search(req)
		got := cached.search(req)
		allow := func(s *ipfilter.Spec) bool { return s == nil || verifUFBool("ipAllow", s, ip) }
		all := allow(spec.IPFilter)
		for _, r := range spec.Rules {
			all = all && allow(r.IPFilter)
			for _, p := range r.Paths {
				all = all && allow(p.IPFilter)
			}
		}
		same := got.code == want.code && (want.code != 0 || (got.path != nil && vEntryOf[got.path] == vEntryOf[want.path]))
		if got.code == 0 && got.path != nil {
			// whatever the cache did: a routed client is allowed by the server filter and by the
			// filters of the rule and path it is routed to (not masked by the known finding)
			e := vEntryOf[got.path]
			var own *Rule
			for _, r := range spec.Rules {
				for _, p := range r.Paths {
					if p == e {
						own = r
					}
				}
			}
			verifAssert(own != nil && allow(spec.IPFilter) && allow(own.IPFilter) && allow(e.IPFilter), "routed-with-cache-implies-allowed-by-own-route-filters")
		}
		if all {
			verifAssert(same, "same-outcome-with-cache-for-clients-allowed-by-every-filter")
		}
		// a client denied by the filters applying to its own route is refused either way
		if want.code == 403 {
			verifAssert(got.code != 0, "client-denied-without-cache-is-never-routed-with-cache-unless-F-C12-3")
		}
		verifAssert(same, "same-outcome-with-cache-under-ip-filters")
	}
	if vCacheHits > 0 {
		verifCover("cache-hit")
	}
}

// verifC12_Cache: the same spec with and without cache, a history of requests.
func verifC12_Cache() {
	spec := vSpec(false, 0)
	plain := vInstance(spec)
	cachedSpec := *spec
	cachedSpec.CacheSize = 1
	cached := vInstance(&cachedSpec)
	verifAssert(cached.cache != nil && plain.cache == nil, "cache-setup")
	vCacheLog, vCacheHits = nil, 0
	h := verifBound("history")
	for k := 0; k < h; k++ {
		req := vRequest("req")
		want := plain.search(req)
		got := cached.search(req)
		if want.code != 0 {
			verifAssert(got.code == want.code, "same-status-with-cache")
		} else {
			verifAssert(got.code == 0 && got.path != nil && vEntryOf[got.path] == vEntryOf[want.path], "same-route-with-cache")
		}
	}
	if vCacheHits > 0 {
		verifCover("cache-hit")
	}
}

// verifC05_Enforce: IP filters at the three levels, with the cache, over a history.
func verifC05_Enforce() {
	spec := vSpec(true, uint32(verifBound("cacheSize")))
	mi := vInstance(spec)
	vCacheLog, vCacheHits = nil, 0
	h := verifBound("history")
	for k := 0; k < h; k++ {
		req := vRequest("req")
		ip := req.RealIP()
		got := mi.search(req)
		want := vRefSearch(mi, req) // the route if no filter existed
		allow := func(s *ipfilter.Spec) bool { return s == nil || verifUFBool("ipAllow", s, ip) }
		if want.code == 0 {
			deniedByOwn := !allow(spec.IPFilter) || !allow(want.rule.IPFilter) || !allow(want.entry.IPFilter)
			if deniedByOwn {
				verifAssert(got.code == 403, "denied-client-gets-403-when-route-exists")
				verifCover("denied")
			}
		} else if !allow(spec.IPFilter) {
			verifAssert(got.code >= 400 && got.code < 500, "denied-client-gets-4xx")
		}
		// the filter of a rule applies to every request of the rule's host that the router takes
		// to that rule, i.e. that no earlier rule routes - whether or not the rule itself has an
		// entry for it (a client the rule denies must not slip through to a later catch-all rule)
		for _, r := range mi.rules {
			if !vRuleMatch(r, req) {
				continue
			}
			if !allow(vRuleOf[r].IPFilter) {
				verifAssert(got.code >= 400 && got.code < 500, "denied-by-a-rule-of-its-host-gets-4xx")
				if want.code == 0 {
					verifAssert(got.code == 403, "denied-client-gets-403-when-route-exists")
					if vRuleOf[r] != want.rule {
						verifCover("denied-by-an-earlier-rule-of-its-host")
					}
				}
				break
			}
			if want.code == 0 && vRuleOf[r] == want.rule {
				break
			}
		}
		// allowed by every filter of the server: routed exactly as if no filter existed
		all := allow(spec.IPFilter)
		for _, r := range spec.Rules {
			all = all && allow(r.IPFilter)
			for _, p := range r.Paths {
				all = all && allow(p.IPFilter)
			}
		}
		if all {
			verifAssert(vSame(got, want), "allowed-client-routed-as-without-filters")
			verifCover("allowed")
		}
		// the path-level filters of OTHER entries do not apply to the request: allowed by the
		// server filter, by every rule filter and by the filter of the entry it is routed to
		if want.code == 0 {
			own := allow(spec.IPFilter) && allow(want.entry.IPFilter)
			for _, r := range spec.Rules {
				own = own && allow(r.IPFilter)
			}
			if own {
				verifAssert(vSame(got, want), "filters-of-other-entries-do-not-apply")
				if !all {
					verifCover("denied-only-by-another-entrys-filter")
				}
			}
		}
	}
	if vCacheHits > 0 {
		verifCover("cache-hit")
	}
}

// verifC05_EnforceTwoRules: the same oracle over TWO rules with one entry each - a request may be
// denied by the first rule's filter although only the second rule has an entry for it.
func verifC05_EnforceTwoRules() { verifC05_Enforce() }

// ---- hash functions may collide -------------------------------------------------------------
// A route cache keyed by a HASH of the request is only as good as the hash is collision-free:
// the statement asks for transparency "even if a request was crafted to collide". fnv.New32 /
// New32a are replaced by an uninterpreted function of the bytes written: equal inputs hash
// equally, different inputs may or may not - the solver looks for the collision.
type vFnv struct{ data []byte }

func (h *vFnv) Write(p []byte) (int, error) { h.data = append(h.data, p...); return len(p), nil }
func (h *vFnv) Sum(b []byte) []byte         { return b }
func (h *vFnv) Reset()                      { h.data = nil }
func (h *vFnv) Size() int                   { return 4 }
func (h *vFnv) BlockSize() int              { return 1 }
func (h *vFnv) Sum32() uint32               { return uint32(verifUFInt("fnv32", 0, 1<<32-1, string(h.data))) }

func vNewFnv32() hash.Hash32 { return &vFnv{} }
