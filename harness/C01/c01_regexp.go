package httpserver

import (
	"net/http"
	"net/url"

	"github.com/megaease/easegress/pkg/protocols/httpprot"
)

// ---------------------------------------------------------------------------
// C01 lemma A/B with regular expressions: the REAL regexp package (compiler and
// matcher) is executed symbolically by the engine. The patterns come from a
// concrete pool (they are compiled by the real newMuxRule / newMuxPath /
// initHeaderRoute inside the engine), the request strings are bounded symbolic.
// Each pool pattern has a reference predicate written by hand from the meaning
// of the pattern (not from the regexp package).
// ---------------------------------------------------------------------------

var vHostREs = []string{`^a+\.x$`, `\.ex$`, `^(ab|c)`, `b`}

func vAllByte(s string, lo, hi byte) bool {
	ok := true
	for i := 0; i < len(s); i++ {
		if s[i] < lo || s[i] > hi {
			ok = false
		}
	}
	return ok
}

func vHasSuffix(s, suf string) bool {
	return len(s) >= len(suf) && s[len(s)-len(suf):] == suf
}

func vHasPrefix(s, pre string) bool {
	return len(s) >= len(pre) && s[:len(pre)] == pre
}

func vContainsByte(s string, c byte) bool {
	found := false
	for i := 0; i < len(s); i++ {
		if s[i] == c {
			found = true
		}
	}
	return found
}

func vHostREMatch(k int, h string) bool {
	switch k {
	case 0:
		return len(h) >= 3 && vHasSuffix(h, ".x") && vAllByte(h[:len(h)-2], 'a', 'a')
	case 1:
		return vHasSuffix(h, ".ex")
	case 2:
		return vHasPrefix(h, "ab") || vHasPrefix(h, "c")
	}
	return vContainsByte(h, 'b')
}

var vPathREs = []string{`^/a/[0-9]+$`, `^/v(1|2)/`, `/x$`, `^/(a|b)c?$`}

func vPathREMatch(k int, p string) bool {
	switch k {
	case 0:
		return len(p) >= 4 && vHasPrefix(p, "/a/") && vAllByte(p[3:], '0', '9')
	case 1:
		return vHasPrefix(p, "/v1/") || vHasPrefix(p, "/v2/")
	case 2:
		return vHasSuffix(p, "/x")
	}
	return p == "/a" || p == "/b" || p == "/ac" || p == "/bc"
}

var vHeaderREs = []string{`^t[0-9]$`, `ok`}

func vHeaderREMatch(k int, v string) bool {
	if k == 0 {
		return len(v) == 2 && v[0] == 't' && v[1] >= '0' && v[1] <= '9'
	}
	found := false
	for i := 0; i+1 < len(v); i++ {
		if v[i] == 'o' && v[i+1] == 'k' {
			found = true
		}
	}
	return found
}

// verifC01_RegexpHost: host matches when it equals rule.host OR matches rule.hostRegexp;
// the port of the request is ignored for both.
func verifC01_RegexpHost() {
	n := verifBound("maxStr")
	k := verifChoose("rule.hostRegexp", len(vHostREs))
	rule := &Rule{HostRegexp: vHostREs[k]}
	if verifBool("rule.hasExactHost") {
		rule.Host = verifString("rule.host", n)
		verifAssume(rule.Host != "")
	}
	mr := newMuxRule(nil, rule, nil)
	verifAssert(mr.hostRE != nil, "pattern-compiled")

	name := verifString("req.hostname", n)
	verifAssume(vNoneOf(name, ":[]"))
	host := name
	if verifBool("req.hasPort") {
		port := verifString("req.port", 2)
		verifAssume(vNoneOf(port, ":[]"))
		host = name + ":" + port
		verifCover("host-with-port")
	}
	req := &httpprot.Request{Request: &http.Request{Host: host, URL: &url.URL{}, Header: http.Header{}}}
	got := mr.match(req)
	want := (rule.Host != "" && rule.Host == name) || vHostREMatch(k, name)
	verifAssert(got == want, "host-exact-or-regexp-ignoring-port")
	if got && !(rule.Host != "" && rule.Host == name) {
		verifCover("matched-by-hostRegexp")
	}
	if !got {
		verifCover("host-rejected")
	}
}

// verifC01_RegexpPath: path = exact OR prefix OR regexp.
func verifC01_RegexpPath() {
	n := verifBound("maxStr")
	k := verifChoose("entry.pathRegexp", len(vPathREs))
	p := &Path{Backend: "b", PathRegexp: vPathREs[k]}
	if verifBool("entry.hasPath") {
		p.Path = verifString("entry.path", n)
	}
	if verifBool("entry.hasPrefix") {
		p.PathPrefix = verifString("entry.pathPrefix", 2)
	}
	mp := newMuxPath(nil, p)
	verifAssert(mp.pathRE != nil, "pattern-compiled")
	path := verifString("req.path", n)
	req := &httpprot.Request{Request: &http.Request{Method: "GET", URL: &url.URL{Path: path}, Header: http.Header{}}}
	plain := (p.Path != "" && path == p.Path) || (p.PathPrefix != "" && vHasPrefix(path, p.PathPrefix))
	wantPath := plain || vPathREMatch(k, path)
	verifAssert(mp.matchPath(req) == wantPath, "path-exact-or-prefix-or-regexp")
	if wantPath && !plain {
		verifCover("matched-by-pathRegexp")
	}
	if !wantPath {
		verifCover("path-rejected")
	}
	verifAssert(req.Path() == path, "match-does-not-modify-request")
}

// verifC01_RegexpHeaders: header matcher = values and/or regexp, with and without matchAllHeader.
func verifC01_RegexpHeaders() {
	p := &Path{Backend: "b"}
	keys := []string{"X-A", "X-B"}
	nh := verifBound("headerMatchers")
	var hk [2]int
	for i := 0; i < nh; i++ {
		h := &Header{Key: keys[i]}
		hk[i] = verifChoose("entry.headerRegexp", len(vHeaderREs))
		h.Regexp = vHeaderREs[hk[i]]
		if verifBool("entry.headerHasValues") {
			h.Values = []string{verifString("entry.headerValue", 2)}
		}
		p.Headers = append(p.Headers, h)
	}
	p.MatchAllHeader = verifBool("entry.matchAllHeader")
	mp := newMuxPath(nil, p)
	hdr := http.Header{}
	var vals [2]string
	for i := 0; i < nh; i++ {
		if verifBool("req.hasHeader") {
			vals[i] = verifString("req.headerValue", 3)
			hdr[keys[i]] = []string{vals[i]}
		}
	}
	req := &httpprot.Request{Request: &http.Request{Method: "GET", URL: &url.URL{Path: "/"}, Header: hdr}}
	want := p.MatchAllHeader
	for i, h := range p.Headers {
		re := vHeaderREMatch(hk[i], vals[i])
		if p.MatchAllHeader {
			// every configured condition of every matcher must hold
			ok := re
			if len(h.Values) > 0 {
				ok = ok && vIn(vals[i], h.Values)
			}
			want = want && ok
		} else {
			// one value or regexp of one matcher suffices
			want = want || re || vIn(vals[i], h.Values)
		}
	}
	verifAssert(mp.matchHeaders(req) == want, "header-values-and-regexp")
	if want {
		verifCover("headers-matched")
	} else {
		verifCover("headers-rejected")
	}
}

// verifC01_RegexpRewrite: a regexp path with a rewrite target: the path the backend sees is
// ReplaceAll(path, pattern -> target) with $1 expanding to the first group.
func verifC01_RegexpRewrite() {
	n := verifBound("maxStr")
	path := verifString("req.path", n)
	req := &httpprot.Request{Request: &http.Request{Method: "GET", URL: &url.URL{Path: path}, Header: http.Header{}}}
	switch verifChoose("entry.rewriteKind", 3) {
	case 0:
		mp := newMuxPath(nil, &Path{Backend: "b", PathRegexp: `^/a/([0-9]+)$`, RewriteTarget: `/b/$1`})
		m := len(path) >= 4 && vHasPrefix(path, "/a/") && vAllByte(path[3:], '0', '9')
		verifAssert(mp.matchPath(req) == m, "path-regexp")
		if m {
			mp.rewrite(req)
			verifAssert(req.Path() == "/b/"+path[3:], "rewrite-expands-group")
			verifCover("group-expanded")
		}
	case 1:
		mp := newMuxPath(nil, &Path{Backend: "b", PathRegexp: `/x$`, RewriteTarget: `/y`})
		m := vHasSuffix(path, "/x")
		verifAssert(mp.matchPath(req) == m, "path-regexp")
		if m {
			mp.rewrite(req)
			verifAssert(req.Path() == path[:len(path)-2]+"/y", "rewrite-replaces-the-match-only")
			verifCover("suffix-replaced")
		}
	case 2:
		mp := newMuxPath(nil, &Path{Backend: "b", PathRegexp: `^/old`, RewriteTarget: `/new`})
		m := vHasPrefix(path, "/old")
		verifAssert(mp.matchPath(req) == m, "path-regexp")
		if m {
			mp.rewrite(req)
			verifAssert(req.Path() == "/new"+path[4:], "rewrite-keeps-the-remainder")
			verifCover("prefix-replaced")
		}
	}
}
