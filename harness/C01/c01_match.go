package httpserver

import (
	"net/http"
	"net/url"
	"strings"

	"github.com/megaease/easegress/pkg/protocols/httpprot"
)

// ---------------------------------------------------------------------------
// C01 lemmas A and B: the REAL match methods (muxRule.match, MuxPath.matchPath,
// matchMethod, matchHeaders, rewrite) and constructors (newMuxRule, newMuxPath)
// over bounded symbolic strings, against reference predicates written from the
// statement. Regular expressions are outside these lemmas (see DESIGN).
// ---------------------------------------------------------------------------

func vNoneOf(s string, chars string) bool {
	for i := 0; i < len(chars); i++ {
		if strings.IndexByte(s, chars[i]) >= 0 {
			return false
		}
	}
	return true
}

// verifC01_Host: host equals the rule host, the port of the request is ignored.
func verifC01_Host() {
	n := verifBound("maxStr")
	ruleHost := verifString("rule.host", n)
	mr := newMuxRule(nil, &Rule{Host: ruleHost}, nil)

	name := verifString("req.hostname", n)
	var host string
	switch verifChoose("req.hostShape", 3) {
	case 0: // name
		verifAssume(vNoneOf(name, ":[]"))
		host = name
		verifCover("host-without-port")
	case 1: // name:port
		port := verifString("req.port", 2)
		verifAssume(vNoneOf(name, ":[]") && vNoneOf(port, ":[]"))
		host = name + ":" + port
		verifCover("host-with-port")
	case 2: // [v6]:port
		port := verifString("req.port", 2)
		verifAssume(vNoneOf(name, "[]") && vNoneOf(port, ":[]"))
		host = "[" + name + "]:" + port
		verifCover("bracketed-host-with-port")
	}
	req := &httpprot.Request{Request: &http.Request{Host: host, URL: &url.URL{}, Header: http.Header{}}}
	got := mr.match(req)
	want := ruleHost == "" || ruleHost == name
	verifAssert(got == want, "host-match-ignores-port")
	verifAssert(req.Host() == host, "match-does-not-modify-request")
	if got && ruleHost != "" {
		verifCover("matched-by-host")
	}
}

var vMethodNames = []string{"GET", "HEAD", "POST", "PUT", "DELETE"}

func vMethod(label string) string {
	k := verifChoose(label, len(vMethodNames)+1)
	if k == len(vMethodNames) {
		return verifString(label+".token", 2)
	}
	return vMethodNames[k]
}

func vIn(s string, list []string) bool {
	for _, x := range list {
		if x == s {
			return true
		}
	}
	return false
}

// verifC01_Entry: path (exact / prefix), method list, header value matchers with and
// without matchAllHeader, and the rewrite of the path.
func verifC01_Entry() {
	n := verifBound("maxStr")
	p := &Path{Backend: "b"}
	switch verifChoose("entry.pathKind", 4) {
	case 0: // no path condition
	case 1:
		p.Path = verifString("entry.path", n)
	case 2:
		p.PathPrefix = verifString("entry.pathPrefix", n)
	case 3:
		p.Path = verifString("entry.path", n)
		p.PathPrefix = verifString("entry.pathPrefix", n)
	}
	nm := verifChoose("entry.methods", 3)
	for i := 0; i < nm; i++ {
		p.Methods = append(p.Methods, verifString("entry.method", 2))
	}
	nh := verifChoose("entry.headerMatchers", verifBound("maxHeaderMatchers")+1)
	keys := []string{"X-A", "X-B"}
	for i := 0; i < nh; i++ {
		h := &Header{Key: keys[i]}
		nv := verifChoose("entry.headerValues", 2) + 1
		for k := 0; k < nv; k++ {
			h.Values = append(h.Values, verifString("entry.headerValue", 2))
		}
		p.Headers = append(p.Headers, h)
	}
	p.MatchAllHeader = verifBool("entry.matchAllHeader")
	hasRewrite := verifBool("entry.hasRewrite")
	if hasRewrite {
		// an entry with a rewrite target has a path condition (Validate); it may combine an
		// exact path with a prefix: the rewrite then follows the condition that matched
		verifAssume(p.Path != "" || p.PathPrefix != "")
		p.RewriteTarget = verifString("entry.rewriteTarget", 2)
		verifAssume(p.RewriteTarget != "")
	}
	mp := newMuxPath(nil, p)

	path := verifString("req.path", n)
	method := verifString("req.method", 2)
	hdr := http.Header{}
	var vals [2]string
	for i := 0; i < 2; i++ {
		if verifBool("req.hasHeader") {
			vals[i] = verifString("req.headerValue", 2)
			hdr[keys[i]] = []string{vals[i]}
		}
	}
	req := &httpprot.Request{Request: &http.Request{Method: method, URL: &url.URL{Path: path}, Header: hdr}}

	// reference predicates (statement semantics)
	wantPath := (p.Path == "" && p.PathPrefix == "") || (p.Path != "" && path == p.Path) ||
		(p.PathPrefix != "" && len(path) >= len(p.PathPrefix) && path[:len(p.PathPrefix)] == p.PathPrefix)
	wantMethod := len(p.Methods) == 0 || vIn(method, p.Methods)
	wantHeaders := p.MatchAllHeader
	for i, h := range p.Headers {
		ok := vIn(vals[i], h.Values)
		if p.MatchAllHeader {
			wantHeaders = wantHeaders && ok
		} else {
			wantHeaders = wantHeaders || ok
		}
	}
	verifAssert(mp.matchPath(req) == wantPath, "path-match")
	verifAssert(mp.matchMethod(req) == wantMethod, "method-match")
	if len(p.Headers) > 0 {
		verifAssert(mp.matchHeaders(req) == wantHeaders, "header-match")
		if wantHeaders {
			verifCover("headers-matched")
		}
	}
	verifAssert(req.Path() == path && req.Method() == method, "match-does-not-modify-request")
	if wantPath && hasRewrite {
		mp.rewrite(req)
		if p.Path != "" && path == p.Path {
			verifAssert(req.Path() == p.RewriteTarget, "rewrite-exact-path")
			verifCover("rewrite-exact")
		} else {
			verifAssert(req.Path() == p.RewriteTarget+path[len(p.PathPrefix):], "rewrite-prefix-keeps-remainder")
			verifCover("rewrite-prefix")
			if p.Path != "" {
				verifCover("rewrite-by-prefix-on-an-entry-that-also-has-an-exact-path")
			}
		}
	} else if wantPath {
		mp.rewrite(req)
		verifAssert(req.Path() == path, "no-rewrite-target-leaves-path")
	}
}

// verifC01_Method: the method condition with real method names: an entry admits exactly the
// methods it lists (no list = every method); HEAD is not GET, names are case-sensitive tokens.
func verifC01_Method() {
	p := &Path{Backend: "b", Path: "/x"}
	nm := verifChoose("entry.methods", 4)
	for i := 0; i < nm; i++ {
		p.Methods = append(p.Methods, vMethod("entry.method"))
	}
	mp := newMuxPath(nil, p)
	method := vMethod("req.method")
	req := &httpprot.Request{Request: &http.Request{Method: method, URL: &url.URL{Path: "/x"}, Header: http.Header{}}}
	want := len(p.Methods) == 0 || vIn(method, p.Methods)
	verifAssert(mp.matchMethod(req) == want, "method-match")
	if want && nm > 0 {
		verifCover("listed-method")
	}
	if !want {
		verifCover("method-not-listed")
	}
}
