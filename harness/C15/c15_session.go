package mqttproxy

import (
	"github.com/eclipse/paho.mqtt.golang/packets"
)

// White-box part of the C15 harnesses (calls Session.doResend directly and builds the pending
// queue field by field). Kept in its own file: when the code under test changes what is
// referred to here, the engine drops this file (its harness becomes inconclusive) and still
// runs the harnesses of c15_delivery.go and of the suites that share it.

// verifC15_SessionStep: one operation on a session from an arbitrary in-flight state.
type vInflight struct {
	id      uint16
	topic   string
	payload byte
	acked   bool
}

func verifC15_SessionStep() {
	b := vBroker()
	c := vClient(b, "c0", 8)
	b.clients["c0"] = c
	s := c.session
	n := verifChoose("inflight", verifBound("maxInflight")+1)
	var q [4]vInflight
	first := uint16(verifInt("firstID", 0, 60000))
	trimmed := 0 // entries dropped from the head of pendingQueue by an earlier resend
	if n > 0 {
		trimmed = verifChoose("queueTrimmed", n+1)
	}
	topics := []string{"t0", "t1"}
	for i := 0; i < n; i++ {
		q[i] = vInflight{id: first + uint16(i), topic: topics[verifChoose("topic", 2)], payload: verifByte("payload"), acked: verifBool("acked")}
		if i < trimmed {
			verifAssume(q[i].acked) // only acknowledged entries are ever trimmed
		}
		if !q[i].acked {
			s.pending[q[i].id] = newMsg(q[i].topic, []byte{q[i].payload}, QoS1)
		}
		if i >= trimmed {
			s.pendingQueue = append(s.pendingQueue, q[i].id)
		}
	}
	s.nextID = first + uint16(n)

	switch verifChoose("op", 3) {
	case 0: // publish QoS1
		pl := verifByte("newPayload")
		s.publish(nil, "t1", []byte{pl}, QoS1)
		verifAssert(len(c.writeCh) == 1, "publish-sends-once")
		p := (<-c.writeCh).(*packets.PublishPacket)
		verifAssert(p.MessageID == first+uint16(n) && p.TopicName == "t1" && p.Payload[0] == pl && p.Qos == QoS1, "publish-packet")
		m, ok := s.pending[p.MessageID]
		verifAssert(ok && m.Topic == "t1", "published-message-is-pending")
		verifAssert(len(s.pendingQueue) > 0 && s.pendingQueue[len(s.pendingQueue)-1] == p.MessageID, "published-message-queued-last")
		verifCover("published")
	case 1: // PUBACK with an arbitrary id
		id := uint16(verifInt("ackID", 0, 65535))
		ack := packets.NewControlPacket(packets.Puback).(*packets.PubackPacket)
		ack.MessageID = id
		// through the client's packet dispatch, as a PUBACK arrives from the connection (every
		// 16-bit id may be in flight: the session numbers its packets from 0 and wraps around)
		verifAssert(c.processPacket(ack) == nil, "puback-accepted")
		verifAssert(len(c.writeCh) == 0, "puback-sends-nothing")
		for i := 0; i < n; i++ {
			_, pending := s.pending[q[i].id]
			if q[i].id == id {
				verifAssert(!pending, "acknowledged-message-no-longer-pending")
				verifCover("acked")
			} else {
				verifAssert(pending == !q[i].acked, "other-messages-untouched")
			}
		}
	case 2: // resend tick
		s.doResend()
		oldest := -1
		for i := 0; i < n; i++ {
			if !q[i].acked {
				oldest = i
				break
			}
		}
		if oldest < 0 {
			verifAssert(len(c.writeCh) == 0, "nothing-retransmitted-when-all-acknowledged")
			verifCover("idle-tick")
		} else {
			verifAssert(len(c.writeCh) == 1, "exactly-one-retransmission-per-tick")
			if len(c.writeCh) == 1 {
				p := (<-c.writeCh).(*packets.PublishPacket)
				verifAssert(p.MessageID == q[oldest].id, "oldest-unacknowledged-retransmitted")
				verifAssert(p.TopicName == q[oldest].topic && len(p.Payload) == 1 && p.Payload[0] == q[oldest].payload && p.Qos == QoS1, "retransmission-carries-original-message")
			}
			verifCover("retransmitted")
		}
	}
	// whatever the operation: every message that is still unacknowledged stays reachable
	// by later resend ticks (it is in the resend queue and in the pending set)
	for i := 0; i < n; i++ {
		_, pending := s.pending[q[i].id]
		if pending {
			found := false
			for _, id := range s.pendingQueue {
				if id == q[i].id {
					found = true
				}
			}
			verifAssert(found, "unacknowledged-message-stays-in-resend-queue")
		}
	}
}


// verifC15_ResendVsPuback: "a message is not retransmitted after it is acknowledged" under
// concurrency - a resend tick runs while the client's PUBACK for the only in-flight message is
// being processed. Under every interleaving: whatever is put on the connection's queue is put
// there before the processing of the PUBACK has finished (the decision to retransmit and the
// enqueueing are one step with respect to the acknowledgement).
func verifC15_ResendVsPuback() {
	b := vBroker()
	c := vClient(b, "c0", 8)
	b.clients["c0"] = c
	s := c.session
	verifRaceScope(s, "Session")
	id := uint16(verifInt("inflightID", 0, 65535))
	s.pending[id] = newMsg("t0", []byte{1}, QoS1)
	s.pendingQueue = append(s.pendingQueue, id)
	s.nextID = id + 1
	done := make(chan struct{})
	go func() {
		s.doResend()
		close(done)
	}()
	ack := packets.NewControlPacket(packets.Puback).(*packets.PubackPacket)
	ack.MessageID = id
	verifAssert(c.processPacket(ack) == nil, "puback-accepted")
	queuedWhenAcknowledged := len(c.writeCh)
	<-done
	verifAssert(len(c.writeCh) == queuedWhenAcknowledged, "no-retransmission-after-the-acknowledgement")
	if queuedWhenAcknowledged == 1 {
		verifCover("retransmitted-before-the-acknowledgement")
	} else {
		verifCover("acknowledged-before-the-tick")
	}
}
