package mqttproxy

import (
	"encoding/base64"
	"time"

	"github.com/eclipse/paho.mqtt.golang/packets"
	"github.com/megaease/easegress/pkg/context"
	"github.com/megaease/easegress/pkg/protocols/mqttprot"
)

// ---------------------------------------------------------------------------
// C15 harnesses, package mqttproxy.
// ---------------------------------------------------------------------------

// base64 is replaced by the identity (contract: Decode(Encode(b)) == b)
func vB64Encode(enc *base64.Encoding, src []byte) string        { return string(src) }
func vB64Decode(enc *base64.Encoding, s string) ([]byte, error) { return []byte(s), nil }
func vLevelsBySplit(t *topicLevelManager, topic string) ([]string, error) {
	levels, ok := splitTopic(topic)
	if !ok {
		return nil, errInvalidTopic
	}
	return levels, nil
}

var errInvalidTopic = &vErr{}

type vErr struct{}

func (e *vErr) Error() string { return "invalid topic" }

func vBroker() *Broker {
	return &Broker{clients: map[string]*Client{}, topicMgr: &TopicManager{root: newNode(), levelMgr: &topicLevelManager{}},
		pipelines: map[PacketType]string{}}
}

func vSession(b *Broker, cid string) *Session {
	return &Session{broker: b, info: &SessionInfo{ClientID: cid, Topics: map[string]int{}}, pending: map[uint16]*Message{}, pendingQueue: []uint16{}}
}

func vClient(b *Broker, cid string, queue int) *Client {
	c := &Client{broker: b, writeCh: make(chan packets.ControlPacket, queue), done: make(chan struct{})}
	c.info.cid = cid
	c.session = vSession(b, cid)
	c.statusFlag = Connected
	return c
}

// verifC15_Fanout: a message for topic T at QoS q reaches every connected client
// with a matching subscription of QoS >= q, whatever the visiting order.
func verifC15_Fanout() {
	b := vBroker()
	n := verifBound("clients")
	ids := []string{"c0", "c1", "c2"}
	var cl [3]*Client
	var connected, matching [3]bool
	var subQoS [3]byte
	for i := 0; i < n; i++ {
		cl[i] = vClient(b, ids[i], 4)
		connected[i] = verifBool("connected")
		if connected[i] {
			b.clients[ids[i]] = cl[i]
		}
		subQoS[i] = byte(verifInt("subscriptionQoS", 0, 1))
		matching[i] = verifBool("subscriptionMatches")
		filter := "other/topic"
		if matching[i] {
			filter = []string{"a/b", "a/+", "#"}[i]
		}
		if verifBool("subscribedBeforeWithAnotherQoS") {
			// the subscription in force is the latest one
			b.topicMgr.subscribe([]string{filter}, []byte{1 - subQoS[i]}, ids[i])
			verifCover("re-subscribed-with-another-qos")
		}
		b.topicMgr.subscribe([]string{filter}, []byte{subQoS[i]}, ids[i])
		// a second, overlapping filter of the same client that matches the topic as well: the
		// client is eligible if ANY of its matching subscriptions has a sufficient QoS
		if matching[i] && verifBool("secondOverlappingFilter") {
			q2 := byte(verifInt("secondFilterQoS", 0, 1))
			b.topicMgr.subscribe([]string{"a/#"}, []byte{q2}, ids[i])
			if q2 > subQoS[i] {
				subQoS[i] = q2
			}
			verifCover("overlapping-filters-of-one-client")
		}
	}
	// delivery is independent of which other clients are or were subscribed: another client
	// subscribes to sibling / deeper filters sharing the prefix and leaves again
	if verifBool("anotherClientCameAndWent") {
		b.topicMgr.subscribe([]string{"a/c", "a/b/d"}, []byte{1, 1}, "x")
		if verifBool("leftInOnePacket") {
			b.topicMgr.unsubscribe([]string{"a/c", "a/b/d"}, "x")
		} else {
			b.topicMgr.unsubscribe([]string{"a/b/d"}, "x")
			b.topicMgr.unsubscribe([]string{"a/c"}, "x")
		}
		verifCover("another-subscriber-left")
	}
	q := byte(verifInt("messageQoS", 0, 1))
	payload := []byte{verifByte("payload0"), verifByte("payload1")}
	b.sendMsgToClient(nil, "a/b", payload, q)

	for i := 0; i < n; i++ {
		eligible := connected[i] && matching[i] && subQoS[i] >= q
		got := len(cl[i].writeCh)
		if eligible {
			verifAssert(got == 1, "eligible-subscriber-gets-the-message-once")
			if got == 1 {
				p := (<-cl[i].writeCh).(*packets.PublishPacket)
				verifAssert(p.TopicName == "a/b" && p.Qos == q && len(p.Payload) == 2 && p.Payload[0] == payload[0] && p.Payload[1] == payload[1], "delivered-message-content")
			}
			verifCover("delivered")
		} else {
			verifAssert(got == 0, "ineligible-client-gets-nothing")
			if connected[i] && matching[i] {
				verifCover("lower-qos-subscriber-skipped")
			}
		}
	}
}

// verifC15_FanoutChurn: delivery to every eligible subscriber "regardless of which other clients
// exist": while the message is fanned out to two QoS1 subscribers an unrelated client leaves
// the broker (removeClient takes the broker's write lock) - under every interleaving both
// subscribers get the message and the fan-out returns.
func verifC15_FanoutChurn() {
	b := vBroker()
	ids := []string{"c0", "c1"}
	var cl [2]*Client
	for i := range ids {
		cl[i] = vClient(b, ids[i], 4)
		b.clients[ids[i]] = cl[i]
		b.topicMgr.subscribe([]string{[]string{"a/b", "a/+"}[i]}, []byte{1}, ids[i])
	}
	x := vClient(b, "x", 4)
	b.clients["x"] = x
	if verifBool("the-leaving-client-is-marked-disconnected") {
		x.statusFlag = Disconnected
	}
	done := make(chan struct{})
	go func() {
		b.removeClient("x")
		close(done)
	}()
	b.sendMsgToClient(nil, "a/b", []byte{1, 2}, 1)
	<-done
	for i := range ids {
		verifAssert(len(cl[i].writeCh) == 1, "eligible-subscriber-gets-the-message-once")
	}
	verifCover("fanned-out-under-churn")
}

// ---- client PUBLISH path ---------------------------------------------------------

type vHandler struct {
	calls   int
	verdict int // 0 pass, 1 drop, 2 disconnect
}

func (h *vHandler) Handle(ctx *context.Context) string {
	h.calls++
	resp := ctx.GetResponse(context.DefaultNamespace).(*mqttprot.Response)
	switch h.verdict {
	case 1:
		resp.SetDrop()
	case 2:
		resp.SetDisconnect()
	}
	return ""
}

type vMapper struct{ h *vHandler }

func (m *vMapper) GetHandler(name string) (context.Handler, bool) { return m.h, true }

func vLimiterVerdict(l *Limiter, n int) bool { return verifUFBool("publishLimiter", n) }

// verifC15_ClientPublish: a PUBLISH that passes the limiter and the pipeline is
// handed to the backend pipeline once and (QoS1) acknowledged with the same id.
func verifC15_ClientPublish() {
	b := vBroker()
	h := &vHandler{verdict: verifChoose("pipelineVerdict", 3)}
	b.muxMapper = &vMapper{h}
	hasPipeline := verifBool("publishPipelineConfigured")
	if hasPipeline {
		b.pipelines[Publish] = "pub"
	}
	c := vClient(b, "c0", 4)
	c.publishLimit = &Limiter{}
	b.clients["c0"] = c
	pub := packets.NewControlPacket(packets.Publish).(*packets.PublishPacket)
	pub.Qos = byte(verifInt("qos", 0, 1))
	pub.MessageID = uint16(verifInt("messageID", 0, 65535))
	pub.Dup = verifBool("dupFlag") // a client retransmission is handled like a first transmission
	pub.Retain = verifBool("retainFlag")
	pub.TopicName = "a/b"
	pub.RemainingLength = int(verifInt("remainingLength", 0, 1000))
	limiterOK := verifUFBool("publishLimiter", pub.RemainingLength+8)
	err := c.processPacket(pub)
	verifAssert(err == nil, "publish-never-errors")
	if !limiterOK {
		verifAssert(h.calls == 0 && len(c.writeCh) == 0, "limited-publish-dropped")
		verifCover("limited")
		return
	}
	if hasPipeline {
		verifAssert(h.calls == 1, "backend-pipeline-invoked-once")
	}
	passed := !hasPipeline || h.verdict == 0
	if passed && pub.Qos == 1 {
		verifAssert(len(c.writeCh) == 1, "puback-queued")
		if len(c.writeCh) == 1 {
			ack, ok := (<-c.writeCh).(*packets.PubackPacket)
			verifAssert(ok && ack.MessageID == pub.MessageID, "puback-carries-the-same-id")
		}
		verifCover("acknowledged")
		if pub.Dup {
			verifCover("retransmission")
		}
	} else {
		verifAssert(len(c.writeCh) == 0, "no-puback")
	}
}

// verifC15_PubackUnderBackpressure: "a client's QoS1 PUBLISH is acknowledged with a PUBACK of the
// same id" when the client reads slowly - its outbound queue is full while the PUBLISH is being
// processed and stays full for two (virtual) seconds, then the client reads again: the PUBACK
// still arrives (nothing on the way to the connection gives up on a timer).
func verifC15_PubackUnderBackpressure() {
	b := vBroker()
	c := vClient(b, "c0", 1)
	c.publishLimit = &Limiter{}
	b.clients["c0"] = c
	filler := packets.NewControlPacket(packets.Pingresp)
	c.writeCh <- filler
	pub := packets.NewControlPacket(packets.Publish).(*packets.PublishPacket)
	pub.Qos, pub.TopicName = 1, "a/b"
	pub.MessageID = uint16(verifInt("messageID", 0, 65535))
	verifAssume(verifUFBool("publishLimiter", pub.RemainingLength+8))
	done := make(chan struct{})
	go func() {
		c.processPacket(pub)
		close(done)
	}()
	verifQuiesce()
	verifAdvance(int64(2 * time.Second)) // the peer does not read for two seconds
	verifQuiesce()
	<-c.writeCh // the peer reads again: the packet queued first leaves
	<-done
	verifAssert(len(c.writeCh) == 1, "puback-queued")
	if len(c.writeCh) == 1 {
		ack, ok := (<-c.writeCh).(*packets.PubackPacket)
		verifAssert(ok && ack.MessageID == pub.MessageID, "puback-carries-the-same-id")
	}
	verifCover("acknowledged-after-backpressure")
}
