package resilience

import (
	"context"
	"time"
)

// C13, resilience policies (package resilience): every policy the schema accepts
//   CircuitBreaker: failureRateThreshold, slowCallRateThreshold 1..100 (minimum/maximum apply to
//   the marshalled value, calibrated natively), slidingWindowSize >= 1, slidingWindowType one of
//   the two enum values, permittedNumberOfCallsInHalfOpenState / minimumNumberOfCalls any uint32
//   (no minimum), the three durations any text time.ParseDuration accepts (so any int64, also
//   zero and negative);
// creates a wrapper and serves calls with arbitrary outcomes without panicking.
// (The Retry policy is covered by verifC10_Retry, which is registered under C13 as well.)

var vDurVals = []time.Duration{-time.Second, 0, 1, time.Hour}

// vParseDurationCB: format=duration only says that the text parses; the value is arbitrary
// (memoised per text: the same text always parses to the same value).
var vParsedCB = map[string]time.Duration{}

func vParseDurationCB(s string) (time.Duration, error) {
	if d, ok := vParsedCB[s]; ok {
		return d, nil
	}
	vParsedCB[s] = vDurVals[verifChoose("parsedDuration:"+s, len(vDurVals))]
	return vParsedCB[s], nil
}

func verifC13_CircuitBreakerPolicy() {
	vParsedCB = map[string]time.Duration{}
	// numeric ranges are read from the jsonschema tags of the current source (vSchemaInt)
	tmin := func(f string) int64 { return int64(vSchemaMinimum(CircuitBreakerPolicy{}, f, 0)) }
	tmax := func(f string) int64 { return int64(vSchemaInt(CircuitBreakerPolicy{}, f, "maximum", 255)) }
	wmin := vSchemaMinimum(CircuitBreakerPolicy{}, "SlidingWindowSize", 0)
	p := &CircuitBreakerPolicy{
		FailureRateThreshold:             uint8(verifInt("failureRateThreshold", tmin("FailureRateThreshold"), tmax("FailureRateThreshold"))),
		SlowCallRateThreshold:            uint8(verifInt("slowCallRateThreshold", tmin("SlowCallRateThreshold"), tmax("SlowCallRateThreshold"))),
		SlidingWindowSize:                uint32(verifChoose("slidingWindowSize-min", verifBound("maxWindow")+1-wmin) + wmin),
		PermittedNumberOfCallsInHalfOpen: uint32(verifChoose("permittedNumberOfCallsInHalfOpenState", 3)),
		MinimumNumberOfCalls:             uint32(verifChoose("minimumNumberOfCalls", verifBound("maxWindow")+2)),
		CountingNetworkError:             verifBool("countingNetworkError"),
	}
	p.SlidingWindowType = []string{"", "COUNT_BASED", "TIME_BASED"}[verifChoose("slidingWindowType", 3)]
	if verifBool("hasSlowCallDurationThreshold") {
		p.SlowCallDurationThreshold = "S"
	}
	if verifBool("hasMaxWaitDurationInHalfOpenState") {
		p.MaxWaitDurationInHalfOpen = "M"
	}
	if verifBool("hasWaitDurationInOpenState") {
		p.WaitDurationInOpen = "W"
	}
	verifAssume(p.Validate() == nil)
	w := p.CreateWrapper() // a panic here or below is reported as a violation
	calls := verifBound("calls")
	admitted := 0
	for i := 0; i < calls; i++ {
		fail := verifBool("callFails")
		err := w.Wrap(func(ctx context.Context) error {
			admitted++
			if fail {
				return errHandler
			}
			return nil
		})(context.Background())
		if err == ErrShortCircuited {
			verifCover("short-circuited")
		}
	}
	if admitted == calls {
		verifCover("all-admitted")
	}
}
