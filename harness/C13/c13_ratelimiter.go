package ratelimiter

import (
	"errors"
	"github.com/megaease/easegress/pkg/v"
	"net/http"
	"net/url"
	"reflect"
	"strconv"
	"strings"
	"time"

	"github.com/megaease/easegress/pkg/protocols/httpprot"
	"github.com/megaease/easegress/pkg/util/urlrule"
)

// C13, kind RateLimiter (package filters/ratelimiter): every spec that validation
// accepts can be initialised and can handle a request without panicking.
// Validation = JSON-schema tags (modelled by the assumptions below, read from the
// struct tags) AND the real Validate() methods (executed).
//   Policy.Name required; timeoutDuration / limitRefreshPeriod: omitempty,
//   format=duration (any text time.ParseDuration accepts: zero and negative
//   durations included); limitForPeriod: minimum=1 (the yaml tag has no omitempty, so the
//   field is always present and 0 is rejected: calibrated against the real validator).

// vParseDuration: format=duration only guarantees that the text parses.
var vParsed = map[string]time.Duration{}

func vParseDuration(s string) (time.Duration, error) {
	if s == "" {
		return 0, errors.New("time: invalid duration")
	}
	if d, ok := vParsed[s]; ok {
		return d, nil // the same text always parses to the same duration
	}
	// representative values of every sign (the duration is a divisor / dividend in the limiter:
	// a fully symbolic 64-bit value is out of solver reach, see DESIGN 0.2)
	vals := []time.Duration{-time.Second, 0, 1, 10 * time.Millisecond, time.Second}
	vParsed[s] = vals[verifChoose("parsedDuration:"+s, len(vals))]
	return vParsed[s], nil
}

func vSchemaMin(v interface{}, field string) int {
	t := reflect.TypeOf(v)
	for i := 0; i < t.NumField(); i++ {
		f := t.Field(i)
		if f.Name != field {
			continue
		}
		for _, part := range strings.Split(f.Tag.Get("jsonschema"), ",") {
			if strings.HasPrefix(part, "minimum=") {
				if n, err := strconv.Atoi(part[len("minimum="):]); err == nil {
					return n
				}
			}
		}
	}
	return 0
}

func verifC13_RateLimiter() {
	vMono = 1 << 41
	// the admissible minimum of limitForPeriod is read from the jsonschema tag of the current source
	p := &Policy{Name: "p", LimitForPeriod: int(verifInt("limitForPeriod", int64(vSchemaMin(Policy{}, "LimitForPeriod")), 3))}
	if verifBool("hasTimeoutDuration") {
		p.TimeoutDuration = "T"
	}
	if verifBool("hasLimitRefreshPeriod") {
		p.LimitRefreshPeriod = "P"
	}
	// cross-references between the sections: defaultPolicyRef and the rule's policyRef are
	// each absent, the defined policy, or a name nothing defines (all schema-valid strings)
	refs := []string{"", "p", "zz"}
	spec := &Spec{Policies: []*Policy{p}, DefaultPolicyRef: refs[verifChoose("defaultPolicyRef", 3)],
		URLs: []*URLRule{{URLRule: urlrule.URLRule{URL: urlrule.StringMatch{Prefix: "/"}, PolicyRef: refs[verifChoose("url.policyRef", 3)]}}}}
	if spec.DefaultPolicyRef == "" && spec.URLs[0].PolicyRef == "p" {
		verifCover("rule-names-its-policy-no-default")
	}
	// what validation checks
	verifAssume(spec.Validate() == nil)
	for _, u := range spec.URLs {
		verifAssume(u.URL.Validate() == nil)
	}
	rl := &RateLimiter{spec: spec}
	rl.Init() // a panic here or below is reported as a violation
	requests := 2
	if spec.DefaultPolicyRef != "p" || spec.URLs[0].PolicyRef != "" {
		requests = 1 // the reference variants are about instantiation and the first request
	}
	for i := 0; i < requests; i++ {
		vMono += []int64{0, 1, 10000000, 1000000001}[verifChoose("elapsed", 4)]
		req := &httpprot.Request{Request: &http.Request{Method: "GET", URL: &url.URL{Path: "/x"}, Header: http.Header{}}}
		res, _ := vHandle(rl, req)
		verifAssert(res == "" || res == resultRateLimited, "declared-result")
	}
	verifCover("handled")
}

// verifC13_RateLimiterRegex: the Go-level half of the REAL v.Validate (traverseGo, format
// functions, Validate() methods) over a RateLimiter spec whose URL rule - a struct INLINED into
// the filter's rule - carries a regular expression: the spec is accepted iff the expression
// compiles, and an accepted spec instantiates and serves a request without panicking.
func verifC13_RateLimiterRegex() {
	vMono = 1 << 41
	res := []string{"", "^/a[0-9]+$", "(", "[a"}
	k := verifChoose("url.regex", len(res))
	usable := k < 2
	sm := urlrule.StringMatch{RegEx: res[k]}
	if k == 0 || verifBool("url.hasPrefixToo") {
		sm.Prefix = "/"
	}
	p := &Policy{Name: "p", LimitForPeriod: 1} // durations left to their defaults
	spec := &Spec{Policies: []*Policy{p}, DefaultPolicyRef: "p", URLs: []*URLRule{{URLRule: urlrule.URLRule{URL: sm}}}}
	spec.BaseSpec.MetaSpec.Name, spec.BaseSpec.MetaSpec.Kind = "rl", "RateLimiter"
	vr := v.Validate(spec)
	verifAssert(vr.Valid() == usable, "validation-accepts-iff-the-url-regexp-compiles")
	if !vr.Valid() {
		verifCover("rejected")
		return
	}
	verifCover("accepted")
	rl := &RateLimiter{spec: spec}
	rl.Init() // a panic here or below is reported as a violation
	req := &httpprot.Request{Request: &http.Request{Method: "GET", URL: &url.URL{Path: "/a1"}, Header: http.Header{}}}
	r, _ := vHandle(rl, req)
	verifAssert(r == "" || r == resultRateLimited, "declared-result")
}
