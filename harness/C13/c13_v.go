package v

import "reflect"

// C13 helper, package v: the JSON-schema half of v.Validate (YAML/JSON marshalling, schema
// generation and evaluation by third-party libraries) is outside the engine's reach; the
// harnesses state the schema constraints as assumptions. getSchemaMeta is replaced by this
// stub so that the REAL Validate still performs its Go-level half: traverseGo over the spec
// with the format functions and the Validate() methods.
func vGetSchemaMeta(t reflect.Type) (*schemaMeta, error) { return &schemaMeta{}, nil }

// vURLName replaces the urlname format function: the same set of names, written as a loop
// (the real one compiles `^[A-Za-z0-9\-_\.~]{1,253}$`, whose 253-fold expansion is compiled
// on every explored path otherwise).
func vURLName(v interface{}) error {
	s := v.(string)
	if len(s) < 1 || len(s) > 253 {
		return errInvalidName
	}
	for i := 0; i < len(s); i++ {
		c := s[i]
		if !(c >= 'A' && c <= 'Z' || c >= 'a' && c <= 'z' || c >= '0' && c <= '9' || c == '-' || c == '_' || c == '.' || c == '~') {
			return errInvalidName
		}
	}
	return nil
}

var errInvalidName = errorString("invalid name format")

type errorString string

func (e errorString) Error() string { return string(e) }
