package responseadaptor

// C13, kind ResponseAdaptor: a spec that validation accepts can be initialised.
func verifC13_ResponseAdaptor() {
	vals := []string{"", "gzip", "deflate"}
	spec := &Spec{Compress: vals[verifChoose("compress", 3)], Decompress: vals[verifChoose("decompress", 3)]}
	if verifBool("hasBody") {
		spec.Body = "b"
	}
	if v, ok := interface{}(spec).(interface{ Validate() error }); ok {
		verifAssume(v.Validate() == nil)
		verifCover("has-validate-method")
	}
	ra := &ResponseAdaptor{spec: spec}
	ra.Init() // a panic here is reported as a violation
	verifCover("initialised")
}
