package responseadaptor

import (
	"net/http"

	"github.com/megaease/easegress/pkg/context"
	"github.com/megaease/easegress/pkg/protocols/httpprot"
)

// C13, kind ResponseAdaptor: a spec that validation accepts can be initialised.
func verifC13_ResponseAdaptor() {
	vals := []string{"", "gzip", "deflate"}
	spec := &Spec{Compress: vals[verifChoose("compress", 3)], Decompress: vals[verifChoose("decompress", 3)]}
	if verifBool("hasBody") {
		spec.Body = "b"
	}
	if v, ok := interface{}(spec).(interface{ Validate() error }); ok {
		verifAssume(v.Validate() == nil)
		verifCover("has-validate-method")
	}
	ra := &ResponseAdaptor{spec: spec}
	ra.Init() // a panic here is reported as a violation
	verifCover("initialised")
	// and it handles a request wherever it sits in the flow: with a response of an earlier
	// filter in its namespace, or with none (first filter of the flow, another namespace)
	ctx := context.New(nil)
	req, _ := httpprot.NewRequest(&http.Request{Method: "GET", Header: http.Header{}})
	ctx.SetRequest(context.DefaultNamespace, req)
	hasResponse := verifBool("aResponseExistsInTheNamespace")
	if hasResponse {
		resp, _ := httpprot.NewResponse(nil)
		resp.SetPayload([]byte("x"))
		ctx.SetResponse(context.DefaultNamespace, resp)
	}
	res := ra.Handle(ctx) // a panic here is reported as a violation
	if !hasResponse {
		verifAssert(res == resultResponseNotFound, "no-response-is-a-declared-result")
		verifCover("handled-without-a-response")
	} else if spec.Compress == "" && spec.Decompress == "" {
		verifAssert(res == "", "plain-adaptation-succeeds")
		verifCover("handled")
	}
}
