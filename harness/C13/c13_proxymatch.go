package proxy

import (
	"net/http"
	"net/url"

	"github.com/megaease/easegress/pkg/protocols/httpprot"
	"github.com/megaease/easegress/pkg/v"
)

// C13, kind Proxy (candidate pool request matcher), package proxy.
// The Go-level half of the REAL v.Validate (traverseGo + format functions + Validate()
// methods, executed through the engine's reflect model) over a Proxy spec whose candidate pool
// filter carries header matchers (a map of pointers) and URL matchers (a slice of pointers):
// a spec it accepts can be instantiated (NewRequestMatcher compiles the patterns) and can
// match any request without panicking; a spec with an uncompilable pattern or an empty
// matcher anywhere is rejected.
// Schema constraints assumed (read from the tags): policy is one of the enum values, permil
// 0..1000, servers[].url well-formed, MethodAndURLMatcher.url present (required).
var vPatterns = []string{"", "^a", "^(a"} // none, compilable, uncompilable

// full: every combination of the four fields; otherwise only the pattern varies (with an exact
// value present, so that the matcher is usable iff the pattern compiles)
func vMatcher(label string, full bool) (*StringMatcher, bool) {
	k := verifChoose(label+".regex", len(vPatterns))
	sm := &StringMatcher{RegEx: vPatterns[k]}
	if full {
		if verifBool(label + ".hasExact") {
			sm.Exact = "x"
		}
		sm.Empty = verifBool(label + ".empty")
	} else {
		sm.Prefix = "p"
	}
	nonEmpty := sm.Exact != "" || sm.Prefix != "" || sm.RegEx != ""
	ok := k != 2 && ((sm.Empty && !nonEmpty) || (!sm.Empty && nonEmpty))
	return sm, ok
}

func verifC13_ProxyMatcher() {
	filter := &RequestMatcherSpec{MatchAllHeaders: verifBool("filter.matchAllHeaders")}
	filter.Policy = []string{"", "general"}[verifChoose("filter.policy", 2)]
	want := true
	nh := verifChoose("filter.headers", 3)
	keys := []string{"X-A", "X-B"}
	if nh > 0 {
		filter.Headers = map[string]*StringMatcher{}
	}
	for i := 0; i < nh; i++ {
		sm, ok := vMatcher("filter.header", i == 0)
		if i == nh-1 && verifBool("filter.header.isNull") {
			// `X-B: null` in the YAML: a key without a matcher cannot work
			sm, ok = nil, false
			verifCover("null-header-matcher")
		}
		filter.Headers[keys[i]] = sm
		want = want && ok
	}
	if nh == 0 {
		want = false // the general policy needs headers
	}
	if verifBool("filter.hasURL") {
		sm, ok := vMatcher("filter.url", false)
		filter.URLs = []*MethodAndURLMatcher{{Methods: []string{"GET"}, URL: sm}}
		want = want && ok
	}
	main := &ServerPoolSpec{Servers: []*Server{{URL: "http://10.0.0.1"}}}
	cand := &ServerPoolSpec{Servers: []*Server{{URL: "http://10.0.0.2"}}, Filter: filter}
	spec := &Spec{}
	spec.BaseSpec.MetaSpec.Name, spec.BaseSpec.MetaSpec.Kind = "proxy", "Proxy"
	inMirror := verifBool("filterIsOnTheMirrorPool")
	if inMirror {
		spec.Pools = []*ServerPoolSpec{main}
		spec.MirrorPool = cand
	} else {
		spec.Pools = []*ServerPoolSpec{cand, main}
	}
	vr := v.Validate(spec)
	accepted := vr.Valid()
	verifAssert(accepted == want, "validation-accepts-iff-every-matcher-is-usable")
	if !accepted {
		verifCover("rejected")
		return
	}
	verifCover("accepted")
	// instantiate and match a request: a panic here is reported as a violation
	m := NewRequestMatcher(filter)
	std := &http.Request{Method: "GET", URL: &url.URL{Path: verifString("req.path", 2)}, Header: http.Header{}}
	if verifBool("req.hasHeader") {
		std.Header["X-A"] = []string{verifString("req.header", 2)}
	}
	m.Match(&httpprot.Request{Request: std})
}
