package requestadaptor

// C13, kind RequestAdaptor: a spec that validation accepts can be initialised.
//   host, body, compress, decompress: omitempty strings WITHOUT enum (any text);
//   method: omitempty, format=httpmethod. There is no Validate() method.
func verifC13_RequestAdaptor() {
	vals := []string{"", "gzip", "deflate"}
	spec := &Spec{Compress: vals[verifChoose("compress", 3)], Decompress: vals[verifChoose("decompress", 3)]}
	if verifBool("hasBody") {
		spec.Body = "b"
	}
	if v, ok := interface{}(spec).(interface{ Validate() error }); ok {
		verifAssume(v.Validate() == nil)
		verifCover("has-validate-method")
	}
	ra := &RequestAdaptor{spec: spec}
	ra.Init() // a panic here is reported as a violation
	verifCover("initialised")
}
