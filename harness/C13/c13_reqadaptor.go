package requestadaptor

import (
	"net/http"
	"net/url"

	"github.com/megaease/easegress/pkg/context"
	"github.com/megaease/easegress/pkg/protocols/httpprot"
)

// C13, kind RequestAdaptor: a spec that validation accepts can be initialised.
//   host, body, compress, decompress: omitempty strings WITHOUT enum (any text);
//   method: omitempty, format=httpmethod. There is no Validate() method.
func verifC13_RequestAdaptor() {
	vals := []string{"", "gzip", "deflate"}
	spec := &Spec{Compress: vals[verifChoose("compress", 3)], Decompress: vals[verifChoose("decompress", 3)]}
	if verifBool("hasBody") {
		spec.Body = "b"
	}
	if v, ok := interface{}(spec).(interface{ Validate() error }); ok {
		verifAssume(v.Validate() == nil)
		verifCover("has-validate-method")
	}
	ra := &RequestAdaptor{spec: spec}
	ra.Init() // a panic here is reported as a violation
	verifCover("initialised")
	// and it handles a request (buffered body) without panicking
	ctx := context.New(nil)
	req, _ := httpprot.NewRequest(&http.Request{Method: "POST", URL: &url.URL{Path: "/p"}, Header: http.Header{}})
	req.SetPayload([]byte("x"))
	ctx.SetRequest(context.DefaultNamespace, req)
	res := ra.Handle(ctx) // a panic here is reported as a violation
	if spec.Compress == "" && spec.Decompress == "" {
		verifAssert(res == "", "plain-adaptation-succeeds")
		verifCover("handled")
	}
}
