package mock

import (
	"net/http"
	"net/url"

	"github.com/megaease/easegress/pkg/context"
	"github.com/megaease/easegress/pkg/protocols/httpprot"
	"github.com/megaease/easegress/pkg/v"
)

// C13, kind Mock, package mock. Required fields with a format: the Go-level half of the REAL
// v.Validate (traverseGo, recordFormat with the format functions) over a Mock spec whose rule
// has a symbolic status code (also 0 = the key left out: validation sees the spec marshalled
// from the Go struct, so a required key that was omitted arrives as the zero value) and a delay
// from a pool. Accepted iff the code is an HTTP status code and the delay parses; an accepted
// spec is instantiated and handles a request without panicking, and the response it produces
// carries a status code an HTTP server can write.
func verifC13_MockFormat() {
	code := int(verifInt("rule.code", -1, 700))
	delays := []string{"", "1ms", "soon"}
	di := verifChoose("rule.delay", len(delays))
	spec := &Spec{Rules: []*Rule{{Code: code, Delay: delays[di], Body: "b"}}}
	spec.BaseSpec.MetaSpec.Name, spec.BaseSpec.MetaSpec.Kind = "mock", "Mock"
	if verifBool("rule.hasPathPrefix") {
		spec.Rules[0].Match.PathPrefix = "/"
	}
	vr := v.Validate(spec)
	want := code >= 100 && code < 600 && di != 2
	verifAssert(vr.Valid() == want, "validation-accepts-iff-required-code-is-an-http-status-and-delay-parses")
	if !vr.Valid() {
		verifCover("rejected")
		if code == 0 {
			verifCover("missing-required-code-rejected")
		}
		return
	}
	verifCover("accepted")
	m := &Mock{spec: spec}
	m.Init()
	std := &http.Request{Method: "GET", URL: &url.URL{Path: "/x"}, Header: http.Header{}}
	ctx := context.New(nil)
	ctx.SetRequest(context.DefaultNamespace, &httpprot.Request{Request: std})
	res := m.Handle(ctx)
	verifAssert(res == resultMocked, "rule-without-conditions-matches")
	resp := ctx.GetOutputResponse().(*httpprot.Response)
	verifAssert(resp.StatusCode() >= 100 && resp.StatusCode() <= 999, "mocked-status-can-be-written-by-the-http-server")
}
