package proxy

import (
	cache "github.com/patrickmn/go-cache"
	"net/http"

	"github.com/megaease/easegress/pkg/protocols/httpprot"
	"github.com/megaease/easegress/pkg/resilience"
)

// C13, kind Proxy + resilience policies (package proxy): a pipeline whose
// validation passed (filter specs valid, resilience policies valid) can inject
// its policies into the proxy and serve a request without panicking.
//
//	RetryPolicy.maxAttempts: minimum=1 (always present in the marshalled spec, so >= 1:
//	calibrated against the real validator, which rejects 0);
//	ServerPoolSpec.retryPolicy / circuitBreakerPolicy: omitempty strings (any name).
func verifC13_ProxyResilience() {
	vSymbolicRequest = false
	sp, _ := vPool(0, 0)
	names := []string{"", "r", "x"}
	sp.spec.RetryPolicy = names[verifChoose("pool.retryPolicy", 3)]
	sp.spec.CircuitBreakerPolicy = names[verifChoose("pool.circuitBreakerPolicy", 3)]
	verifAssume(sp.spec.Validate() == nil)
	// the pipeline's resilience section: a policy named r of either kind
	policies := map[string]resilience.Policy{}
	if verifBool("pipelineDefinesR") {
		if verifBool("rIsRetry") {
			p := &resilience.RetryPolicy{MaxAttempts: int(verifInt("retry.maxAttempts", 1, 2)), WaitDuration: "1ms"}
			p.BaseSpec.MetaSpec.Name = "r"
			verifAssume(p.Validate() == nil)
			policies["r"] = p
		} else {
			p := &resilience.CircuitBreakerPolicy{SlidingWindowSize: 1, FailureRateThreshold: 50, SlowCallRateThreshold: 100}
			p.BaseSpec.MetaSpec.Name = "r"
			verifAssume(p.Validate() == nil)
			policies["r"] = p
		}
	}
	sp.InjectResiliencePolicy(policies) // a panic here or below is reported as a violation
	verifCover("policies-injected")
	fnSendRequest = vSend
	vNSends = 0
	vOutcome = func(int) (*http.Response, error) {
		return &http.Response{StatusCode: 200, Header: http.Header{}, Body: &vBody{}, ContentLength: 0}, nil
	}
	ctx, _, _ := vClientRequest([]byte{1}, false)
	result := sp.handle(ctx, false)
	resp, _ := ctx.GetOutputResponse().(*httpprot.Response)
	verifAssert(resp != nil, "a-response-is-always-set")
	verifAssert(result == "" && vNSends == 1, "healthy-backend-is-reached")
}

// verifC13_ProxyMemoryCache: a pool with a memoryCache section next to every serverMaxBodySize
// (buffered, default, -1 = streamed): a spec validation accepts serves a cacheable request
// without panicking and delivers the backend's answer. (The cache library is replaced by one
// that never hits.)
func verifC13_ProxyMemoryCache() {
	vSymbolicRequest = false
	sp, _ := vPool(vLimit("poolLimit"), 0)
	sp.memoryCache = &MemoryCache{spec: &MemoryCacheSpec{Expiration: "10s", MaxEntryBytes: uint32(verifInt("memoryCache.maxEntryBytes", 1, 3)),
		Codes: []int{200}, Methods: []string{"GET", "POST"}}, cache: &cache.Cache{}}
	m := verifChoose("resp.bodyLength", 3)
	body := &vBody{data: verifBytes("resp.body", m)}
	vNSends, vGzipCalls = 0, 0
	vOutcome = func(int) (*http.Response, error) {
		return &http.Response{StatusCode: 200, Header: http.Header{}, Body: body, ContentLength: int64(m)}, nil
	}
	fnSendRequest = vSend
	ctx, _, _ := vClientRequest([]byte{1}, false)
	result := sp.handle(ctx, false) // a panic here is reported as a violation
	resp, _ := ctx.GetOutputResponse().(*httpprot.Response)
	verifAssert(resp != nil, "a-response-is-always-set")
	if result == "" {
		verifAssert(resp.StatusCode() == 200, "client-gets-backend-status")
		if resp.IsStream() {
			verifCover("streamed-response-with-memory-cache")
		}
	}
}

// verifC13_PoolWithoutServers: a pool that names a service and lists no static servers passes
// validation (ServerPoolSpec.Validate rejects only "neither"); without a registry, or before the
// registry reports an instance, it has no server at all. Such a pool serves every request
// without panicking: it answers with an error result.
func verifC13_PoolWithoutServers() {
	vSymbolicRequest = false
	spec := &ServerPoolSpec{ServiceName: "orders"}
	verifAssert(spec.Validate() == nil, "pool-naming-a-service-is-accepted")
	p := &Proxy{spec: &Spec{}}
	verifInitMaps(p)
	sp := NewServerPool(p, spec, "pool")
	fnSendRequest = vSend
	vOutcome = func(attempt int) (*http.Response, error) {
		return &http.Response{StatusCode: 200, Header: http.Header{}, Body: &vBody{}}, nil
	}
	n := 1 + verifChoose("requests", 2)
	for i := 0; i < n; i++ {
		ctx, _, _ := vClientRequest([]byte{1}, verifBool("req.stream"))
		vNSends = 0
		result := sp.handle(ctx, false)
		verifAssert(result != "" && vNSends == 0, "request-to-a-pool-without-servers-is-refused-not-crashed")
	}
	verifCover("pool-without-servers")
}
