package resilience

import (
	"context"
	"errors"
	"reflect"
	"strconv"
	"strings"
	"time"

	libcb "github.com/megaease/easegress/pkg/util/circuitbreaker"
)

// ---------------------------------------------------------------------------
// C10 harnesses, package resilience: RetryPolicy.CreateWrapper/Wrap and the
// circuit-breaker wrapper around it, driven by a handler whose outcome per
// attempt is symbolic. The context is the REAL context package.
// ---------------------------------------------------------------------------

var (
	vWaits     [8]time.Duration
	vNWaits    int
	vCancelled bool
	vNever     = make(chan time.Time)
)

// vAfter replaces time.After: the requested duration is logged. The timer is
// modelled by its outcome: if the request is already cancelled when the wait
// starts and the duration is positive, the cancellation is seen first (the
// channel never delivers); otherwise the timer fires.
func vAfter(d time.Duration) <-chan time.Time {
	vWaits[vNWaits] = d
	vNWaits++
	if vCancelled && d > 0 {
		return vNever
	}
	ch := make(chan time.Time, 1)
	ch <- time.Time{}
	return ch
}

// vRandIntn replaces math/rand.Intn: one of the smallest, a middle and the largest
// value (floating point is evaluated concretely by the engine, so the random
// term is enumerated, not symbolic).
func vRandIntn(n int) int {
	if n <= 0 {
		panic("invalid argument to Intn")
	}
	switch verifChoose("rand", 3) {
	case 0:
		return 0
	case 1:
		return n / 2
	}
	return n - 1
}

// vRandFloat64 replaces math/rand.Float64: the smallest, a middle and (nearly) the largest value
// of [0,1).
func vRandFloat64() float64 {
	switch verifChoose("randFloat", 3) {
	case 0:
		return 0
	case 1:
		return 0.5
	}
	return 0.9999999
}

var errAttempt = errors.New("attempt failed")

// vSchemaInt reads a numeric jsonschema constraint (minimum / maximum) from the struct tag of a
// field, through the engine's reflect model: the generators below take the admissible range
// from the tags of the current source, not from a copy made when the harness was written.
func vSchemaInt(v interface{}, field, key string, dflt int) int {
	t := reflect.TypeOf(v)
	for i := 0; i < t.NumField(); i++ {
		f := t.Field(i)
		if f.Name != field {
			continue
		}
		for _, part := range strings.Split(f.Tag.Get("jsonschema"), ",") {
			if strings.HasPrefix(part, key+"=") {
				n, err := strconv.Atoi(part[len(key)+1:])
				if err == nil {
					return n
				}
			}
		}
	}
	return dflt
}

// vSchemaMinimum: the smallest value of a numeric field that validation lets through. Validation
// runs the JSON schema on the document re-marshalled from the Go struct: a field whose yaml tag
// says omitempty disappears from that document when it is zero, so - unless the schema makes the
// key required - an explicit zero is never seen by a `minimum` constraint.
func vSchemaMinimum(v interface{}, field string, dflt int) int {
	t := reflect.TypeOf(v)
	for i := 0; i < t.NumField(); i++ {
		f := t.Field(i)
		if f.Name != field {
			continue
		}
		yamlOmits, schemaOptional := false, false
		for k, part := range strings.Split(f.Tag.Get("yaml"), ",") {
			if k > 0 && part == "omitempty" {
				yamlOmits = true
			}
		}
		for _, part := range strings.Split(f.Tag.Get("jsonschema"), ",") {
			if part == "omitempty" {
				schemaOptional = true
			}
		}
		if yamlOmits && schemaOptional {
			return 0
		}
	}
	return vSchemaInt(v, field, "minimum", dflt)
}

func vRetryPolicy() *RetryPolicy {
	// maxAttempts: every value the schema admits from its minimum up to the bound
	min := vSchemaMinimum(RetryPolicy{}, "MaxAttempts", 0)
	p := &RetryPolicy{MaxAttempts: verifChoose("maxAttempts", verifBound("maxAttempts")+1-min) + min}
	// every text below satisfies format=duration (time.ParseDuration accepts it)
	switch verifChoose("waitDuration", 5) {
	case 0:
		p.WaitDuration = "" // default 500ms
	case 1:
		p.WaitDuration = "10ms"
	case 2:
		p.WaitDuration = "1us"
	case 3:
		p.WaitDuration = "-1s" // not positive: the default applies
	case 4:
		p.WaitDuration = "0s"
	}
	switch verifChoose("randomizationFactor", 3) {
	case 1:
		p.RandomizationFactor = 0.5
	case 2:
		p.RandomizationFactor = 1
	}
	if verifBool("exponential") {
		p.BackOffPolicy = "exponential"
	} else {
		p.BackOffPolicy = "random"
	}
	return p
}

// verifC10_Retry: attempts <= maxAttempts, stop at first success, no attempt after
// cancellation, back-off lower bound, final outcome = outcome of the last attempt.
func verifC10_Retry() {
	p := vRetryPolicy()
	w := p.CreateWrapper()
	ctx, cancel := context.WithCancel(context.Background())
	vNWaits, vCancelled = 0, false
	attempts := 0
	var lastErr error
	attemptAfterCancel := false
	handler := func(c context.Context) error {
		if vCancelled {
			attemptAfterCancel = true
		}
		attempts++
		ok := verifBool("attemptSucceeds")
		if verifBool("clientCancelsDuringAttempt") {
			vCancelled = true
			cancel()
		}
		if ok {
			lastErr = nil
			return nil
		}
		lastErr = errAttempt
		return errAttempt
	}
	// the client may be gone before the first attempt starts
	preCancelled := verifBool("clientCancelsBeforeTheFirstAttempt")
	if preCancelled {
		cancel()
	}
	err := w.Wrap(handler)(ctx)

	verifAssert(attempts <= p.MaxAttempts, "at-most-maxAttempts")
	if attempts == 0 {
		// nothing was attempted (only conceivable for a request cancelled beforehand): that
		// is never reported as a success
		verifAssert(preCancelled && err != nil, "no-success-without-an-attempt")
	} else {
		verifAssert(err == lastErr, "outcome-of-the-last-attempt")
	}
	if preCancelled {
		verifCover("cancelled-before-the-first-attempt")
		cancel()
		return
	}
	if err == nil {
		verifCover("succeeded")
		if attempts > 1 {
			verifCover("succeeded-after-retry")
		}
	} else if !vCancelled {
		verifAssert(attempts == p.MaxAttempts, "all-attempts-used-before-giving-up")
		verifCover("gave-up")
	}
	// no attempt starts once the cancellation is observable (waits of zero
	// length excepted: select may then pick the timer)
	zeroWait := false
	base := float64(p.waitDuration)
	for i := 0; i < vNWaits; i++ {
		if vWaits[i] == 0 {
			zeroWait = true
		}
		// back-off: wait i >= base*(1-factor)*1.5^i (exponential) resp. base*(1-factor)
		min := base * (1 - p.RandomizationFactor)
		if p.BackOffPolicy == "exponential" {
			for k := 0; k < i; k++ {
				min *= 1.5
			}
		}
		verifAssert(float64(vWaits[i]) >= min-1, "back-off-at-least-configured")
	}
	if !zeroWait {
		verifAssert(!attemptAfterCancel, "no-attempt-after-cancellation")
	}
	if vCancelled {
		verifCover("cancelled")
	}
	cancel()
}

// vNowClock: time.Now on the engine's virtual clock (monotonic flavour, as time.Now returns)
func vNowClock() time.Time {
	var t time.Time
	verifSetField(&t, "wall", uint64(1<<63|(4000000000<<30)))
	verifSetField(&t, "ext", verifClock())
	return t
}

// verifC10_RetryClock: the back-off under the engine's virtual clock, with the REAL time.After /
// time.NewTimer / Reset / Stop (timer model of the engine): attempts take time (nothing, a
// moment, longer than any back-off), time otherwise passes only while the wrapper waits, and the
// gap between the end of a failed attempt and the start of the next one is at least the
// configured back-off - however the waiting is implemented (a fresh timer per wait, a reused one).
func verifC10_RetryClock() {
	p := vRetryPolicy()
	w := p.CreateWrapper()
	ctx, cancel := context.WithCancel(context.Background())
	attempts := 0
	var start, end [8]int64
	handler := func(c context.Context) error {
		start[attempts] = verifClock()
		verifAdvance([]int64{0, int64(time.Millisecond), int64(time.Minute)}[verifChoose("attemptTakes", 3)])
		end[attempts] = verifClock()
		attempts++
		return errAttempt
	}
	err := w.Wrap(handler)(ctx)
	verifAssert(err == errAttempt && attempts == p.MaxAttempts, "all-attempts-used-before-giving-up")
	base := float64(p.waitDuration)
	for i := 1; i < attempts; i++ {
		min := base * (1 - p.RandomizationFactor)
		if p.BackOffPolicy == "exponential" {
			for k := 1; k < i; k++ {
				min *= 1.5
			}
		}
		verifAssert(float64(start[i]-end[i-1]) >= min-1, "waits-at-least-the-back-off-between-attempts")
		if end[i-1]-start[i-1] > int64(p.waitDuration) {
			verifCover("attempt-longer-than-the-back-off")
		}
	}
	cancel()
}

// verifC10_BreakerAroundRetry: the circuit breaker records exactly one outcome
// per client request however many attempts the retry made.
func verifC10_BreakerAroundRetry() {
	p := vRetryPolicy()
	rw := p.CreateWrapper()
	cbp := &CircuitBreakerPolicy{FailureRateThreshold: 50, SlowCallRateThreshold: 100, SlidingWindowSize: 4, MinimumNumberOfCalls: 4,
		PermittedNumberOfCallsInHalfOpen: 2, WaitDurationInOpen: "1m", SlowCallDurationThreshold: "1m"}
	cw := cbp.CreateWrapper().(circuitBreakerWrapper)
	vNWaits, vCancelled = 0, false
	attempts := 0
	handler := func(c context.Context) error {
		attempts++
		if verifBool("attemptSucceeds") {
			return nil
		}
		return errAttempt
	}
	wrapped := cw.Wrap(rw.Wrap(handler))
	before := vWindowTotal(cw.CircuitBreaker)
	err := wrapped(context.Background())
	after := vWindowTotal(cw.CircuitBreaker)
	verifAssert(after == before+1, "breaker-records-one-outcome-per-request")
	verifAssert(err != ErrShortCircuited, "closed-breaker-admits")
	if attempts > 1 {
		verifCover("several-attempts-one-record")
	}
}

func vWindowTotal(cb *libcb.CircuitBreaker) uint32 {
	w := verifGetField(cb, "window").(libcb.Window)
	return w.Total()
}

func vNowConst() time.Time                 { return time.Time{} }
func vSinceConst(t time.Time) time.Duration { return 0 }

// verifC10_RetryDeadline: "makes no further attempt once the client's request is cancelled" when
// the cancellation is the client's DEADLINE passing (the real context package on the engine's
// virtual clock: context.WithDeadline arms a time.AfterFunc that falls due with the clock). The
// deadline lies in the first back-off, in a later one, or beyond every attempt; attempts take
// no time or a moment. No attempt starts after the deadline has passed, and while it has not,
// every attempt the policy allows is made.
func verifC10_RetryDeadline() {
	p := &RetryPolicy{MaxAttempts: 2 + verifChoose("maxAttempts", 2), WaitDuration: "10ms"}
	if verifBool("exponential") {
		p.BackOffPolicy = "exponential"
	}
	w := p.CreateWrapper()
	after := []time.Duration{5 * time.Millisecond, 15 * time.Millisecond, time.Hour}[verifChoose("clientDeadlineAfter", 3)]
	deadline := verifClock() + int64(after)
	ctx, cancel := context.WithDeadline(context.Background(), vNowClock().Add(after))
	attempts := 0
	var start [8]int64
	handler := func(c context.Context) error {
		start[attempts] = verifClock()
		verifAdvance([]int64{0, int64(time.Millisecond)}[verifChoose("attemptTakes", 2)])
		attempts++
		return errAttempt
	}
	err := w.Wrap(handler)(ctx)
	verifAssert(err != nil, "failed-request-reports-an-error")
	for i := 0; i < attempts; i++ {
		verifAssert(start[i] < deadline, "no-attempt-after-the-clients-deadline")
	}
	switch after {
	case time.Hour:
		verifAssert(attempts == p.MaxAttempts, "all-attempts-used-before-giving-up")
	case 5 * time.Millisecond:
		// the first back-off is 10ms: the deadline passes while the wrapper waits
		verifAssert(attempts == 1, "gives-up-when-the-deadline-passes-during-a-back-off")
		verifCover("deadline-passed-during-a-back-off")
	default:
		// 15ms: the second attempt (at 10..11ms) is still in time, a third one (at 25ms+) is not
		verifAssert(attempts == 2, "gives-up-when-the-deadline-passes-during-a-back-off")
	}
	cancel()
}
