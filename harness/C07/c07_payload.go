package httpprot

import (
	"io"
	"net/http"
)

// ---------------------------------------------------------------------------
// C07 part 1, package httpprot: Request.FetchPayload / Response.FetchPayload with
// the real io.ReadFull / ReadAll / LimitReader / Copy over a harness body of a
// symbolic number of symbolic bytes.
// ---------------------------------------------------------------------------

type vBody struct {
	data       []byte
	pos        int
	eofWithData bool // deliver io.EOF together with the last bytes (readers may do either)
	closed     bool
}

func (b *vBody) Read(p []byte) (int, error) {
	if b.pos >= len(b.data) {
		return 0, io.EOF
	}
	n := copy(p, b.data[b.pos:])
	b.pos += n
	if b.pos >= len(b.data) && b.eofWithData {
		return n, io.EOF
	}
	return n, nil
}

func (b *vBody) Close() error { b.closed = true; return nil }

func vNewBody() *vBody {
	m := verifChoose("bodyLength", verifBound("maxBody")+1)
	return &vBody{data: verifBytes("body", m), eofWithData: verifBool("eofWithLastBytes")}
}

// vLimitAndLength: limit in {-1, 0 (default 4MB), 1..maxLimit}; declared length in {-1 (chunked), 0..maxBody+1}
func vLimit() int64 {
	switch verifChoose("limitKind", 3) {
	case 0:
		return -1
	case 1:
		return 0
	}
	return verifInt("limit", 1, int64(verifBound("maxLimit")))
}

func vDeclared() int64 {
	if verifBool("chunked") {
		return -1
	}
	// a length just above the built-in 4MB default (the body bytes themselves are not
	// materialised: a response is judged by what it declares before anything is read)
	if verifBool("declaresOneByteMoreThanTheDefaultLimit") {
		return DefaultMaxPayloadSize + 1
	}
	return int64(verifChoose("declaredLength", verifBound("maxBody")+2))
}

func vSameBytes(a, b []byte) bool {
	if len(a) != len(b) {
		return false
	}
	for i := range a {
		if a[i] != b[i] {
			return false
		}
	}
	return true
}

func verifC07_RequestPayload() {
	body := vNewBody()
	m := int64(len(body.data))
	limit := vLimit()
	declared := vDeclared()
	std := &http.Request{Method: "POST", Header: http.Header{}, Body: body, ContentLength: declared}
	req, _ := NewRequest(nil)
	req.Request = std
	err := req.FetchPayload(limit)

	effective := limit
	if effective == 0 {
		effective = DefaultMaxPayloadSize
	}
	switch {
	case limit < 0:
		verifAssert(err == nil && req.IsStream(), "minus-one-streams-any-size")
		got, rerr := io.ReadAll(req.GetPayload())
		verifAssert(rerr == nil && vSameBytes(got, body.data), "streamed-body-intact")
		verifCover("stream")
	case declared > effective || (declared < 0 && m > effective):
		verifAssert(err == ErrRequestEntityTooLarge, "oversized-body-rejected-413")
		verifCover("too-large")
	case declared > 0 && m < declared:
		verifAssert(err != nil && err != ErrRequestEntityTooLarge, "short-body-is-an-error-not-a-truncated-success")
		verifCover("short-body")
	default:
		verifAssert(err == nil, "body-within-limit-accepted")
		want := body.data
		if declared >= 0 && m > declared {
			want = body.data[:declared] // net/http never hands out more than the declared length
		}
		verifAssert(!req.IsStream() && vSameBytes(req.RawPayload(), want), "accepted-body-intact")
		if declared < 0 && m == effective {
			verifCover("chunked-body-of-exactly-the-limit")
		}
		if declared == effective {
			verifCover("declared-body-of-exactly-the-limit")
		}
	}
}

func verifC07_ResponsePayload() {
	body := vNewBody()
	m := int64(len(body.data))
	limit := vLimit()
	declared := vDeclared()
	std := &http.Response{StatusCode: 200, Header: http.Header{}, Body: body, ContentLength: declared}
	resp, _ := NewResponse(std)
	err := resp.FetchPayload(limit)

	effective := limit
	if effective == 0 {
		effective = DefaultMaxPayloadSize
	}
	switch {
	case limit < 0:
		verifAssert(err == nil && resp.IsStream(), "minus-one-streams-any-size")
		got, rerr := io.ReadAll(resp.GetPayload())
		verifAssert(rerr == nil && vSameBytes(got, body.data), "streamed-body-intact")
	case declared > effective || (declared < 0 && m > effective):
		verifAssert(err == ErrResponseEntityTooLarge, "oversized-response-withheld")
		verifCover("too-large")
	case declared > 0 && m < declared:
		verifAssert(err != nil && err != ErrResponseEntityTooLarge, "short-body-is-an-error-not-a-truncated-success")
		verifCover("short-body")
	default:
		verifAssert(err == nil, "body-within-limit-accepted")
		want := body.data
		if declared >= 0 && m > declared {
			want = body.data[:declared]
		}
		verifAssert(!resp.IsStream() && vSameBytes(resp.RawPayload(), want), "accepted-body-intact")
		if declared < 0 && m == effective {
			verifCover("chunked-body-of-exactly-the-limit")
		}
	}
}
