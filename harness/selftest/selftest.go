package zzselftest

import (
	"errors"
	"fmt"
	"sort"
	"strings"
	"sync"
	"time"
)

type pt struct{ x, y int }

type shape interface{ area() int }
type sq struct{ s int }
type rect struct{ w, h int }

func (s sq) area() int    { return s.s * s.s }
func (r *rect) area() int { return r.w * r.h }

var errBoom = errors.New("boom")

var table = map[string]int{"a": 1, "b": 2}

func abs(x int64) int64 {
	if x < 0 {
		return -x
	}
	return x
}

// verifSelfArith: arithmetic, branches.
func verifSelfArith() {
	x := verifInt("x", -100, 100)
	y := abs(x)
	verifAssert(y >= 0, "abs-nonneg")
	verifAssert(y == x || y == -x, "abs-val")
	if x > 50 {
		verifCover("big")
	}
	var u8 uint8 = uint8(x)
	verifAssert(int64(u8) == (x&0xff), "trunc")
	z := x / 3
	verifAssert(z*3+x%3 == x, "divmod")
	sh := uint64(x+100) << 70
	verifAssert(sh == 0, "bigshift")
}

// verifSelfBug: must be found.
func verifSelfBug() {
	x := verifInt("x", 0, 1000)
	if x*x == 289 {
		verifAssert(false, "found-17")
	}
}

// verifSelfOverflow: abs(minint) is negative: must be found
func verifSelfOverflow() {
	x := verifInt("x", -9223372036854775808, 9223372036854775807)
	verifAssert(abs(x) >= 0, "abs-overflow")
}

func verifSelfStructs() {
	a := pt{1, 2}
	b := a
	b.x = int(verifInt("bx", 0, 10))
	verifAssert(a.x == 1, "value-semantics")
	p := &a
	p.y = b.x
	verifAssert(a.y == b.x, "ptr-write")
	arr := [3]int{1, 2, 3}
	brr := arr
	brr[0] = 9
	verifAssert(arr[0] == 1, "array-value")
	sl := arr[:]
	sl[1] = 7
	verifAssert(arr[1] == 7, "slice-alias")
	sl = append(sl, 4)
	sl[0] = 100
	verifAssert(arr[0] == 1, "append-realloc")
	var shapes []shape
	shapes = append(shapes, sq{int(verifInt("s", 0, 5))}, &rect{2, 3})
	tot := 0
	for _, s := range shapes {
		tot += s.area()
	}
	verifAssert(tot >= 6 && tot <= 31, "iface-dispatch")
	if _, ok := shapes[0].(sq); !ok {
		verifAssert(false, "type-assert")
	}
	switch v := shapes[1].(type) {
	case *rect:
		verifAssert(v.w == 2, "type-switch")
	default:
		verifAssert(false, "type-switch-default")
	}
}

func mayPanic(i int, a []int) (r int, err error) {
	defer func() {
		if e := recover(); e != nil {
			err = fmt.Errorf("recovered: %v", e)
			r = -1
		}
	}()
	return a[i], nil
}

func verifSelfPanic() {
	a := []int{1, 2, 3}
	i := int(verifInt("i", 0, 5))
	r, err := mayPanic(i, a)
	if i < 3 {
		verifAssert(err == nil && r == i+1, "inbounds")
		verifCover("ok")
	} else {
		verifAssert(err != nil && r == -1, "recovered")
		verifCover("panicked")
	}
	order := ""
	func() {
		defer func() { order += "a" }()
		defer func() { order += "b" }()
	}()
	verifAssert(order == "ba", "defer-order")
	verifAssert(errors.Is(errBoom, errBoom), "global-err")
}

// uncaught panic must be reported
func verifSelfUncaught() {
	a := []int{1, 2, 3}
	i := int(verifInt("i", 0, 3))
	_ = a[i]
}

func verifSelfMaps() {
	m := map[int]int{}
	k1 := int(verifInt("k1", 0, 3))
	k2 := int(verifInt("k2", 0, 3))
	m[k1] = 1
	m[k2] = 2
	if k1 == k2 {
		verifAssert(len(m) == 1 && m[k1] == 2, "same-key")
		verifCover("same")
	} else {
		verifAssert(len(m) == 2 && m[k1] == 1, "diff-key")
		verifCover("diff")
	}
	delete(m, k1)
	_, ok := m[k1]
	verifAssert(!ok, "deleted")
	verifAssert(table["b"] == 2, "global-map")
	keys := []string{}
	for k := range table {
		keys = append(keys, k)
	}
	sort.Strings(keys)
	verifAssert(len(keys) == 2 && keys[0] == "a", "sorted-keys")
	sm := map[string]int{}
	s := verifString("s", 2)
	sm[s] = 5
	sm["x"] = 6
	if s == "x" {
		verifAssert(len(sm) == 1, "symkey-same")
		verifCover("symkey-same")
	} else {
		verifAssert(sm[s] == 5, "symkey-diff")
	}
}

func verifSelfStrings() {
	s := verifString("s", 4)
	t := verifString("t", 3)
	u := s + t
	verifAssert(len(u) == len(s)+len(t), "concat-len")
	verifAssert(strings.HasPrefix(u, s), "concat-prefix")
	verifAssert(strings.HasSuffix(u, t), "concat-suffix")
	if len(s) > 0 {
		verifAssert(u[0] == s[0], "first-byte")
	}
	if strings.HasPrefix(s, "/a") {
		verifAssert(len(s) >= 2 && s[1] == 'a', "prefix-a")
		verifCover("prefix")
		rest := s[2:]
		verifAssert("/a"+rest == s, "slice-rest")
	}
	i := strings.IndexByte(s, ':')
	if i >= 0 {
		verifAssert(s[i] == ':', "indexbyte")
		host := s[:i]
		verifAssert(!strings.Contains(host, ":"), "no-colon-before")
		verifCover("colon")
	} else {
		verifAssert(!strings.Contains(s, ":"), "no-colon")
	}
	if s == "ab" {
		verifAssert(len(s) == 2, "eq-len")
		verifCover("eq-ab")
	}
	bs := []byte(t)
	verifAssert(string(bs) == t, "bytes-roundtrip")
	if s < t {
		verifAssert(!(t < s) && s != t, "less-antisym")
		verifCover("less")
	}
	verifAssert(strings.ToLower(strings.ToUpper(t)) == strings.ToLower(t), "case")
}

// wrong claim about strings: must be found ("a:" + ":b" has two colons...)
func verifSelfStrBug() {
	s := verifString("s", 3)
	if strings.HasPrefix(s, "x") && strings.HasSuffix(s, "yz") {
		verifAssert(false, "found-xyz")
	}
}

type counter struct {
	mu sync.Mutex
	n  int
}

func (c *counter) inc() {
	c.mu.Lock()
	c.n++
	c.mu.Unlock()
}

func verifSelfConc() {
	c := &counter{}
	verifRaceScope(c, "counter")
	var wg sync.WaitGroup
	wg.Add(2)
	go func() { c.inc(); wg.Done() }()
	go func() { c.inc(); wg.Done() }()
	wg.Wait()
	verifAssert(c.n == 2, "count")
}

// unsynchronised counter: race must be reported
func verifSelfRace() {
	c := &counter{}
	verifRaceScope(c, "counter")
	var wg sync.WaitGroup
	wg.Add(2)
	go func() { c.n++; wg.Done() }()
	go func() { c.n++; wg.Done() }()
	wg.Wait()
}

// lost update with atomics-free check-then-act under separate lock sections: must be found
func verifSelfLostUpdate() {
	c := &counter{}
	var wg sync.WaitGroup
	wg.Add(2)
	f := func() {
		c.mu.Lock()
		v := c.n
		c.mu.Unlock()
		c.mu.Lock()
		c.n = v + 1
		c.mu.Unlock()
		wg.Done()
	}
	go f()
	go f()
	wg.Wait()
	verifAssert(c.n == 2, "lost-update")
}

func verifSelfChan() {
	ch := make(chan int, 1)
	done := make(chan struct{})
	go func() {
		v := <-ch
		verifAssert(v == 7, "recv")
		close(done)
	}()
	ch <- 7
	<-done
	unb := make(chan int)
	go func() { unb <- 3 }()
	select {
	case v := <-unb:
		verifAssert(v == 3, "unbuffered")
	}
	select {
	case <-unb:
		verifAssert(false, "empty-select")
	default:
		verifCover("default")
	}
}

func verifSelfUF() {
	a := verifInt("a", 0, 9)
	b := verifInt("b", 0, 9)
	fa := verifUFBool("f", a)
	fb := verifUFBool("f", b)
	if a == b {
		verifAssert(fa == fb, "uf-consistent")
	}
	if fa != fb {
		verifAssert(a != b, "uf-contra")
		verifCover("uf-differs")
	}
}

// verifSelfFields: strings.Fields / strings.Join over a SYMBOLIC string must explore every
// string, not one concretisation: a string with two fields exists ("a b", "a\tb").
func verifSelfFields() {
	s := verifString("s", 3)
	ok := true
	for i := 0; i < len(s); i++ {
		c := s[i]
		if !(c == 'a' || c == 'b' || c == ' ' || c == '\t') {
			ok = false
		}
	}
	verifAssume(ok)
	f := strings.Fields(s)
	verifAssert(len(f) != 2, "two-fields-exist")
}

// verifSelfRaceAfterUnlock: an access made AFTER releasing a lock is not ordered with what the
// next holder of the lock does: the unsynchronised read below races with the other thread's write.
type selfShared struct {
	mu sync.Mutex
	x  int
}

func verifSelfRaceAfterUnlock() {
	s := &selfShared{}
	verifRaceScope(s, "selfShared")
	var wg sync.WaitGroup
	wg.Add(2)
	go func() {
		defer wg.Done()
		s.mu.Lock()
		s.x = 1
		s.mu.Unlock()
		_ = s.x // unsynchronised read after the unlock
	}()
	go func() {
		defer wg.Done()
		s.mu.Lock()
		s.x = 2
		s.mu.Unlock()
	}()
	wg.Wait()
}

// verifSelfRecursiveRLock: sync.RWMutex prefers writers - a goroutine that read-locks a mutex it
// already holds for reading deadlocks when a writer asked for the lock in between.
func verifSelfRecursiveRLock() {
	var mu sync.RWMutex
	done := make(chan struct{})
	go func() {
		mu.Lock()
		mu.Unlock()
		close(done)
	}()
	mu.RLock()
	verifYield()
	mu.RLock()
	mu.RUnlock()
	mu.RUnlock()
	<-done
}

// verifSelfRLockTwoReaders: two readers never block each other, with or without a writer that
// comes and goes.
func verifSelfRLockTwoReaders() {
	var mu sync.RWMutex
	var wg sync.WaitGroup
	wg.Add(3)
	for i := 0; i < 2; i++ {
		go func() {
			defer wg.Done()
			mu.RLock()
			verifYield()
			mu.RUnlock()
		}()
	}
	go func() {
		defer wg.Done()
		mu.Lock()
		mu.Unlock()
	}()
	wg.Wait()
}

// verifSelfAfterFuncVirtual: time.AfterFunc on the virtual clock (harness option
// virtualAfterFunc): not before its deadline, when due (verifAdvance or every goroutine blocked),
// never after Stop.
func verifSelfAfterFuncVirtual() {
	fired := make(chan struct{})
	time.AfterFunc(time.Second, func() { close(fired) })
	verifAdvance(int64(500 * time.Millisecond))
	verifQuiesce()
	select {
	case <-fired:
		verifAssert(false, "fired-early")
	default:
	}
	verifAdvance(int64(600 * time.Millisecond))
	verifQuiesce()
	select {
	case <-fired:
	default:
		verifAssert(false, "not-fired-when-due")
	}
	t2 := time.AfterFunc(time.Second, func() { verifAssert(false, "stopped-timer-fired") })
	verifAssert(t2.Stop(), "stop-of-an-armed-timer-reports-true")
	verifAdvance(int64(2 * time.Second))
	verifQuiesce()
	done := make(chan struct{})
	time.AfterFunc(time.Hour, func() { close(done) })
	<-done
	verifAssert(verifClock() >= int64(time.Hour), "clock-jumps-when-every-goroutine-is-blocked")
}
