package resilience

import (
	"context"
	"errors"
	"time"

	libcb "github.com/megaease/easegress/pkg/util/circuitbreaker"
)

// C08 (wrapper), package resilience: circuitBreakerWrapper.Wrap records exactly one
// result per admitted call - also when the handler panics (counted as a failure and
// the panic re-raised) - and none for a short-circuited call.
var errHandler = errors.New("handler failed")

func vCBNow() time.Time                 { return time.Time{} }
func vCBSince(t time.Time) time.Duration { return 0 }

func verifC08_Wrapper() {
	open := verifBool("breakerOpen")
	pol := &CircuitBreakerPolicy{FailureRateThreshold: 50, SlowCallRateThreshold: 100, SlidingWindowSize: 4, MinimumNumberOfCalls: 4,
		PermittedNumberOfCallsInHalfOpen: 2, WaitDurationInOpen: "1h", SlowCallDurationThreshold: "1h"}
	w := pol.CreateWrapper().(circuitBreakerWrapper)
	if open {
		for i := 0; i < 4; i++ {
			ok, id := w.AcquirePermission()
			verifAssert(ok, "closed-admits")
			w.RecordResult(id, true, 0)
		}
	}
	before := vWindowTotal(w.CircuitBreaker)
	calls := 0
	outcome := verifChoose("handlerOutcome", 3) // 0 ok, 1 error, 2 panic
	// the client may give up while its call is in flight: the outcome is recorded all the same
	cctx, cancel := context.WithCancel(context.Background())
	defer cancel()
	cancelDuring := verifBool("clientCancelsDuringTheCall")
	handler := func(ctx context.Context) error {
		calls++
		if cancelDuring {
			cancel()
			verifCover("cancelled-during-the-call")
		}
		switch outcome {
		case 1:
			return errHandler
		case 2:
			panic("handler panics")
		}
		return nil
	}
	var err error
	panicked := false
	func() {
		defer func() {
			if r := recover(); r != nil {
				panicked = true
			}
		}()
		err = w.Wrap(handler)(cctx)
	}()
	after := vWindowTotal(w.CircuitBreaker)
	if open {
		verifAssert(err == ErrShortCircuited && calls == 0 && !panicked, "open-breaker-short-circuits-without-calling")
		verifAssert(after == before, "short-circuited-call-records-nothing")
		verifCover("short-circuited")
		return
	}
	verifAssert(calls == 1, "handler-called-once")
	verifAssert(after == before+1, "exactly-one-result-recorded")
	switch outcome {
	case 0:
		verifAssert(err == nil && !panicked, "success-passed-through")
	case 1:
		verifAssert(err == errHandler && !panicked, "error-passed-through")
	case 2:
		verifAssert(panicked, "panic-re-raised")
		verifCover("panic-recorded-as-failure")
	}
}

// verifC08_PolicyMapping: the circuit breaker that a CircuitBreakerPolicy creates runs with the
// numbers and durations the policy states - for both window types (the window size of a
// TIME_BASED policy is seconds, unrelated to minimumNumberOfCalls) - and with the documented
// defaults for durations left out.
func verifC08_PolicyMapping() {
	types := []string{"", "COUNT_BASED", "TIME_BASED", "time_based"}
	ti := verifChoose("policy.slidingWindowType", len(types))
	durs := []string{"", "10s", "90s"}
	dval := []time.Duration{time.Minute, 10 * time.Second, 90 * time.Second}
	di := verifChoose("policy.durations", len(durs))
	p := &CircuitBreakerPolicy{
		SlidingWindowType:                types[ti],
		FailureRateThreshold:             uint8(verifInt("policy.failureRateThreshold", 1, 100)),
		SlowCallRateThreshold:            uint8(verifInt("policy.slowCallRateThreshold", 1, 100)),
		SlidingWindowSize:                uint32(verifInt("policy.slidingWindowSize", 1, 20)),
		PermittedNumberOfCallsInHalfOpen: uint32(verifInt("policy.permittedNumberOfCallsInHalfOpenState", 0, 20)),
		MinimumNumberOfCalls:             uint32(verifInt("policy.minimumNumberOfCalls", 0, 40)),
		SlowCallDurationThreshold:        durs[di],
		WaitDurationInOpen:               durs[di],
		MaxWaitDurationInHalfOpen:        durs[di],
	}
	w := p.CreateWrapper().(circuitBreakerWrapper)
	lp := verifGetField(w.CircuitBreaker, "policy").(*libcb.Policy)
	wantTime := ti >= 2
	verifAssert((lp.SlidingWindowType == libcb.TimeBased) == wantTime, "window-type-as-configured")
	verifAssert(lp.FailureRateThreshold == p.FailureRateThreshold && lp.SlowCallRateThreshold == p.SlowCallRateThreshold, "thresholds-as-configured")
	verifAssert(lp.SlidingWindowSize == p.SlidingWindowSize, "window-size-as-configured")
	verifAssert(lp.MinimumNumberOfCalls == p.MinimumNumberOfCalls, "minimum-number-of-calls-as-configured")
	verifAssert(lp.PermittedNumberOfCallsInHalfOpen == p.PermittedNumberOfCallsInHalfOpen, "permitted-trials-as-configured")
	verifAssert(lp.SlowCallDurationThreshold == dval[di] && lp.WaitDurationInOpen == dval[di], "durations-as-configured-or-default-one-minute")
	if di == 0 {
		verifAssert(lp.MaxWaitDurationInHalfOpen == 0, "no-max-wait-unless-configured")
	} else {
		verifAssert(lp.MaxWaitDurationInHalfOpen == dval[di], "durations-as-configured-or-default-one-minute")
	}
	if wantTime && p.MinimumNumberOfCalls > p.SlidingWindowSize {
		verifCover("time-based-minimum-above-window-seconds")
	}
}
