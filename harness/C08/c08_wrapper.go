package resilience

import (
	"context"
	"errors"
	"time"
)

// C08 (wrapper), package resilience: circuitBreakerWrapper.Wrap records exactly one
// result per admitted call - also when the handler panics (counted as a failure and
// the panic re-raised) - and none for a short-circuited call.
var errHandler = errors.New("handler failed")

func vCBNow() time.Time                 { return time.Time{} }
func vCBSince(t time.Time) time.Duration { return 0 }

func verifC08_Wrapper() {
	open := verifBool("breakerOpen")
	pol := &CircuitBreakerPolicy{FailureRateThreshold: 50, SlowCallRateThreshold: 100, SlidingWindowSize: 4, MinimumNumberOfCalls: 4,
		PermittedNumberOfCallsInHalfOpen: 2, WaitDurationInOpen: "1h", SlowCallDurationThreshold: "1h"}
	w := pol.CreateWrapper().(circuitBreakerWrapper)
	if open {
		for i := 0; i < 4; i++ {
			ok, id := w.AcquirePermission()
			verifAssert(ok, "closed-admits")
			w.RecordResult(id, true, 0)
		}
	}
	before := vWindowTotal(w.CircuitBreaker)
	calls := 0
	outcome := verifChoose("handlerOutcome", 3) // 0 ok, 1 error, 2 panic
	// the client may give up while its call is in flight: the outcome is recorded all the same
	cctx, cancel := context.WithCancel(context.Background())
	defer cancel()
	cancelDuring := verifBool("clientCancelsDuringTheCall")
	handler := func(ctx context.Context) error {
		calls++
		if cancelDuring {
			cancel()
			verifCover("cancelled-during-the-call")
		}
		switch outcome {
		case 1:
			return errHandler
		case 2:
			panic("handler panics")
		}
		return nil
	}
	var err error
	panicked := false
	func() {
		defer func() {
			if r := recover(); r != nil {
				panicked = true
			}
		}()
		err = w.Wrap(handler)(cctx)
	}()
	after := vWindowTotal(w.CircuitBreaker)
	if open {
		verifAssert(err == ErrShortCircuited && calls == 0 && !panicked, "open-breaker-short-circuits-without-calling")
		verifAssert(after == before, "short-circuited-call-records-nothing")
		verifCover("short-circuited")
		return
	}
	verifAssert(calls == 1, "handler-called-once")
	verifAssert(after == before+1, "exactly-one-result-recorded")
	switch outcome {
	case 0:
		verifAssert(err == nil && !panicked, "success-passed-through")
	case 1:
		verifAssert(err == errHandler && !panicked, "error-passed-through")
	case 2:
		verifAssert(panicked, "panic-re-raised")
		verifCover("panic-recorded-as-failure")
	}
}
