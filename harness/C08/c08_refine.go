package circuitbreaker

import (
	"time"
)

// White-box part of the C08 harnesses: refinement steps that build the implementation state
// field by field. Kept in its own file: when the code under test no longer has a field named
// here, the engine drops this file (its harnesses become inconclusive) and still runs the
// black-box harnesses of c08_cb.go.

// ---------------------------------------------------------------------------
// Refinement step (count-based window): ONE operation from an ARBITRARY
// well-formed state. The abstract state a is symbolic; the implementation state
// is its concretisation gamma(a), built field by field (so the representation
// invariant holds by construction). After the operation the outputs must agree
// and the implementation state must again be gamma(reference post-state).
// Together with the base case New(policy) = gamma(initial) this covers call
// histories of any length within the window/permit bounds.
// ---------------------------------------------------------------------------

func vResultOf(k int64) CallResult {
	switch k {
	case 0:
		return CallResultSuccess
	case 1:
		return CallResultSlow
	}
	return CallResultFailure
}

// vRing concretises a sequence of n results (oldest first) into a ring of the
// given capacity: not full => stored from index 0, bucketIdx = n; full => any rotation.
func vRing(label string, capacity int, results []CallResult) *CountBasedWindow {
	n := len(results)
	w := &CountBasedWindow{bucket: make([]CallResult, capacity)}
	rot := 0
	if n == capacity && capacity > 0 {
		rot = verifChoose(label+".rotation", capacity)
		w.bucketIdx = rot
	} else {
		w.bucketIdx = n
	}
	for i, r := range results {
		w.bucket[(rot+i)%capacity] = r
		w.total++
		if r == CallResultSlow {
			w.slow++
		} else if r == CallResultFailure {
			w.failure++
		}
	}
	return w
}

// vRingContent reads a ring back as a sequence (oldest first) and checks its well-formedness.
func vRingContent(w *CountBasedWindow) []CallResult {
	capacity := len(w.bucket)
	var seq []CallResult
	var fails, slows uint32
	start := 0
	if int(w.total) == capacity {
		start = w.bucketIdx
	} else {
		verifAssert(w.bucketIdx == int(w.total), "ring-not-full-means-index-equals-total")
	}
	for i := 0; i < capacity; i++ {
		r := w.bucket[(start+i)%capacity]
		if i < int(w.total) {
			verifAssert(r != CallResultUnknown, "ring-slot-in-use")
			seq = append(seq, r)
			if r == CallResultFailure {
				fails++
			} else if r == CallResultSlow {
				slows++
			}
		} else {
			verifAssert(r == CallResultUnknown, "ring-slot-free")
		}
	}
	verifAssert(w.failure == fails && w.slow == slows, "ring-counters-consistent")
	return seq
}

func verifC08_RefineCount() {
	p := vPolicy(CountBased)
	vWallOnly = false
	W := int(verifConcrete(int64(p.SlidingWindowSize), int64(verifBound("maxWindow"))))
	P := int(verifConcrete(int64(p.PermittedNumberOfCallsInHalfOpen), int64(verifBound("maxPermitted"))))
	nowFunc = vNow

	// abstract pre-state
	ref := &vRef{p: p}
	ref.state = rClosed + verifChoose("pre.state", 3)
	ref.episode = uint32(verifInt("pre.episode", 1, 1<<32-8))
	ref.tMono = verifInt("pre.transitionTime", 0, 1<<42)
	vMono = verifInt("now", 0, 1<<42)
	verifAssume(vMono >= ref.tMono)

	cb := &CircuitBreaker{policy: p, stateID: ref.episode}
	verifSetField(&cb.transitTime, "wall", uint64(vHasMonotonic|(4000000000<<30)))
	verifSetField(&cb.transitTime, "ext", ref.tMono)
	var results []CallResult
	switch ref.state {
	case rClosed:
		cb.state = StateClosed
		n := verifChoose("pre.windowFill", W+1)
		for i := 0; i < n; i++ {
			results = append(results, vResultOf(verifInt("pre.result", 0, 2)))
		}
		cb.window = vRing("pre", W, results)
		cb.numberOfCallsInHalfOpen = uint32(verifInt("pre.staleTrialCounter", 0, 1<<20)) // not meaningful outside HALF_OPEN
	case rHalfOpen:
		cb.state = StateHalfOpen
		k := verifChoose("pre.trialsAdmitted", P+1)
		m := verifChoose("pre.trialsRecorded", k+1)
		minCalls := p.MinimumNumberOfCalls
		if minCalls > uint32(P) {
			minCalls = uint32(P)
		}
		// every evaluation leaves HALF_OPEN, so fewer than min(minimum, permitted) results are in
		verifAssume(m == 0 || uint32(m) < minCalls)
		for i := 0; i < m; i++ {
			results = append(results, vResultOf(verifInt("pre.result", 0, 2)))
		}
		cb.window = vRing("pre", P, results)
		cb.numberOfCallsInHalfOpen = uint32(k)
		ref.admitted = uint32(k)
	case rOpen:
		cb.state = StateOpen
		// the window of an OPEN breaker is whatever the episode that opened it left behind
		n := verifChoose("pre.windowFill", W+1)
		for i := 0; i < n; i++ {
			results = append(results, vResultOf(verifInt("pre.result", 0, 2)))
		}
		cb.window = vRing("pre", W, results)
		cb.numberOfCallsInHalfOpen = uint32(verifInt("pre.staleTrialCounter", 0, 1<<20))
	}
	for _, r := range results {
		ref.win = append(ref.win, vCall{0, r})
	}
	preState := ref.state

	// one operation
	switch verifChoose("op", 2) {
	case 0:
		ok, tag := cb.AcquirePermission()
		rok, rtag := ref.acquire()
		verifAssert(ok == rok, "admission")
		verifAssert(tag == rtag, "admission-tag")
		if preState == rOpen && rok {
			verifCover("open-to-half-open-trial-admitted")
		}
		if preState == rHalfOpen && !rok {
			verifCover("half-open-call-rejected")
		}
		if preState == rHalfOpen && ref.state == rOpen {
			verifCover("reopened-by-max-wait")
		}
	case 1:
		stale := verifBool("staleTag")
		tag := ref.episode
		if stale {
			tag = uint32(verifInt("otherEpisode", 0, 1<<32-1))
			verifAssume(tag != ref.episode)
			verifCover("stale-result")
		} else {
			// a result for the current episode exists only for a call admitted in it
			verifAssume(preState == rClosed || (preState == rHalfOpen && uint32(len(results)) < ref.admitted))
		}
		hasErr := verifBool("hasErr")
		d := time.Duration(verifInt("duration", 0, 1<<41))
		cb.RecordResult(tag, hasErr, d)
		ref.record(tag, hasErr, d)
		if preState == rHalfOpen && ref.state == rClosed {
			verifCover("closed-by-recovery")
		}
		if preState == rClosed && ref.state == rOpen {
			verifCover("opened")
		}
	}

	// alpha(post) == reference post-state
	verifAssert(vImplState(cb) == ref.state, "state")
	verifAssert(cb.stateID == ref.episode, "episode")
	if ref.state != preState {
		verifAssert(cb.transitTime.Sub(vNow()) == 0, "transition-time-is-now")
	}
	if ref.state == rHalfOpen {
		verifAssert(cb.numberOfCallsInHalfOpen == ref.admitted, "trial-counter")
	}
	if ref.state != rOpen {
		w := cb.window.(*CountBasedWindow)
		capacity := W
		if ref.state == rHalfOpen {
			capacity = P
		}
		verifAssert(len(w.bucket) == capacity, "window-capacity")
		seq := vRingContent(w)
		verifAssert(len(seq) == len(ref.win), "window-length")
		for i := range seq {
			if i < len(ref.win) {
				verifAssert(seq[i] == ref.win[i].res, "window-content")
			}
		}
	}
}

// verifC08_Base: New(policy) is gamma(initial abstract state).
func verifC08_Base() {
	p := vPolicy(CountBased)
	vWallOnly = false
	vMono = verifInt("now", 0, 1<<42)
	nowFunc = vNow
	cb := New(p)
	verifAssert(cb.state == StateClosed && cb.stateID == 1, "initial-state")
	w := cb.window.(*CountBasedWindow)
	verifAssert(uint32(len(w.bucket)) == p.SlidingWindowSize, "window-capacity")
	verifAssert(len(vRingContent(w)) == 0, "initial-window-empty")
	verifAssert(cb.transitTime.Sub(vNow()) == 0, "transition-time-is-now")
}

// ---------------------------------------------------------------------------
// Time-based window. Time model for these harnesses (stated in the evidence):
// a time.Time is its nanosecond reading (field ext); (time.Time).Sub, Add and
// Truncate are replaced by the three functions below (int64-nanosecond model;
// the real wall-clock code path multiplies and divides by 10^9 several times per
// call and is out of solver reach). Readings stay below 2^42 ns.
// ---------------------------------------------------------------------------

func vExt(t time.Time) int64 { return verifGetField(&t, "ext").(int64) }

func vSub(t, u time.Time) time.Duration { return time.Duration(vExt(t) - vExt(u)) }

func vAdd(t time.Time, d time.Duration) time.Time {
	verifSetField(&t, "ext", vExt(t)+int64(d))
	return t
}

func vTruncate(t time.Time, d time.Duration) time.Time {
	e := vExt(t)
	verifSetField(&t, "ext", e-e%int64(d))
	return t
}

type vBucket struct{ total, slow, failure uint32 }

func verifC08_RefineTime() {
	p := vPolicy(TimeBased)
	vWallOnly = false
	W := int(verifConcrete(int64(p.SlidingWindowSize), int64(verifBound("maxWindow"))))
	P := int(verifConcrete(int64(p.PermittedNumberOfCallsInHalfOpen), int64(verifBound("maxPermitted"))))
	nowFunc = vNow
	const second = 1000000000

	ref := &vRef{p: p}
	ref.episode = uint32(verifInt("pre.episode", 1, 1<<32-8))
	cb := &CircuitBreaker{policy: p, stateID: ref.episode}

	inHalfOpen := verifBool("pre.halfOpen")
	// Whole seconds are enumerated (window start fixed, every gap 0..2W+2 explored
	// as a concrete value): the solver cannot decide the repeated division by 10^9
	// over symbolic seconds within minutes. Nanoseconds within the second, the
	// per-second counts, the policy and the call result stay symbolic.
	b := int64(7)
	nowSec := b + int64(verifChoose("now.secondsSinceWindowBegin", 2*W+3))
	nowNs := verifInt("now.nanos", 0, second-1)
	vSec, vNsec = nowSec, nowNs
	vMono = nowSec*second + nowNs
	var results []CallResult
	if inHalfOpen {
		ref.state = rHalfOpen
		cb.state = StateHalfOpen
		k := verifChoose("pre.trialsAdmitted", P+1)
		m := verifChoose("pre.trialsRecorded", k+1)
		minCalls := p.MinimumNumberOfCalls
		if minCalls > uint32(P) {
			minCalls = uint32(P)
		}
		verifAssume(m == 0 || uint32(m) < minCalls)
		verifAssume(m < k) // a trial result is outstanding
		for i := 0; i < m; i++ {
			results = append(results, vResultOf(verifInt("pre.result", 0, 2)))
		}
		cb.window = vRing("pre", P, results)
		cb.numberOfCallsInHalfOpen = uint32(k)
		ref.admitted = uint32(k)
		for _, r := range results {
			ref.win = append(ref.win, vCall{0, r})
		}
	} else {
		ref.state = rClosed
		cb.state = StateClosed
		w := &TimeBasedWindow{bucket: make([]timeBasedWindowBucket, W)}
		verifSetField(&w.beginAt, "wall", uint64(vHasMonotonic|(4000000000<<30)))
		verifSetField(&w.beginAt, "ext", b*second)
		w.firstBucket = verifChoose("pre.firstBucket", W)
		maxPer := int64(verifBound("maxCallsPerSecond"))
		last := int64(-1)
		for j := 0; j < W; j++ {
			t := verifInt("pre.bucketTotal", 0, maxPer)
			f := verifInt("pre.bucketFailures", 0, maxPer)
			s := verifInt("pre.bucketSlow", 0, maxPer)
			verifAssume(f+s <= t)
			bk := &w.bucket[(w.firstBucket+j)%W]
			bk.total, bk.failure, bk.slow = uint32(t), uint32(f), uint32(s)
			w.total += uint32(t)
			w.failure += uint32(f)
			w.slow += uint32(s)
			tc := int(verifConcrete(t, maxPer))
			fc := int(verifConcrete(f, maxPer))
			sc := int(verifConcrete(s, maxPer))
			for c := 0; c < tc; c++ {
				r := CallResultSuccess
				if c < fc {
					r = CallResultFailure
				} else if c < fc+sc {
					r = CallResultSlow
				}
				ref.win = append(ref.win, vCall{b + int64(j), r})
			}
			if tc > 0 {
				last = int64(j)
			}
		}
		cb.window = w
		// the clock never runs backwards: now is not before the window start nor before any recorded call
		verifAssume(nowSec >= b && nowSec >= b+last)
	}

	tag := ref.episode
	if verifBool("staleTag") {
		tag = uint32(verifInt("otherEpisode", 0, 1<<32-1))
		verifAssume(tag != ref.episode)
	}
	hasErr := verifBool("hasErr")
	d := time.Duration(verifInt("duration", 0, 1<<41))
	preState := ref.state
	cb.RecordResult(tag, hasErr, d)
	ref.record(tag, hasErr, d)

	verifAssert(vImplState(cb) == ref.state, "state")
	verifAssert(cb.stateID == ref.episode, "episode")
	if preState == rClosed && ref.state == rOpen {
		verifCover("opened")
	}
	if ref.state != rClosed {
		return
	}
	w := cb.window.(*TimeBasedWindow)
	verifAssert(len(w.bucket) == W, "window-capacity")
	expBegin := b
	if preState == rHalfOpen {
		expBegin = nowSec // fresh window, begins at the current whole second
		verifCover("closed-by-recovery")
	} else if tag == ref.episode && nowSec-b >= int64(W) {
		expBegin = nowSec - int64(W) + 1
		verifCover("evicted-by-time")
		if nowSec-b >= 2*int64(W) {
			verifCover("idle-gap-longer-than-two-windows")
		}
	}
	verifAssert(vExt(w.beginAt) == expBegin*second, "window-begins-at-expected-second")
	var sumT, sumS, sumF uint32
	for j := 0; j < W; j++ {
		bk := w.bucket[(w.firstBucket+j)%W]
		var t, s, f uint32
		for _, c := range ref.win {
			if c.sec == expBegin+int64(j) {
				t++
				if c.res == CallResultFailure {
					f++
				} else if c.res == CallResultSlow {
					s++
				}
			}
		}
		verifAssert(bk.total == t && bk.slow == s && bk.failure == f, "per-second-counts")
		sumT, sumS, sumF = sumT+t, sumS+s, sumF+f
	}
	verifAssert(w.total == sumT && w.slow == sumS && w.failure == sumF, "window-totals")
	verifAssert(int(sumT) == len(ref.win), "no-call-outside-the-window")
}

// ---------------------------------------------------------------------------
// Concurrent callers: the breaker is OPEN with the wait elapsed; several threads
// acquire and then record. Every schedule within the preemption bound: at most
// `permitted` calls are admitted in the half-open episode, the final state is
// what the recorded trial results imply, and the breaker's fields are race free.
// ---------------------------------------------------------------------------
