package circuitbreaker

import (
	"sync"
	"time"
)

// ---------------------------------------------------------------------------
// C08 harnesses, package circuitbreaker (overlay only; never written to /repo).
// The reference automaton below is written from the property statement, not
// from the implementation.
// ---------------------------------------------------------------------------

// Harness clock. Two flavours of time.Time occur in practice:
//   - monotonic (what time.Now() returns in production): Sub is one 64-bit
//     subtraction of the monotonic readings. vMono carries the reading; the
//     wall-clock part of the value is a constant (it is not consulted by Sub
//     when both operands carry a monotonic reading).
//   - wall-only (what Truncate and the repository's test mocks produce): built
//     with time.Unix(vSec, vNsec); Sub goes through seconds/nanoseconds.
var (
	vWallOnly   bool
	vMono       int64 // monotonic flavour: nanoseconds
	vSec, vNsec int64 // wall-only flavour (vSec is also the whole second of "now" for the reference)
)

const vHasMonotonic = 1 << 63

func vNow() time.Time {
	if vWallOnly {
		return time.Unix(vSec, vNsec)
	}
	var t time.Time
	verifSetField(&t, "wall", uint64(vHasMonotonic|(4000000000<<30)))
	verifSetField(&t, "ext", vMono)
	return t
}

const (
	rClosed   = 1
	rHalfOpen = 2
	rOpen     = 3
)

type vCall struct {
	sec int64 // whole second at which the result was recorded
	res CallResult
}

type vRef struct {
	p        *Policy
	state    int
	episode  uint32
	win      []vCall // window content, oldest first
	tSec     int64   // time of last transition
	tNsec    int64
	tMono    int64
	admitted uint32
}

func (r *vRef) elapsed() int64 {
	if !vWallOnly {
		return vMono - r.tMono
	}
	return (vSec-r.tSec)*1000000000 + (vNsec - r.tNsec)
}

func (r *vRef) transit(to int) {
	r.state = to
	r.episode++
	r.tSec, r.tNsec, r.tMono = vSec, vNsec, vMono
	if to == rClosed || to == rHalfOpen {
		r.win = nil
		r.admitted = 0
	}
}

func (r *vRef) acquire() (bool, uint32) {
	switch r.state {
	case rClosed:
		return true, r.episode
	case rOpen:
		if r.elapsed() < int64(r.p.WaitDurationInOpen) {
			return false, r.episode
		}
		r.transit(rHalfOpen)
	}
	// half open
	if r.admitted < r.p.PermittedNumberOfCallsInHalfOpen {
		r.admitted++
		return true, r.episode
	}
	if r.p.MaxWaitDurationInHalfOpen > 0 && r.elapsed() > int64(r.p.MaxWaitDurationInHalfOpen) {
		r.transit(rOpen)
	}
	return false, r.episode
}

func (r *vRef) record(tag uint32, hasErr bool, d time.Duration) {
	if tag != r.episode {
		return // result of a call admitted in an earlier state
	}
	res := CallResultSuccess
	if hasErr {
		res = CallResultFailure
	} else if d >= r.p.SlowCallDurationThreshold {
		res = CallResultSlow
	}
	// window: last N calls (count based, and always in half-open), or calls of the last N seconds
	capacity := int(r.p.SlidingWindowSize)
	timeBased := r.p.SlidingWindowType == TimeBased && r.state == rClosed
	if r.state == rHalfOpen {
		capacity = int(r.p.PermittedNumberOfCallsInHalfOpen)
	}
	if timeBased {
		var keep []vCall
		for _, c := range r.win {
			if c.sec > vSec-int64(capacity) {
				keep = append(keep, c)
			}
		}
		r.win = append(keep, vCall{vSec, res})
	} else {
		if len(r.win) >= capacity {
			r.win = r.win[1:]
		}
		r.win = append(r.win, vCall{vSec, res})
	}
	minCalls := r.p.MinimumNumberOfCalls
	if r.state == rHalfOpen && minCalls > r.p.PermittedNumberOfCallsInHalfOpen {
		minCalls = r.p.PermittedNumberOfCallsInHalfOpen
	}
	total := uint32(len(r.win))
	if total < minCalls {
		return
	}
	var fails, slows uint32
	for _, c := range r.win {
		if c.res == CallResultFailure {
			fails++
		} else if c.res == CallResultSlow {
			slows++
		}
	}
	switch {
	case fails*100 >= uint32(r.p.FailureRateThreshold)*total:
		verifCover("opened-by-failure-rate")
		r.transit(rOpen)
	case slows*100 >= uint32(r.p.SlowCallRateThreshold)*total:
		verifCover("opened-by-slow-rate")
		r.transit(rOpen)
	case r.state == rHalfOpen:
		verifCover("closed-by-recovery")
		r.transit(rClosed)
	}
}

func vImplState(cb *CircuitBreaker) int {
	switch cb.State() {
	case StateClosed:
		return rClosed
	case StateHalfOpen:
		return rHalfOpen
	case StateOpen:
		return rOpen
	}
	return 0
}

func vPolicy(windowType uint8) *Policy {
	maxW := int64(verifBound("maxWindow"))
	maxP := int64(verifBound("maxPermitted"))
	p := &Policy{
		FailureRateThreshold:             uint8(verifInt("failureRateThreshold", 1, 100)),
		SlowCallRateThreshold:            uint8(verifInt("slowCallRateThreshold", 1, 100)),
		SlidingWindowType:                windowType,
		SlidingWindowSize:                uint32(verifInt("slidingWindowSize", 1, maxW)),
		PermittedNumberOfCallsInHalfOpen: uint32(verifInt("permittedInHalfOpen", 0, maxP)),
		MinimumNumberOfCalls:             uint32(verifInt("minimumNumberOfCalls", 0, maxW+1)),
		SlowCallDurationThreshold:        time.Duration(verifInt("slowCallDurationThreshold", 0, 1<<40)),
		MaxWaitDurationInHalfOpen:        time.Duration(verifInt("maxWaitInHalfOpen", 0, 1<<40)),
		WaitDurationInOpen:               time.Duration(verifInt("waitInOpen", 0, 1<<40)),
	}
	return p
}

func vAdvance() {
	if !vWallOnly {
		n := verifInt("clock.mono", 0, 1<<42)
		verifAssume(n >= vMono)
		vMono = n
		return
	}
	ns := verifInt("clock.sec", 0, 1<<12)
	nn := verifInt("clock.nsec", 0, 999999999)
	verifAssume(ns > vSec || (ns == vSec && nn >= vNsec))
	vSec, vNsec = ns, nn
}

// verifC08_Hist: N operations from New(policy); implementation and reference in lock-step.
func vHist(windowType uint8) {
	p := vPolicy(windowType)
	// window sizes are concretised (slice lengths)
	vWallOnly = verifBound("wallOnlyClock") == 1
	if vWallOnly {
		vSec, vNsec = verifInt("clock0.sec", 0, 1<<12), verifInt("clock0.nsec", 0, 999999999)
	} else {
		vMono = verifInt("clock0.mono", 0, 1<<42)
	}
	nowFunc = vNow
	cb := New(p)
	ref := &vRef{p: p}
	ref.transit(rClosed)
	verifAssert(vImplState(cb) == rClosed, "initial-state")

	var tags [8]uint32
	ntags := 0
	steps := verifBound("steps")
	for i := 0; i < steps; i++ {
		switch verifChoose("op", 3) {
		case 0: // a call asks for admission
			ok, tag := cb.AcquirePermission()
			rok, rtag := ref.acquire()
			verifAssert(ok == rok, "admission")
			if ok {
				verifAssert(tag == rtag, "admission-tag")
				if ref.state == rHalfOpen {
					verifCover("half-open-trial-admitted")
				}
				tags[ntags] = tag
				ntags++
			} else if ref.state == rHalfOpen {
				verifCover("half-open-call-rejected")
			} else {
				verifCover("open-call-rejected")
			}
		case 1: // an admitted call completes (possibly one admitted in an earlier state)
			if ntags == 0 {
				verifAssume(false)
			}
			k := verifChoose("which", ntags)
			tag := tags[k]
			// each admitted call completes once
			tags[k] = tags[ntags-1]
			ntags--
			hasErr := verifBool("hasErr")
			d := time.Duration(verifInt("duration", 0, 1<<41))
			if tag != ref.episode {
				verifCover("stale-result")
			}
			cb.RecordResult(tag, hasErr, d)
			ref.record(tag, hasErr, d)
		case 2:
			vAdvance()
		}
		verifAssert(vImplState(cb) == ref.state, "state")
	}
}

func verifC08_HistCount() { vHist(CountBased) }
func verifC08_HistTime()  { vHist(TimeBased) }

// ---------------------------------------------------------------------------
// Refinement step (count-based window): ONE operation from an ARBITRARY
// well-formed state. The abstract state a is symbolic; the implementation state
// is its concretisation gamma(a), built field by field (so the representation
// invariant holds by construction). After the operation the outputs must agree
// and the implementation state must again be gamma(reference post-state).
// Together with the base case New(policy) = gamma(initial) this covers call
// histories of any length within the window/permit bounds.
// ---------------------------------------------------------------------------

func vResultOf(k int64) CallResult {
	switch k {
	case 0:
		return CallResultSuccess
	case 1:
		return CallResultSlow
	}
	return CallResultFailure
}

// vRing concretises a sequence of n results (oldest first) into a ring of the
// given capacity: not full => stored from index 0, bucketIdx = n; full => any rotation.
func vRing(label string, capacity int, results []CallResult) *CountBasedWindow {
	n := len(results)
	w := &CountBasedWindow{bucket: make([]CallResult, capacity)}
	rot := 0
	if n == capacity && capacity > 0 {
		rot = verifChoose(label+".rotation", capacity)
		w.bucketIdx = rot
	} else {
		w.bucketIdx = n
	}
	for i, r := range results {
		w.bucket[(rot+i)%capacity] = r
		w.total++
		if r == CallResultSlow {
			w.slow++
		} else if r == CallResultFailure {
			w.failure++
		}
	}
	return w
}

// vRingContent reads a ring back as a sequence (oldest first) and checks its well-formedness.
func vRingContent(w *CountBasedWindow) []CallResult {
	capacity := len(w.bucket)
	var seq []CallResult
	var fails, slows uint32
	start := 0
	if int(w.total) == capacity {
		start = w.bucketIdx
	} else {
		verifAssert(w.bucketIdx == int(w.total), "ring-not-full-means-index-equals-total")
	}
	for i := 0; i < capacity; i++ {
		r := w.bucket[(start+i)%capacity]
		if i < int(w.total) {
			verifAssert(r != CallResultUnknown, "ring-slot-in-use")
			seq = append(seq, r)
			if r == CallResultFailure {
				fails++
			} else if r == CallResultSlow {
				slows++
			}
		} else {
			verifAssert(r == CallResultUnknown, "ring-slot-free")
		}
	}
	verifAssert(w.failure == fails && w.slow == slows, "ring-counters-consistent")
	return seq
}

func verifC08_RefineCount() {
	p := vPolicy(CountBased)
	vWallOnly = false
	W := int(verifConcrete(int64(p.SlidingWindowSize), int64(verifBound("maxWindow"))))
	P := int(verifConcrete(int64(p.PermittedNumberOfCallsInHalfOpen), int64(verifBound("maxPermitted"))))
	nowFunc = vNow

	// abstract pre-state
	ref := &vRef{p: p}
	ref.state = rClosed + verifChoose("pre.state", 3)
	ref.episode = uint32(verifInt("pre.episode", 1, 1<<32-8))
	ref.tMono = verifInt("pre.transitionTime", 0, 1<<42)
	vMono = verifInt("now", 0, 1<<42)
	verifAssume(vMono >= ref.tMono)

	cb := &CircuitBreaker{policy: p, stateID: ref.episode}
	verifSetField(&cb.transitTime, "wall", uint64(vHasMonotonic|(4000000000<<30)))
	verifSetField(&cb.transitTime, "ext", ref.tMono)
	var results []CallResult
	switch ref.state {
	case rClosed:
		cb.state = StateClosed
		n := verifChoose("pre.windowFill", W+1)
		for i := 0; i < n; i++ {
			results = append(results, vResultOf(verifInt("pre.result", 0, 2)))
		}
		cb.window = vRing("pre", W, results)
		cb.numberOfCallsInHalfOpen = uint32(verifInt("pre.staleTrialCounter", 0, 1<<20)) // not meaningful outside HALF_OPEN
	case rHalfOpen:
		cb.state = StateHalfOpen
		k := verifChoose("pre.trialsAdmitted", P+1)
		m := verifChoose("pre.trialsRecorded", k+1)
		minCalls := p.MinimumNumberOfCalls
		if minCalls > uint32(P) {
			minCalls = uint32(P)
		}
		// every evaluation leaves HALF_OPEN, so fewer than min(minimum, permitted) results are in
		verifAssume(m == 0 || uint32(m) < minCalls)
		for i := 0; i < m; i++ {
			results = append(results, vResultOf(verifInt("pre.result", 0, 2)))
		}
		cb.window = vRing("pre", P, results)
		cb.numberOfCallsInHalfOpen = uint32(k)
		ref.admitted = uint32(k)
	case rOpen:
		cb.state = StateOpen
		// the window of an OPEN breaker is whatever the episode that opened it left behind
		n := verifChoose("pre.windowFill", W+1)
		for i := 0; i < n; i++ {
			results = append(results, vResultOf(verifInt("pre.result", 0, 2)))
		}
		cb.window = vRing("pre", W, results)
		cb.numberOfCallsInHalfOpen = uint32(verifInt("pre.staleTrialCounter", 0, 1<<20))
	}
	for _, r := range results {
		ref.win = append(ref.win, vCall{0, r})
	}
	preState := ref.state

	// one operation
	switch verifChoose("op", 2) {
	case 0:
		ok, tag := cb.AcquirePermission()
		rok, rtag := ref.acquire()
		verifAssert(ok == rok, "admission")
		verifAssert(tag == rtag, "admission-tag")
		if preState == rOpen && rok {
			verifCover("open-to-half-open-trial-admitted")
		}
		if preState == rHalfOpen && !rok {
			verifCover("half-open-call-rejected")
		}
		if preState == rHalfOpen && ref.state == rOpen {
			verifCover("reopened-by-max-wait")
		}
	case 1:
		stale := verifBool("staleTag")
		tag := ref.episode
		if stale {
			tag = uint32(verifInt("otherEpisode", 0, 1<<32-1))
			verifAssume(tag != ref.episode)
			verifCover("stale-result")
		} else {
			// a result for the current episode exists only for a call admitted in it
			verifAssume(preState == rClosed || (preState == rHalfOpen && uint32(len(results)) < ref.admitted))
		}
		hasErr := verifBool("hasErr")
		d := time.Duration(verifInt("duration", 0, 1<<41))
		cb.RecordResult(tag, hasErr, d)
		ref.record(tag, hasErr, d)
		if preState == rHalfOpen && ref.state == rClosed {
			verifCover("closed-by-recovery")
		}
		if preState == rClosed && ref.state == rOpen {
			verifCover("opened")
		}
	}

	// alpha(post) == reference post-state
	verifAssert(vImplState(cb) == ref.state, "state")
	verifAssert(cb.stateID == ref.episode, "episode")
	if ref.state != preState {
		verifAssert(cb.transitTime.Sub(vNow()) == 0, "transition-time-is-now")
	}
	if ref.state == rHalfOpen {
		verifAssert(cb.numberOfCallsInHalfOpen == ref.admitted, "trial-counter")
	}
	if ref.state != rOpen {
		w := cb.window.(*CountBasedWindow)
		capacity := W
		if ref.state == rHalfOpen {
			capacity = P
		}
		verifAssert(len(w.bucket) == capacity, "window-capacity")
		seq := vRingContent(w)
		verifAssert(len(seq) == len(ref.win), "window-length")
		for i := range seq {
			if i < len(ref.win) {
				verifAssert(seq[i] == ref.win[i].res, "window-content")
			}
		}
	}
}

// verifC08_Base: New(policy) is gamma(initial abstract state).
func verifC08_Base() {
	p := vPolicy(CountBased)
	vWallOnly = false
	vMono = verifInt("now", 0, 1<<42)
	nowFunc = vNow
	cb := New(p)
	verifAssert(cb.state == StateClosed && cb.stateID == 1, "initial-state")
	w := cb.window.(*CountBasedWindow)
	verifAssert(uint32(len(w.bucket)) == p.SlidingWindowSize, "window-capacity")
	verifAssert(len(vRingContent(w)) == 0, "initial-window-empty")
	verifAssert(cb.transitTime.Sub(vNow()) == 0, "transition-time-is-now")
}

// ---------------------------------------------------------------------------
// Time-based window. Time model for these harnesses (stated in the evidence):
// a time.Time is its nanosecond reading (field ext); (time.Time).Sub, Add and
// Truncate are replaced by the three functions below (int64-nanosecond model;
// the real wall-clock code path multiplies and divides by 10^9 several times per
// call and is out of solver reach). Readings stay below 2^42 ns.
// ---------------------------------------------------------------------------

func vExt(t time.Time) int64 { return verifGetField(&t, "ext").(int64) }

func vSub(t, u time.Time) time.Duration { return time.Duration(vExt(t) - vExt(u)) }

func vAdd(t time.Time, d time.Duration) time.Time {
	verifSetField(&t, "ext", vExt(t)+int64(d))
	return t
}

func vTruncate(t time.Time, d time.Duration) time.Time {
	e := vExt(t)
	verifSetField(&t, "ext", e-e%int64(d))
	return t
}

type vBucket struct{ total, slow, failure uint32 }

func verifC08_RefineTime() {
	p := vPolicy(TimeBased)
	vWallOnly = false
	W := int(verifConcrete(int64(p.SlidingWindowSize), int64(verifBound("maxWindow"))))
	P := int(verifConcrete(int64(p.PermittedNumberOfCallsInHalfOpen), int64(verifBound("maxPermitted"))))
	nowFunc = vNow
	const second = 1000000000

	ref := &vRef{p: p}
	ref.episode = uint32(verifInt("pre.episode", 1, 1<<32-8))
	cb := &CircuitBreaker{policy: p, stateID: ref.episode}

	inHalfOpen := verifBool("pre.halfOpen")
	// Whole seconds are enumerated (window start fixed, every gap 0..2W+2 explored
	// as a concrete value): the solver cannot decide the repeated division by 10^9
	// over symbolic seconds within minutes. Nanoseconds within the second, the
	// per-second counts, the policy and the call result stay symbolic.
	b := int64(7)
	nowSec := b + int64(verifChoose("now.secondsSinceWindowBegin", 2*W+3))
	nowNs := verifInt("now.nanos", 0, second-1)
	vSec, vNsec = nowSec, nowNs
	vMono = nowSec*second + nowNs
	var results []CallResult
	if inHalfOpen {
		ref.state = rHalfOpen
		cb.state = StateHalfOpen
		k := verifChoose("pre.trialsAdmitted", P+1)
		m := verifChoose("pre.trialsRecorded", k+1)
		minCalls := p.MinimumNumberOfCalls
		if minCalls > uint32(P) {
			minCalls = uint32(P)
		}
		verifAssume(m == 0 || uint32(m) < minCalls)
		verifAssume(m < k) // a trial result is outstanding
		for i := 0; i < m; i++ {
			results = append(results, vResultOf(verifInt("pre.result", 0, 2)))
		}
		cb.window = vRing("pre", P, results)
		cb.numberOfCallsInHalfOpen = uint32(k)
		ref.admitted = uint32(k)
		for _, r := range results {
			ref.win = append(ref.win, vCall{0, r})
		}
	} else {
		ref.state = rClosed
		cb.state = StateClosed
		w := &TimeBasedWindow{bucket: make([]timeBasedWindowBucket, W)}
		verifSetField(&w.beginAt, "wall", uint64(vHasMonotonic|(4000000000<<30)))
		verifSetField(&w.beginAt, "ext", b*second)
		w.firstBucket = verifChoose("pre.firstBucket", W)
		maxPer := int64(verifBound("maxCallsPerSecond"))
		last := int64(-1)
		for j := 0; j < W; j++ {
			t := verifInt("pre.bucketTotal", 0, maxPer)
			f := verifInt("pre.bucketFailures", 0, maxPer)
			s := verifInt("pre.bucketSlow", 0, maxPer)
			verifAssume(f+s <= t)
			bk := &w.bucket[(w.firstBucket+j)%W]
			bk.total, bk.failure, bk.slow = uint32(t), uint32(f), uint32(s)
			w.total += uint32(t)
			w.failure += uint32(f)
			w.slow += uint32(s)
			tc := int(verifConcrete(t, maxPer))
			fc := int(verifConcrete(f, maxPer))
			sc := int(verifConcrete(s, maxPer))
			for c := 0; c < tc; c++ {
				r := CallResultSuccess
				if c < fc {
					r = CallResultFailure
				} else if c < fc+sc {
					r = CallResultSlow
				}
				ref.win = append(ref.win, vCall{b + int64(j), r})
			}
			if tc > 0 {
				last = int64(j)
			}
		}
		cb.window = w
		// the clock never runs backwards: now is not before the window start nor before any recorded call
		verifAssume(nowSec >= b && nowSec >= b+last)
	}

	tag := ref.episode
	if verifBool("staleTag") {
		tag = uint32(verifInt("otherEpisode", 0, 1<<32-1))
		verifAssume(tag != ref.episode)
	}
	hasErr := verifBool("hasErr")
	d := time.Duration(verifInt("duration", 0, 1<<41))
	preState := ref.state
	cb.RecordResult(tag, hasErr, d)
	ref.record(tag, hasErr, d)

	verifAssert(vImplState(cb) == ref.state, "state")
	verifAssert(cb.stateID == ref.episode, "episode")
	if preState == rClosed && ref.state == rOpen {
		verifCover("opened")
	}
	if ref.state != rClosed {
		return
	}
	w := cb.window.(*TimeBasedWindow)
	verifAssert(len(w.bucket) == W, "window-capacity")
	expBegin := b
	if preState == rHalfOpen {
		expBegin = nowSec // fresh window, begins at the current whole second
		verifCover("closed-by-recovery")
	} else if tag == ref.episode && nowSec-b >= int64(W) {
		expBegin = nowSec - int64(W) + 1
		verifCover("evicted-by-time")
		if nowSec-b >= 2*int64(W) {
			verifCover("idle-gap-longer-than-two-windows")
		}
	}
	verifAssert(vExt(w.beginAt) == expBegin*second, "window-begins-at-expected-second")
	var sumT, sumS, sumF uint32
	for j := 0; j < W; j++ {
		bk := w.bucket[(w.firstBucket+j)%W]
		var t, s, f uint32
		for _, c := range ref.win {
			if c.sec == expBegin+int64(j) {
				t++
				if c.res == CallResultFailure {
					f++
				} else if c.res == CallResultSlow {
					s++
				}
			}
		}
		verifAssert(bk.total == t && bk.slow == s && bk.failure == f, "per-second-counts")
		sumT, sumS, sumF = sumT+t, sumS+s, sumF+f
	}
	verifAssert(w.total == sumT && w.slow == sumS && w.failure == sumF, "window-totals")
	verifAssert(int(sumT) == len(ref.win), "no-call-outside-the-window")
}

// ---------------------------------------------------------------------------
// Concurrent callers: the breaker is OPEN with the wait elapsed; several threads
// acquire and then record. Every schedule within the preemption bound: at most
// `permitted` calls are admitted in the half-open episode, the final state is
// what the recorded trial results imply, and the breaker's fields are race free.
// ---------------------------------------------------------------------------
func verifC08_Conc() {
	permitted := uint32(verifChoose("permittedInHalfOpen", 2) + 1)
	p := &Policy{FailureRateThreshold: 50, SlowCallRateThreshold: 100, SlidingWindowType: CountBased, SlidingWindowSize: 2,
		PermittedNumberOfCallsInHalfOpen: permitted, MinimumNumberOfCalls: permitted, SlowCallDurationThreshold: time.Minute,
		WaitDurationInOpen: time.Second}
	vWallOnly = false
	vMono = 0
	nowFunc = vNow
	cb := New(p)
	verifRaceScopeDeep(cb, "CircuitBreaker")
	// open it: two failures
	_, id := cb.AcquirePermission()
	cb.RecordResult(id, true, 0)
	cb.RecordResult(id, true, 0)
	verifAssert(cb.State() == StateOpen, "opened")
	vMono = int64(2 * time.Second) // the wait has elapsed

	hoID := cb.stateID + 1 // admissions of the half-open episode carry this tag
	threads := verifBound("threads")
	var admitted, failures, later, laterFails int
	var mu sync.Mutex
	var wg sync.WaitGroup
	for t := 0; t < threads; t++ {
		wg.Add(1)
		go func() {
			defer wg.Done()
			ok, tag := cb.AcquirePermission()
			if !ok {
				return
			}
			fail := verifBool("trialFails")
			mu.Lock()
			if tag == hoID {
				admitted++
				if fail {
					failures++
				}
			} else {
				// admitted after the trials closed the breaker again: an ordinary call
				later++
				if fail {
					laterFails++
				}
			}
			mu.Unlock()
			cb.RecordResult(tag, fail, 0)
		}()
	}
	wg.Wait()
	verifAssert(uint32(admitted) <= permitted, "at-most-permitted-trials-admitted")
	verifAssert(later == 0 || (uint32(admitted) == permitted && uint32(failures)*100 < uint32(p.FailureRateThreshold)*permitted),
		"calls-pass-after-half-open-only-when-the-trials-closed-the-breaker")
	if uint32(admitted) == permitted {
		// all trials recorded: the episode is decided by the failure rate of the trials
		// (results completing after the decision belong to an earlier state and are ignored)
		st := cb.State()
		verifAssert(st == StateOpen || st == StateClosed, "half-open-episode-decided")
		if failures == 0 && laterFails == 0 {
			verifAssert(st == StateClosed, "all-trials-succeeded-closes")
			verifCover("closed-by-recovery")
		}
		if uint32(failures) == permitted {
			verifAssert(st == StateOpen && later == 0, "all-trials-failed-reopens")
			verifCover("reopened")
		}
	} else {
		verifAssert(cb.State() == StateHalfOpen, "undecided-episode-stays-half-open")
	}
	if uint32(threads) > permitted && uint32(admitted) == permitted {
		verifCover("surplus-call-short-circuited")
	}
}
