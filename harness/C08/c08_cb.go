package circuitbreaker

import (
	"sync"
	"time"
)

// ---------------------------------------------------------------------------
// C08 harnesses, package circuitbreaker (overlay only; never written to /repo).
// The reference automaton below is written from the property statement, not
// from the implementation.
// ---------------------------------------------------------------------------

// Harness clock. Two flavours of time.Time occur in practice:
//   - monotonic (what time.Now() returns in production): Sub is one 64-bit
//     subtraction of the monotonic readings. vMono carries the reading; the
//     wall-clock part of the value is a constant (it is not consulted by Sub
//     when both operands carry a monotonic reading).
//   - wall-only (what Truncate and the repository's test mocks produce): built
//     with time.Unix(vSec, vNsec); Sub goes through seconds/nanoseconds.
var (
	vWallOnly   bool
	vMono       int64 // monotonic flavour: nanoseconds
	vSec, vNsec int64 // wall-only flavour (vSec is also the whole second of "now" for the reference)
)

const vHasMonotonic = 1 << 63

func vNow() time.Time {
	if vWallOnly {
		return time.Unix(vSec, vNsec)
	}
	var t time.Time
	verifSetField(&t, "wall", uint64(vHasMonotonic|(4000000000<<30)))
	verifSetField(&t, "ext", vMono)
	return t
}

const (
	rClosed   = 1
	rHalfOpen = 2
	rOpen     = 3
)

type vCall struct {
	sec int64 // whole second at which the result was recorded
	res CallResult
}

type vRef struct {
	p        *Policy
	state    int
	episode  uint32
	win      []vCall // window content, oldest first
	tSec     int64   // time of last transition
	tNsec    int64
	tMono    int64
	admitted uint32
}

func (r *vRef) elapsed() int64 {
	if !vWallOnly {
		return vMono - r.tMono
	}
	return (vSec-r.tSec)*1000000000 + (vNsec - r.tNsec)
}

func (r *vRef) transit(to int) {
	r.state = to
	r.episode++
	r.tSec, r.tNsec, r.tMono = vSec, vNsec, vMono
	if to == rClosed || to == rHalfOpen {
		r.win = nil
		r.admitted = 0
	}
}

func (r *vRef) acquire() (bool, uint32) {
	switch r.state {
	case rClosed:
		return true, r.episode
	case rOpen:
		if r.elapsed() < int64(r.p.WaitDurationInOpen) {
			return false, r.episode
		}
		r.transit(rHalfOpen)
	}
	// half open
	if r.admitted < r.p.PermittedNumberOfCallsInHalfOpen {
		r.admitted++
		return true, r.episode
	}
	if r.p.MaxWaitDurationInHalfOpen > 0 && r.elapsed() > int64(r.p.MaxWaitDurationInHalfOpen) {
		r.transit(rOpen)
	}
	return false, r.episode
}

func (r *vRef) record(tag uint32, hasErr bool, d time.Duration) {
	if tag != r.episode {
		return // result of a call admitted in an earlier state
	}
	res := CallResultSuccess
	if hasErr {
		res = CallResultFailure
	} else if d >= r.p.SlowCallDurationThreshold {
		res = CallResultSlow
	}
	// window: last N calls (count based, and always in half-open), or calls of the last N seconds
	capacity := int(r.p.SlidingWindowSize)
	timeBased := r.p.SlidingWindowType == TimeBased && r.state == rClosed
	if r.state == rHalfOpen {
		capacity = int(r.p.PermittedNumberOfCallsInHalfOpen)
	}
	if timeBased {
		var keep []vCall
		for _, c := range r.win {
			if c.sec > vSec-int64(capacity) {
				keep = append(keep, c)
			}
		}
		r.win = append(keep, vCall{vSec, res})
	} else {
		if len(r.win) >= capacity {
			r.win = r.win[1:]
		}
		r.win = append(r.win, vCall{vSec, res})
	}
	minCalls := r.p.MinimumNumberOfCalls
	if r.state == rHalfOpen && minCalls > r.p.PermittedNumberOfCallsInHalfOpen {
		minCalls = r.p.PermittedNumberOfCallsInHalfOpen
	}
	total := uint32(len(r.win))
	if total < minCalls {
		return
	}
	var fails, slows uint32
	for _, c := range r.win {
		if c.res == CallResultFailure {
			fails++
		} else if c.res == CallResultSlow {
			slows++
		}
	}
	switch {
	case fails*100 >= uint32(r.p.FailureRateThreshold)*total:
		verifCover("opened-by-failure-rate")
		r.transit(rOpen)
	case slows*100 >= uint32(r.p.SlowCallRateThreshold)*total:
		verifCover("opened-by-slow-rate")
		r.transit(rOpen)
	case r.state == rHalfOpen:
		verifCover("closed-by-recovery")
		r.transit(rClosed)
	}
}

func vImplState(cb *CircuitBreaker) int {
	switch cb.State() {
	case StateClosed:
		return rClosed
	case StateHalfOpen:
		return rHalfOpen
	case StateOpen:
		return rOpen
	}
	return 0
}

func vPolicy(windowType uint8) *Policy {
	maxW := int64(verifBound("maxWindow"))
	maxP := int64(verifBound("maxPermitted"))
	p := &Policy{
		FailureRateThreshold:             uint8(verifInt("failureRateThreshold", 1, 100)),
		SlowCallRateThreshold:            uint8(verifInt("slowCallRateThreshold", 1, 100)),
		SlidingWindowType:                windowType,
		SlidingWindowSize:                uint32(verifInt("slidingWindowSize", 1, maxW)),
		PermittedNumberOfCallsInHalfOpen: uint32(verifInt("permittedInHalfOpen", 0, maxP)),
		MinimumNumberOfCalls:             uint32(verifInt("minimumNumberOfCalls", 0, maxW+1)),
		SlowCallDurationThreshold:        time.Duration(verifInt("slowCallDurationThreshold", 0, 1<<40)),
		MaxWaitDurationInHalfOpen:        time.Duration(verifInt("maxWaitInHalfOpen", 0, 1<<40)),
		WaitDurationInOpen:               time.Duration(verifInt("waitInOpen", 0, 1<<40)),
	}
	return p
}

func vAdvance() {
	if vScript != nil {
		// scripted scenario: whole seconds, concrete (0, 1 or 3 s), so that the real
		// time.Time arithmetic of the time-based window runs on concrete values
		vAdvances++
		switch vAdvances {
		case 1: // between the failures and the next call: waitDurationInOpenState is symbolic
			vSec += 3
		case 2: // trials pending
			vSec += int64(verifChoose("clock.gapSeconds.pending", 2))
		default: // between the trials' completions
			vSec += 3 * int64(verifChoose("clock.gapSeconds.betweenResults", 2))
		}
		return
	}
	if !vWallOnly {
		n := verifInt("clock.mono", 0, 1<<42)
		verifAssume(n >= vMono)
		vMono = n
		return
	}
	ns := verifInt("clock.sec", 0, 1<<12)
	nn := verifInt("clock.nsec", 0, 999999999)
	verifAssume(ns > vSec || (ns == vSec && nn >= vNsec))
	vSec, vNsec = ns, nn
}

// verifC08_Hist: N operations from New(policy); implementation and reference in lock-step.
func vHist(windowType uint8) {
	p := vPolicy(windowType)
	// window sizes are concretised (slice lengths)
	vWallOnly = verifBound("wallOnlyClock") == 1
	if vScript != nil {
		vWallOnly = true
		vSec, vNsec, vAdvances = 1000, 500000000, 0
	} else if vWallOnly {
		vSec, vNsec = verifInt("clock0.sec", 0, 1<<12), verifInt("clock0.nsec", 0, 999999999)
	} else {
		vMono = verifInt("clock0.mono", 0, 1<<42)
	}
	nowFunc = vNow
	cb := New(p)
	ref := &vRef{p: p}
	ref.transit(rClosed)
	verifAssert(vImplState(cb) == rClosed, "initial-state")

	var tags [8]uint32
	ntags := 0
	steps := verifBound("steps")
	if vScript != nil {
		steps = len(vScript)
	}
	for i := 0; i < steps; i++ {
		op := 0
		if vScript != nil {
			op = vScript[i]
		} else {
			op = verifChoose("op", 3)
		}
		switch op {
		case 0: // a call asks for admission
			ok, tag := cb.AcquirePermission()
			rok, rtag := ref.acquire()
			verifAssert(ok == rok, "admission")
			if ok {
				verifAssert(tag == rtag, "admission-tag")
				if ref.state == rHalfOpen {
					verifCover("half-open-trial-admitted")
				}
				tags[ntags] = tag
				ntags++
			} else if ref.state == rHalfOpen {
				verifCover("half-open-call-rejected")
			} else {
				verifCover("open-call-rejected")
			}
		case 1: // an admitted call completes (possibly one admitted in an earlier state)
			if ntags == 0 {
				verifAssume(false)
			}
			k := 0 // scripted scenario: which of the pending calls completes is fixed
			if vScript == nil {
				k = verifChoose("which", ntags)
			}
			tag := tags[k]
			// each admitted call completes once
			tags[k] = tags[ntags-1]
			ntags--
			hasErr := verifBool("hasErr")
			d := time.Duration(verifInt("duration", 0, 1<<41))
			if tag != ref.episode {
				verifCover("stale-result")
			}
			cb.RecordResult(tag, hasErr, d)
			ref.record(tag, hasErr, d)
		case 2:
			vAdvance()
		}
		verifAssert(vImplState(cb) == ref.state, "state")
	}
}

func verifC08_HistCount() { vHist(CountBased) }
func verifC08_HistTime()  { vHist(TimeBased) }

// vScript, when set, fixes the sequence of operations of vHist (0 admission, 1 completion,
// 2 clock advance); everything else (policy, which call completes, outcome, duration, how far
// the clock moves) stays symbolic.
var vScript []int
var vAdvances int

// verifC08_HalfOpenTime: a TIME_BASED breaker through a whole half-open episode whose trials
// complete at different instants (arbitrarily far apart): two calls are admitted and complete
// (two failures open a breaker that needs two calls), the clock moves, two calls ask for
// admission (the first one moves the breaker to half-open), the clock moves and a further call
// asks while the trials are pending (surplus: rejected, and it reopens the breaker only when
// maxWaitDurationInHalfOpenState is SET and has elapsed), and the trials complete with the clock
// moving in between; then one more call asks. Implementation and reference automaton in
// lock-step: the trials' results close or reopen the breaker however far apart they are
// recorded (the half-open window is count based whatever the policy's type).
func verifC08_HalfOpenTime() {
	vScript = []int{0, 0, 1, 1, 2, 0, 0, 2, 0, 1, 2, 1, 0}
	vHist(TimeBased)
	vScript = nil
}
func verifC08_Conc() {
	permitted := uint32(verifChoose("permittedInHalfOpen", 2) + 1)
	p := &Policy{FailureRateThreshold: 50, SlowCallRateThreshold: 100, SlidingWindowType: CountBased, SlidingWindowSize: 2,
		PermittedNumberOfCallsInHalfOpen: permitted, MinimumNumberOfCalls: permitted, SlowCallDurationThreshold: time.Minute,
		WaitDurationInOpen: time.Second}
	vWallOnly = false
	vMono = 0
	nowFunc = vNow
	cb := New(p)
	verifRaceScopeDeep(cb, "CircuitBreaker")
	// open it: two failures
	_, id := cb.AcquirePermission()
	cb.RecordResult(id, true, 0)
	cb.RecordResult(id, true, 0)
	verifAssert(cb.State() == StateOpen, "opened")
	refused, openTag := cb.AcquirePermission() // still open: refused, and the tag names the open episode
	verifAssert(!refused, "open-breaker-refuses")
	vMono = int64(2 * time.Second) // the wait has elapsed

	hoID := openTag + 1 // admissions of the half-open episode carry the next tag
	threads := verifBound("threads")
	var admitted, failures, later, laterFails int
	var mu sync.Mutex
	var wg sync.WaitGroup
	for t := 0; t < threads; t++ {
		wg.Add(1)
		go func() {
			defer wg.Done()
			ok, tag := cb.AcquirePermission()
			if !ok {
				return
			}
			fail := verifBool("trialFails")
			mu.Lock()
			if tag == hoID {
				admitted++
				if fail {
					failures++
				}
			} else {
				// admitted after the trials closed the breaker again: an ordinary call
				later++
				if fail {
					laterFails++
				}
			}
			mu.Unlock()
			cb.RecordResult(tag, fail, 0)
		}()
	}
	wg.Wait()
	verifAssert(uint32(admitted) <= permitted, "at-most-permitted-trials-admitted")
	verifAssert(later == 0 || (uint32(admitted) == permitted && uint32(failures)*100 < uint32(p.FailureRateThreshold)*permitted),
		"calls-pass-after-half-open-only-when-the-trials-closed-the-breaker")
	if uint32(admitted) == permitted {
		// all trials recorded: the episode is decided by the failure rate of the trials
		// (results completing after the decision belong to an earlier state and are ignored)
		st := cb.State()
		verifAssert(st == StateOpen || st == StateClosed, "half-open-episode-decided")
		if failures == 0 && laterFails == 0 {
			verifAssert(st == StateClosed, "all-trials-succeeded-closes")
			verifCover("closed-by-recovery")
		}
		if uint32(failures) == permitted {
			verifAssert(st == StateOpen && later == 0, "all-trials-failed-reopens")
			verifCover("reopened")
		}
	} else {
		verifAssert(cb.State() == StateHalfOpen, "undecided-episode-stays-half-open")
	}
	if uint32(threads) > permitted && uint32(admitted) == permitted {
		verifCover("surplus-call-short-circuited")
	}
}

// verifC08_ConcStale: two trials are admitted in the half-open episode and their results are
// recorded concurrently, with minimumNumberOfCalls = 1: the first recorded result decides the
// episode, the other one belongs to an earlier state and is ignored. Race detector on the
// breaker (the stale-result check reads the state id that the deciding recorder changes).
func verifC08_ConcStale() {
	p := &Policy{FailureRateThreshold: 50, SlowCallRateThreshold: 100, SlidingWindowType: CountBased, SlidingWindowSize: 2,
		PermittedNumberOfCallsInHalfOpen: 2, MinimumNumberOfCalls: 1, SlowCallDurationThreshold: time.Minute,
		WaitDurationInOpen: time.Second}
	vWallOnly = false
	vMono = 0
	nowFunc = vNow
	cb := New(p)
	verifRaceScopeDeep(cb, "CircuitBreaker")
	_, id := cb.AcquirePermission()
	cb.RecordResult(id, true, 0)
	verifAssert(cb.State() == StateOpen, "opened")
	vMono = int64(2 * time.Second)
	ok1, t1 := cb.AcquirePermission()
	ok2, t2 := cb.AcquirePermission()
	verifAssert(ok1 && ok2 && t1 == t2, "two-trials-admitted")
	f1, f2 := verifBool("trial1Fails"), verifBool("trial2Fails")
	var wg sync.WaitGroup
	wg.Add(2)
	go func() { defer wg.Done(); cb.RecordResult(t1, f1, 0) }()
	go func() { defer wg.Done(); cb.RecordResult(t2, f2, 0) }()
	wg.Wait()
	st := cb.State()
	verifAssert(st == StateOpen || st == StateClosed, "half-open-episode-decided")
	if !f1 && !f2 {
		verifAssert(st == StateClosed, "all-trials-succeeded-closes")
	}
	if f1 && f2 {
		verifAssert(st == StateOpen, "all-trials-failed-reopens")
	}
	if f1 != f2 {
		verifCover("mixed-results-recorded-concurrently")
	}
}
