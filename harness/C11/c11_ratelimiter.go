package ratelimiter

import (
	"net/http"
	"net/url"

	"github.com/megaease/easegress/pkg/protocols/httpprot"
)

// C11 (filter generations), package filters/ratelimiter: a request that already
// holds the OLD generation still completes without panic after the new
// generation has inherited from it (and after the old one was closed).
func verifC11_RateLimiterOldGeneration() {
	vMono = 1000
	old := &RateLimiter{spec: vSpec(1)}
	old.Init()
	changed := verifBool("policyChanged")
	nl := 1
	if changed {
		nl = 2
	}
	ns := vSpec(nl)
	verifAssume(ns.URLs[0].URL.Exact == old.spec.URLs[0].URL.Exact && ns.URLs[1].URL.Prefix == old.spec.URLs[1].URL.Prefix)
	nw := &RateLimiter{spec: ns}
	nw.Inherit(old)
	if verifBool("oldGenerationClosed") {
		old.Close()
	}
	req := &httpprot.Request{Request: &http.Request{Method: []string{"GET", "POST"}[verifChoose("method", 2)],
		URL: &url.URL{Path: verifString("path", 3)}, Header: http.Header{}}}
	// the request entered the pipeline before the update: it runs on the old generation
	res, _ := vHandle(old, req) // a panic here is reported as a violation
	verifAssert(res == "" || res == resultRateLimited, "old-generation-result-is-a-declared-result")
	res2, _ := vHandle(nw, req)
	verifAssert(res2 == "" || res2 == resultRateLimited, "new-generation-result-is-a-declared-result")
	if !changed {
		verifCover("unchanged-rule-inherited")
	}
}
