package httpserver

import (
	stdcontext "context"
	"errors"
	"time"
	"github.com/megaease/easegress/pkg/util/ipfilter"
	"github.com/megaease/easegress/pkg/util/limitlistener"
	"github.com/megaease/easegress/pkg/util/sem"
	"net"
	"net/http"
	"net/url"
	"sync"

	"github.com/megaease/easegress/pkg/context"
	"github.com/megaease/easegress/pkg/supervisor"
	"github.com/megaease/easegress/pkg/tracing"
)

// C11 (mux generations), package httpserver: one request concurrently with one
// reload: the request is handled entirely under the old or entirely under the
// new generation (backend, rewrite target, body limit, X-Forwarded-For), and a
// request that starts after reload returned sees the new generation.

type vGenMapper struct{ old, nw *vBackend }

func (m *vGenMapper) GetHandler(name string) (context.Handler, bool) {
	switch name {
	case "old":
		return m.old, true
	case "new":
		return m.nw, true
	}
	return nil, false
}

func vSuper(spec *Spec) *supervisor.Spec {
	s := &supervisor.Spec{}
	verifSetField(s, "objectSpec", spec)
	verifSetField(s, "meta", &supervisor.MetaSpec{Name: "server"})
	return s
}

func verifC11_MuxReload() {
	// the two generations differ in backend, rewrite target, X-Forwarded-For and body limit
	cacheSize := uint32(verifChoose("cacheSize", 2) * 5) // the same in both generations: 0 or 5
	oldSpec := &Spec{CacheSize: cacheSize, ClientMaxBodySize: 2, XForwardedFor: false, Rules: []*Rule{{Paths: []*Path{{PathPrefix: "/", RewriteTarget: "/old/", Backend: "old"}}}}}
	newSpec := &Spec{CacheSize: cacheSize, ClientMaxBodySize: -1, XForwardedFor: true, Rules: []*Rule{{Paths: []*Path{{PathPrefix: "/", RewriteTarget: "/new/", Backend: "new"}}}}}
	mapper := &vGenMapper{old: &vBackend{status: 200}, nw: &vBackend{status: 201}}
	m := &mux{}
	m.inst.Store(&muxInstance{spec: &Spec{}})
	m.reload(vSuper(oldSpec), mapper)
	verifRaceScopeDeep(m, "mux")

	bodyLen := verifChoose("bodyLength", 4)
	mk := func() (*vWriter, *http.Request) {
		std := &http.Request{Method: "POST", Host: "h", URL: &url.URL{Path: "/x"}, Header: http.Header{},
			Body: &vReqBody{data: make([]byte, bodyLen)}, ContentLength: int64(bodyLen), RemoteAddr: "9.9.9.9:1"}
		return &vWriter{hdr: http.Header{}}, std
	}
	if verifBool("earlierRequestUnderTheOldGeneration") {
		// an earlier request for the same host/method/path (it may populate the route cache)
		w0, r0 := mk()
		r0.Body, r0.ContentLength = &vReqBody{}, 0
		m.ServeHTTP(w0, r0)
		verifAssert(mapper.old.calls == 1 && w0.status == 200, "earlier-request-served-by-the-old-generation")
		mapper.old.calls = 0
		verifCover("cache-possibly-warm")
	}
	var wg sync.WaitGroup
	wg.Add(1)
	go func() {
		defer wg.Done()
		m.reload(vSuper(newSpec), mapper)
	}()
	w, r := mk()
	m.ServeHTTP(w, r)
	wg.Wait()

	oldGen := mapper.old.calls == 1 || (w.status == 413 && mapper.old.calls == 0 && mapper.nw.calls == 0)
	newGen := mapper.nw.calls == 1
	verifAssert(oldGen != newGen, "request-handled-by-exactly-one-generation")
	if mapper.old.calls == 1 {
		verifAssert(mapper.old.seenPath == "/old/x" && mapper.old.xff == "" && bodyLen <= 2 && w.status == 200, "old-generation-consistent")
		verifCover("served-by-old")
	}
	if mapper.nw.calls == 1 {
		verifAssert(mapper.nw.seenPath == "/new/x" && mapper.nw.xff == "9.9.9.9" && w.status == 201, "new-generation-consistent")
		verifCover("served-by-new")
	}
	if w.status == 413 {
		verifAssert(bodyLen > 2, "413-only-under-the-old-limit")
	}
	// once the update has been applied every new request sees the new generation
	mapper.nw.calls = 0
	w2, r2 := mk()
	m.ServeHTTP(w2, r2)
	verifAssert(mapper.nw.calls == 1 && w2.status == 201 && mapper.nw.seenPath == "/new/x", "requests-after-the-update-see-the-new-generation")
}

// ---- the server runtime: listener options and rules belong to one generation ---------------

var (
	vStartedWith *Spec
	vStarts      int
	vCloses      int
)

// startServer / closeServer open and close real listeners; they are replaced by recorders of
// WHICH spec the listener is built from (startServer reads r.spec).
func vStartServer(r *runtime) { vStartedWith = r.spec; vStarts++ }
func vCloseServer(r *runtime) { vCloses++ }

// net/http contract: (*Server).SetKeepAlivesEnabled(false) closes every idle keep-alive
// connection of the server (established connections of clients between two requests).
var vKeepAlivesSwitchedOff int

func vSetKeepAlives(s *http.Server, v bool) {
	if !v {
		vKeepAlivesSwitchedOff++
	}
}

// net/http contract: Shutdown stops accepting and waits for the requests in flight until its
// context ends; when it gives up (error) the connections in flight are LEFT RUNNING. Close
// closes every connection at once, whatever it is doing.
var (
	vShutdowns    int
	vSrvCloses    int
	vStillRunning bool // requests of the old generation outlive Shutdown's patience
)

func vShutdown(s *http.Server, ctx stdcontext.Context) error {
	vShutdowns++
	if vStillRunning {
		return stdcontext.DeadlineExceeded
	}
	return nil
}
func vSrvClose(s *http.Server) error { vSrvCloses++; return nil }
func vCtxWithTimeout(ctx stdcontext.Context, d time.Duration) (stdcontext.Context, stdcontext.CancelFunc) {
	return ctx, func() {}
}

// verifC11_CloseServerGraceful: the old generation's HTTP/1-2 listener is shut down gracefully -
// whether or not its requests in flight finish within Shutdown's patience, no connection is
// closed under a request ("a request that already holds the old generation completes").
func verifC11_CloseServerGraceful() {
	vShutdowns, vSrvCloses = 0, 0
	vStillRunning = verifBool("requests-in-flight-outlive-the-shutdown-patience")
	r := &runtime{server: &http.Server{}, superSpec: vSuper(&Spec{Port: 8080})}
	r.closeServer()
	verifAssert(vShutdowns == 1, "old-listener-is-shut-down-gracefully")
	verifAssert(vSrvCloses == 0, "no-connection-is-closed-under-a-request-in-flight")
	if vStillRunning {
		verifCover("slow-request-in-flight")
	}
}

// verifC11_RuntimeReload: after an update has been applied the server runs on ONE generation:
// the rules (mux) and the listener options (port, TLS, keep-alive) both come from the new
// spec; the listener is restarted exactly when a listener option changed.
func verifC11_RuntimeReload() {
	mapper := &vGenMapper{old: &vBackend{status: 200}, nw: &vBackend{status: 201}}
	m := &mux{}
	m.inst.Store(&muxInstance{spec: &Spec{}})
	oldSpec := &Spec{Port: 8080, KeepAlive: true, MaxConnections: 10, Rules: []*Rule{{Paths: []*Path{{PathPrefix: "/", Backend: "old"}}}}}
	r := &runtime{mux: m}
	vStartedWith, vStarts, vCloses = nil, 0, 0
	r.reload(vSuper(oldSpec), mapper)
	verifAssert(vStarts == 1 && vStartedWith == oldSpec && vCloses == 0, "first-load-starts-the-server-with-its-spec")
	// the listener the (replaced) startServer would have made: the REAL limit listener
	r.limitListener = limitlistener.NewLimitListener(&vNoListener{}, oldSpec.MaxConnections)

	newSpec := &Spec{Port: 8080, KeepAlive: true, MaxConnections: 10, XForwardedFor: true, CacheSize: 7,
		Rules: []*Rule{{Paths: []*Path{{PathPrefix: "/", Backend: "new"}}}}}
	restart := false
	wantMax := uint32(10)
	switch verifChoose("changedOption", 6) {
	case 0: // rules only
	case 1:
		newSpec.Port = 9090
		restart = true
	case 2:
		newSpec.KeepAlive = false
		restart = true
	case 3:
		newSpec.HTTP3 = true
		restart = true
	case 4:
		newSpec.MaxConnections = 20 // applied to the running listener, no restart
		wantMax = 20
	case 5:
		newSpec.MaxConnections = 5 // lowered at run time
		wantMax = 5
	}
	// the server the (replaced) startServer would have made
	r.server = &http.Server{}
	vKeepAlivesSwitchedOff = 0
	r.reload(vSuper(newSpec), mapper)
	verifAssert(r.spec == newSpec, "runtime-holds-the-new-spec")
	if restart {
		verifAssert(vCloses == 1 && vStarts == 2, "listener-option-change-restarts-the-server-once")
		verifAssert(vStartedWith == newSpec, "restarted-listener-is-built-from-the-new-generation")
		verifCover("restarted")
	} else {
		verifAssert(vCloses == 0 && vStarts == 1, "rule-only-change-does-not-restart")
		verifCover("not-restarted")
	}
	// and the rules are the new generation's
	w := &vWriter{hdr: http.Header{}}
	std := &http.Request{Method: "GET", Host: "h", URL: &url.URL{Path: "/x"}, Header: http.Header{}, Body: &vReqBody{}, RemoteAddr: "9.9.9.9:1"}
	m.ServeHTTP(w, std)
	verifAssert(mapper.nw.calls == 1 && mapper.old.calls == 0, "rules-are-the-new-generations")
	// ... and so are the options that need no restart: the request is served with the new
	// generation's xForwardedFor, and the spec the runtime keeps (the next update is compared
	// with it, the listener is rebuilt from it) still says what was applied
	verifAssert(mapper.nw.xff == "9.9.9.9", "options-are-the-new-generations")
	verifAssert(r.spec.XForwardedFor && r.spec.CacheSize == 7 && len(r.spec.Rules) == 1 && r.spec.MaxConnections == wantMax,
		"applied-spec-is-kept-as-it-was-applied")
	// a changed maxConnections reaches the running listener when the server is not restarted
	if !restart {
		verifQuiesce()
		sm := verifGetField(r.limitListener, "sem").(*sem.Semaphore)
		verifAssert(verifGetField(sm, "realCapacity").(int64) == int64(wantMax), "running-listener-gets-the-new-maxConnections")
		if wantMax == 20 {
			verifCover("maxConnections-changed-at-run-time")
		}
		// ... and no established connection is dropped on the way (idle keep-alive
		// connections are established connections)
		verifAssert(vKeepAlivesSwitchedOff == 0, "run-time-change-closes-no-established-connection")
		if wantMax == 5 {
			verifCover("maxConnections-lowered-at-run-time")
		}
	}
}

// ---- the tracer of a generation ------------------------------------------------------------

var (
	vTracersMade  int
	vTracerCloses int
	vClosedTracer *tracing.Tracer
)

func vTracingNew(spec *tracing.Spec) (*tracing.Tracer, error) {
	if spec == nil {
		return tracing.NoopTracer, nil
	}
	vTracersMade++
	return &tracing.Tracer{}, nil
}

func vTracerClose(t *tracing.Tracer) error {
	vTracerCloses++
	vClosedTracer = t
	return nil
}

// verifC11_MuxTracing: an update that leaves the tracing configuration as it is (the new spec
// is parsed afresh: equal content, another pointer) keeps the tracer - requests of the old
// generation that are still in flight finish their spans on a live tracer; only a change of
// the tracing configuration creates a new tracer.
func verifC11_MuxTracing() {
	mapper := &vGenMapper{old: &vBackend{status: 200}, nw: &vBackend{status: 201}}
	m := &mux{}
	m.inst.Store(&muxInstance{spec: &Spec{}, tracer: tracing.NoopTracer})
	mk := func(service string, backend string) *Spec {
		return &Spec{Tracing: &tracing.Spec{ServiceName: service, Zipkin: &tracing.ZipkinSpec{ServerURL: "http://z", SampleRate: 1}},
			Rules: []*Rule{{Paths: []*Path{{PathPrefix: "/", Backend: backend}}}}}
	}
	vTracersMade, vTracerCloses, vClosedTracer = 0, 0, nil
	m.reload(vSuper(mk("svc", "old")), mapper)
	verifAssert(vTracersMade == 1, "tracer-created-for-the-first-generation")
	gen1 := m.inst.Load().(*muxInstance)
	closesBefore := vTracerCloses
	changed := verifBool("tracingConfigurationChanged")
	service := "svc"
	if changed {
		service = "svc2"
	}
	m.reload(vSuper(mk(service, "new")), mapper)
	gen2 := m.inst.Load().(*muxInstance)
	if !changed {
		verifAssert(vTracersMade == 1 && gen2.tracer == gen1.tracer, "unchanged-tracing-keeps-the-tracer")
		verifAssert(vTracerCloses == closesBefore, "tracer-of-in-flight-requests-is-not-closed-by-a-rule-update")
		verifCover("tracer-kept")
	} else {
		verifAssert(vTracersMade == 2 && gen2.tracer != gen1.tracer, "changed-tracing-creates-a-new-tracer")
		verifCover("tracer-replaced")
	}
}

// verifC11_ReloadServerFilter: an update that changes only an OPTION of the server - here the
// server-level IP filter - while the rules stay as they are: every request after the update is
// judged by the new filter, the first one and the following ones alike (route cache on).
func verifC11_ReloadServerFilter() {
	mapper := &vGenMapper{old: &vBackend{status: 200}, nw: &vBackend{status: 200}}
	m := &mux{}
	m.inst.Store(&muxInstance{spec: &Spec{}})
	rules := func() []*Rule { return []*Rule{{Paths: []*Path{{PathPrefix: "/", Backend: "new"}}}} }
	f1, f2 := &ipfilter.Spec{BlockByDefault: true}, &ipfilter.Spec{}
	m.reload(vSuper(&Spec{CacheSize: 8, IPFilter: f1, Rules: rules()}), mapper)
	m.reload(vSuper(&Spec{CacheSize: 8, IPFilter: f2, Rules: rules()}), mapper)
	// the client is refused by the previous generation's filter and admitted by the new one
	verifAssume(!verifUFBool("ipAllow", f1, "9.9.9.9") && verifUFBool("ipAllow", f2, "9.9.9.9"))
	for k := 0; k < 3; k++ {
		w := &vWriter{hdr: http.Header{}}
		std := &http.Request{Method: "GET", Host: "h", URL: &url.URL{Path: "/x"}, Header: http.Header{}, Body: &vReqBody{}, RemoteAddr: "9.9.9.9:1"}
		m.ServeHTTP(w, std)
		verifAssert(w.status == 200 && mapper.nw.calls == k+1, "every-request-after-the-update-is-judged-by-the-new-options")
	}
	if vCacheHits > 0 {
		verifCover("later-requests-served-from-the-route-cache")
	}
}

// verifC11_PipelineUpdateBehindTheServer: the Pipeline an entry names is updated (or deleted)
// in the traffic controller while the HTTPServer itself is not reloaded: the very next request
// is handled by the new generation of the pipeline (503 once it is gone) - also for routes
// that were served before and sit in the route cache.
type vSwitchMapper struct {
	current *vBackend // nil: the pipeline has been deleted
}

func (m *vSwitchMapper) GetHandler(name string) (context.Handler, bool) {
	if name != "p" || m.current == nil {
		return nil, false
	}
	return m.current, true
}

func verifC11_PipelineUpdateBehindTheServer() {
	gen1, gen2 := &vBackend{status: 200}, &vBackend{status: 201}
	mapper := &vSwitchMapper{current: gen1}
	m := &mux{}
	m.inst.Store(&muxInstance{spec: &Spec{}})
	m.reload(vSuper(&Spec{CacheSize: uint32(verifChoose("cacheSize", 2) * 8), Rules: []*Rule{{Paths: []*Path{{PathPrefix: "/", Backend: "p"}}}}}), mapper)
	serve := func() int {
		w := &vWriter{hdr: http.Header{}}
		std := &http.Request{Method: "GET", Host: "h", URL: &url.URL{Path: "/x"}, Header: http.Header{}, Body: &vReqBody{}, RemoteAddr: "9.9.9.9:1"}
		m.ServeHTTP(w, std)
		return w.status
	}
	for k := 0; k < 2; k++ {
		verifAssert(serve() == 200 && gen1.calls == k+1, "served-by-the-current-generation")
	}
	if verifBool("pipelineDeleted") {
		mapper.current = nil
		verifAssert(serve() == 503 && gen1.calls == 2, "deleted-pipeline-is-not-served-any-more")
		verifCover("pipeline-deleted")
		return
	}
	mapper.current = gen2
	verifAssert(serve() == 201 && gen2.calls == 1 && gen1.calls == 2, "new-requests-see-the-new-generation-of-the-pipeline")
	if vCacheHits > 0 {
		verifCover("route-was-cached")
	}
}

type vNoListener struct{}

func (vNoListener) Accept() (net.Conn, error) { return nil, errNoConn }
func (vNoListener) Close() error              { return nil }
func (vNoListener) Addr() net.Addr            { return nil }

var errNoConn = errors.New("no connection")
