package httpserver

import (
	"net/http"
	"net/url"
	"sync"

	"github.com/megaease/easegress/pkg/context"
	"github.com/megaease/easegress/pkg/supervisor"
)

// C11 (mux generations), package httpserver: one request concurrently with one
// reload: the request is handled entirely under the old or entirely under the
// new generation (backend, rewrite target, body limit, X-Forwarded-For), and a
// request that starts after reload returned sees the new generation.

type vGenMapper struct{ old, nw *vBackend }

func (m *vGenMapper) GetHandler(name string) (context.Handler, bool) {
	switch name {
	case "old":
		return m.old, true
	case "new":
		return m.nw, true
	}
	return nil, false
}

func vSuper(spec *Spec) *supervisor.Spec {
	s := &supervisor.Spec{}
	verifSetField(s, "objectSpec", spec)
	verifSetField(s, "meta", &supervisor.MetaSpec{Name: "server"})
	return s
}

func verifC11_MuxReload() {
	// the two generations differ in backend, rewrite target, X-Forwarded-For and body limit
	cacheSize := uint32(verifChoose("cacheSize", 2) * 5) // the same in both generations: 0 or 5
	oldSpec := &Spec{CacheSize: cacheSize, ClientMaxBodySize: 2, XForwardedFor: false, Rules: []*Rule{{Paths: []*Path{{PathPrefix: "/", RewriteTarget: "/old/", Backend: "old"}}}}}
	newSpec := &Spec{CacheSize: cacheSize, ClientMaxBodySize: -1, XForwardedFor: true, Rules: []*Rule{{Paths: []*Path{{PathPrefix: "/", RewriteTarget: "/new/", Backend: "new"}}}}}
	mapper := &vGenMapper{old: &vBackend{status: 200}, nw: &vBackend{status: 201}}
	m := &mux{}
	m.inst.Store(&muxInstance{spec: &Spec{}})
	m.reload(vSuper(oldSpec), mapper)
	verifRaceScope(m, "mux")

	bodyLen := verifChoose("bodyLength", 4)
	mk := func() (*vWriter, *http.Request) {
		std := &http.Request{Method: "POST", Host: "h", URL: &url.URL{Path: "/x"}, Header: http.Header{},
			Body: &vReqBody{data: make([]byte, bodyLen)}, ContentLength: int64(bodyLen), RemoteAddr: "9.9.9.9:1"}
		return &vWriter{hdr: http.Header{}}, std
	}
	if verifBool("earlierRequestUnderTheOldGeneration") {
		// an earlier request for the same host/method/path (it may populate the route cache)
		w0, r0 := mk()
		r0.Body, r0.ContentLength = &vReqBody{}, 0
		m.ServeHTTP(w0, r0)
		verifAssert(mapper.old.calls == 1 && w0.status == 200, "earlier-request-served-by-the-old-generation")
		mapper.old.calls = 0
		verifCover("cache-possibly-warm")
	}
	var wg sync.WaitGroup
	wg.Add(1)
	go func() {
		defer wg.Done()
		m.reload(vSuper(newSpec), mapper)
	}()
	w, r := mk()
	m.ServeHTTP(w, r)
	wg.Wait()

	oldGen := mapper.old.calls == 1 || (w.status == 413 && mapper.old.calls == 0 && mapper.nw.calls == 0)
	newGen := mapper.nw.calls == 1
	verifAssert(oldGen != newGen, "request-handled-by-exactly-one-generation")
	if mapper.old.calls == 1 {
		verifAssert(mapper.old.seenPath == "/old/x" && mapper.old.xff == "" && bodyLen <= 2 && w.status == 200, "old-generation-consistent")
		verifCover("served-by-old")
	}
	if mapper.nw.calls == 1 {
		verifAssert(mapper.nw.seenPath == "/new/x" && mapper.nw.xff == "9.9.9.9" && w.status == 201, "new-generation-consistent")
		verifCover("served-by-new")
	}
	if w.status == 413 {
		verifAssert(bodyLen > 2, "413-only-under-the-old-limit")
	}
	// once the update has been applied every new request sees the new generation
	mapper.nw.calls = 0
	w2, r2 := mk()
	m.ServeHTTP(w2, r2)
	verifAssert(mapper.nw.calls == 1 && w2.status == 201 && mapper.nw.seenPath == "/new/x", "requests-after-the-update-see-the-new-generation")
}
