package proxy

import (
	"crypto/tls"
	"crypto/x509"
	"encoding/base64"
	"net/http"
)

// C11, Proxy filter (package proxy): a Proxy generation that INHERITED from its predecessor
// serves new requests exactly like a Proxy created afresh from the same (new) spec: same
// pools and servers, same compression, and an HTTP client built from the new spec's
// connection settings and mTLS material (none, added, rotated, removed).
//
// Stubs: base64 = identity; tls.X509KeyPair keeps the certificate bytes it was given (so the
// client's certificate can be compared); the CA pool is not compared.
func vX509KeyPair(certPEM, keyPEM []byte) (tls.Certificate, error) {
	return tls.Certificate{Certificate: [][]byte{certPEM, keyPEM}}, nil
}

func vB64IdentityM(e *base64.Encoding, s string) ([]byte, error) { return []byte(s), nil }

func vAppendCerts(p *x509.CertPool, pem []byte) bool { return true }

func vProxySpec(label string) *Spec {
	urls := []string{"http://10.0.0.1:80", "http://10.0.0.2:80"}
	s := &Spec{Pools: []*ServerPoolSpec{{Servers: []*Server{{URL: urls[verifChoose(label+".server", 2)]}}}}}
	s.BaseSpec.MetaSpec.Name, s.BaseSpec.MetaSpec.Kind = "proxy", "Proxy"
	switch verifChoose(label+".mtls", 3) {
	case 1:
		s.MTLS = &MTLS{CertBase64: "c1", KeyBase64: "k1", RootCertBase64: "r"}
	case 2:
		s.MTLS = &MTLS{CertBase64: "c2", KeyBase64: "k2", RootCertBase64: "r"}
	}
	s.MaxIdleConns = 10 + 10*verifChoose(label+".maxIdleConns", 2)
	if verifBool(label + ".compression") {
		s.Compression = &CompressionSpec{MinLength: uint32(1 + verifChoose(label+".minLength", 2))}
	}
	return s
}

type vClientView struct {
	insecure  bool
	nCerts    int
	cert, key string
	maxIdle   int
}

func vViewOf(p *Proxy) vClientView {
	tr := p.client.Transport.(*http.Transport)
	v := vClientView{insecure: tr.TLSClientConfig.InsecureSkipVerify, nCerts: len(tr.TLSClientConfig.Certificates), maxIdle: tr.MaxIdleConns}
	if v.nCerts > 0 {
		v.cert = string(tr.TLSClientConfig.Certificates[0].Certificate[0])
		v.key = string(tr.TLSClientConfig.Certificates[0].Certificate[1])
	}
	return v
}

func verifC11_ProxyInherit() {
	spec1, spec2 := vProxySpec("gen1"), vProxySpec("gen2")
	p1 := &Proxy{spec: spec1}
	p1.Init()
	p2 := &Proxy{spec: spec2}
	p2.Inherit(p1)
	fresh := &Proxy{spec: vProxySpecCopy(spec2)}
	fresh.Init()

	verifAssert(p2.mainPool != nil && len(p2.mainPool.spec.Servers) == 1 && p2.mainPool.spec.Servers[0].URL == spec2.Pools[0].Servers[0].URL,
		"inherited-generation-forwards-to-the-new-servers")
	s := p2.mainPool.LoadBalancer().ChooseServer(nil)
	verifAssert(s != nil && s.URL == spec2.Pools[0].Servers[0].URL, "inherited-generation-forwards-to-the-new-servers")
	verifAssert((p2.compression == nil) == (fresh.compression == nil), "inherited-generation-compresses-as-the-new-spec-says")
	if p2.compression != nil {
		verifAssert(p2.compression.spec.MinLength == spec2.Compression.MinLength, "inherited-generation-compresses-as-the-new-spec-says")
	}
	verifAssert(vViewOf(p2) == vViewOf(fresh), "inherited-generation-connects-as-a-fresh-one-from-the-new-spec")
	if (spec1.MTLS == nil) != (spec2.MTLS == nil) {
		verifCover("mtls-added-or-removed")
	}
	if spec1.MTLS != nil && spec2.MTLS != nil && spec1.MTLS.CertBase64 != spec2.MTLS.CertBase64 {
		verifCover("mtls-rotated")
	}
}

func vProxySpecCopy(s *Spec) *Spec {
	c := *s
	c.Pools = []*ServerPoolSpec{{Servers: []*Server{{URL: s.Pools[0].Servers[0].URL}}}}
	return &c
}
