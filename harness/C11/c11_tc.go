package trafficcontroller

import (
	"sync"

	"github.com/megaease/easegress/pkg/context"
	"github.com/megaease/easegress/pkg/supervisor"
)

// ---------------------------------------------------------------------------
// C11 (traffic controller maps), package trafficcontroller: concurrent lookup of
// a pipeline handler while pipelines are created / updated / deleted / applied.
// ---------------------------------------------------------------------------

type vPipe struct {
	name     string
	gen      int
	inits    int
	inherits int
	closed   int
	prev     supervisor.Object
	// the object's Inherit panics after it has taken over from its predecessor
	panicInherit bool
	panicInit    bool
}

var vLogInit, vLogInherit, vLogClose int

func (p *vPipe) Category() supervisor.ObjectCategory { return supervisor.CategoryPipeline }
func (p *vPipe) Kind() string                        { return "VPipe" }
func (p *vPipe) DefaultSpec() interface{}            { return &struct{}{} }
func (p *vPipe) Status() *supervisor.Status          { return nil }
func (p *vPipe) Close()                              { p.closed++; vLogClose++ }
func (p *vPipe) Init(s *supervisor.Spec, m context.MuxMapper) {
	p.inits++
	vLogInit++
	p.bind(s)
	if p.panicInit {
		panic("init failed")
	}
}
func (p *vPipe) Inherit(s *supervisor.Spec, prev supervisor.Object, m context.MuxMapper) {
	verifYield() // taking over from the predecessor takes a while: other goroutines run meanwhile
	p.inherits++
	p.prev = prev
	vLogInherit++
	p.bind(s)
	if p.panicInherit {
		panic("inherit failed")
	}
}

// vPipeSpec: the typed spec of the object. As the real Pipeline (flow nodes bound to their
// filter instances) and HTTPServer (compiled header patterns) do, the running object keeps
// run-time state in unexported fields of its own typed spec.
type vPipeSpec struct {
	Rev   int64
	bound *vPipe
}

func (p *vPipe) bind(s *supervisor.Spec) {
	if ps, ok := s.ObjectSpec().(*vPipeSpec); ok {
		ps.bound = p
	}
}
func (p *vPipe) Handle(ctx *context.Context) string { return p.name }

func vEntity(name string, gen int, rev int64) (*supervisor.ObjectEntity, *vPipe) {
	spec := &supervisor.Spec{}
	verifSetField(spec, "meta", &supervisor.MetaSpec{Name: name, Kind: "VPipe"})
	verifSetField(spec, "rawSpec", map[string]interface{}{"name": name, "rev": rev})
	verifSetField(spec, "objectSpec", interface{}(&vPipeSpec{Rev: rev}))
	pipe := &vPipe{name: name, gen: gen}
	e := &supervisor.ObjectEntity{}
	verifSetField(e, "spec", spec)
	verifSetField(e, "instance", supervisor.Object(pipe))
	return e, pipe
}

func verifC11_TrafficController() {
	tc := &TrafficController{mutex: &sync.Mutex{}, namespaces: map[string]*Namespace{}}
	verifInitMaps(tc) // maps a bypassed constructor would have made
	const ns = "default"
	ea, pa := vEntity("a", 1, 1)
	eb, _ := vEntity("b", 1, 1)
	tc.CreatePipeline(ns, ea)
	tc.CreatePipeline(ns, eb)
	// the namespace holds pipelines only, or a traffic gate as well
	withGate := verifBool("namespaceHasTrafficGate")
	if withGate {
		eg, _ := vEntity("g", 1, 1)
		tc.CreateTrafficGate(ns, eg)
	}
	space := tc.namespaces[ns] // what an HTTP server holds as its MuxMapper
	verifRaceScopeDeep(tc, "TrafficController")

	// the mutator: one admin operation on a or on another object
	op := verifChoose("operation", 6)
	verifAssume(op != 5 || withGate)
	ea2, pa2 := vEntity("a", 2, verifInt("a.newRevision", 1, 2))
	ec, _ := vEntity("c", 1, 1)
	verifRaceScopeDeep(ea2, "the new generation of a")
	var wg sync.WaitGroup
	wg.Add(1)
	go func() {
		defer wg.Done()
		switch op {
		case 0:
			tc.UpdatePipeline(ns, ea2)
		case 1:
			tc.ApplyPipeline(ns, ea2)
		case 2:
			tc.DeletePipeline(ns, "b")
		case 3:
			tc.CreatePipeline(ns, ec)
		case 4:
			tc.DeletePipeline(ns, "b")
			tc.CreatePipeline(ns, ec)
		case 5:
			tc.DeleteTrafficGate(ns, "g") // the only traffic gate goes, the pipelines stay
		}
	}()
	// the request: looks up pipeline a at any moment
	h, ok := space.GetHandler("a")
	verifAssert(ok && h != nil, "pipeline-a-stays-available-while-others-change")
	if ok {
		got := h.(*vPipe)
		verifAssert(got == pa || got == pa2, "handler-is-the-old-or-the-new-generation")
		// ... and a generation that is ready to serve: created ones were initialised, updated
		// ones have inherited, before any request can get hold of them
		verifAssert(got.inits+got.inherits == 1, "handler-given-to-a-request-is-a-ready-generation")
		if got == pa2 {
			verifCover("request-saw-new-generation")
		}
	}
	wg.Wait()
	h2, ok2 := space.GetHandler("a")
	verifAssert(ok2, "pipeline-a-available-after-the-operation")
	switch op {
	case 0:
		verifAssert(h2.(*vPipe) == pa2 && pa2.inherits == 1 && pa2.prev == supervisor.Object(pa) && pa2.inits == 0, "update-inherits-once-from-previous-generation")
	case 1:
		// the configuration applied is the one already running iff its content (revision) is
		same := vRev(ea2) == vRev(ea)
		if same {
			verifAssert(h2.(*vPipe) == pa && pa2.inits == 0 && pa2.inherits == 0, "apply-of-unchanged-spec-is-a-no-op")
			verifCover("unchanged-apply")
		} else {
			verifAssert(h2.(*vPipe) == pa2 && pa2.inherits == 1 && pa2.inits == 0, "apply-of-changed-spec-inherits")
		}
	default:
		verifAssert(h2.(*vPipe) == pa && pa.closed == 0, "other-operations-leave-a-untouched")
	}
	_, okb := space.GetHandler("b")
	verifAssert(okb == (op != 2 && op != 4), "b-present-unless-deleted")
	// the controller's own view (what later lookups, listings and new traffic gates see)
	_, regA := tc.GetPipeline(ns, "a")
	verifAssert(regA, "pipeline-a-still-registered-in-the-controller")
	_, regB := tc.GetPipeline(ns, "b")
	verifAssert(regB == okb, "controller-and-namespace-agree-on-b")
	if withGate {
		_, regG := tc.GetTrafficGate(ns, "g")
		verifAssert(regG == (op != 5), "traffic-gate-present-unless-deleted")
		if op == 5 {
			verifCover("last-traffic-gate-deleted")
		}
	} else if op == 2 {
		verifCover("pipeline-deleted-in-a-pipelines-only-namespace")
	}
	// a traffic gate created afterwards resolves the surviving pipelines
	en, _ := vEntity("n", 1, 1)
	tc.CreateTrafficGate(ns, en)
	hn, okn := tc.namespaces[ns].GetHandler("a")
	verifAssert(okn && hn != nil, "a-new-traffic-gate-resolves-the-surviving-pipeline")
}

func vRev(e *supervisor.ObjectEntity) int64 {
	return verifGetField(e, "spec").(*supervisor.Spec).RawSpec()["rev"].(int64)
}
