package pipeline

import (
	"github.com/megaease/easegress/pkg/context"
	"github.com/megaease/easegress/pkg/filters"
	"github.com/megaease/easegress/pkg/resilience"
	"github.com/megaease/easegress/pkg/supervisor"
)

// C11 (pipeline generations), package pipeline: the REAL Pipeline.reload for a first
// generation and for an update. In the new generation every filter - whether it inherits from
// a filter of the same name or is new - is a fresh instance initialised/inherited exactly once
// and carries the NEW generation's resilience policies; filters of the old generation are not
// touched by the update.

type vRFilter struct {
	spec     filters.Spec
	inits    int
	inherits int
	injects  int
	injected map[string]resilience.Policy
	prev     filters.Filter
	closed   int
}

var vRKind = &filters.Kind{Name: "VerifR", Results: []string{},
	DefaultSpec:    func() filters.Spec { return &vSpec{} },
	CreateInstance: func(spec filters.Spec) filters.Filter { return &vRFilter{spec: spec} }}

func (f *vRFilter) Name() string                       { return f.spec.Name() }
func (f *vRFilter) Kind() *filters.Kind                { return vRKind }
func (f *vRFilter) Spec() filters.Spec                 { return f.spec }
func (f *vRFilter) Init()                              { f.inits++ }
func (f *vRFilter) Inherit(prev filters.Filter)        { f.inherits++; f.prev = prev }
func (f *vRFilter) Status() interface{}                { return nil }
func (f *vRFilter) Close()                             { f.closed++ }
func (f *vRFilter) Handle(ctx *context.Context) string { return "" }
func (f *vRFilter) InjectResiliencePolicy(p map[string]resilience.Policy) {
	f.injects++
	f.injected = p
}

// vTFilter: a kind whose Inherit relies on the previous generation being of its own type, as
// the RateLimiter filter does
type vTFilter struct{ vRFilter }

var vTKind = &filters.Kind{Name: "VerifT", Results: []string{},
	DefaultSpec:    func() filters.Spec { return &vSpec{} },
	CreateInstance: func(spec filters.Spec) filters.Filter { return &vTFilter{vRFilter{spec: spec}} }}

func (f *vTFilter) Kind() *filters.Kind { return vTKind }
func (f *vTFilter) Inherit(prev filters.Filter) {
	_ = prev.(*vTFilter)
	f.inherits++
	f.prev = prev
}

var vKindOfA = "VerifR"

func vGeneration(names []string) *Pipeline {
	super := &supervisor.Spec{}
	verifSetField(super, "meta", &supervisor.MetaSpec{Name: "pipe", Kind: Kind})
	spec := &Spec{}
	for _, n := range names {
		kind := "VerifR"
		if n == "a" {
			kind = vKindOfA
		}
		spec.Filters = append(spec.Filters, map[string]interface{}{"name": n, "kind": kind})
	}
	return &Pipeline{superSpec: super, spec: spec}
}

func verifC11_PipelineReload() {
	filters.Register(vRKind)
	filters.Register(vTKind)
	pool := []string{"a", "b", "c"}
	var in1, in2 [3]bool
	var n1, n2 []string
	for i, n := range pool {
		in1[i], in2[i] = verifBool("gen1.has."+n), verifBool("gen2.has."+n)
		if in1[i] {
			n1 = append(n1, n)
		}
		if in2[i] {
			n2 = append(n2, n)
		}
	}
	g1 := vGeneration(n1)
	g1.reload(nil)
	var f1 [3]*vRFilter
	for i, n := range pool {
		if in1[i] {
			f1[i] = g1.filters[n].(*vRFilter)
			verifAssert(f1[i].inits == 1 && f1[i].inherits == 0 && f1[i].injects == 1, "first-generation-filter-initialised-and-injected-once")
		}
	}
	// filter a may keep its name and change its kind in the new generation
	kindChanged := in1[0] && in2[0] && verifBool("gen2.filterAChangesKind")
	if kindChanged {
		vKindOfA = "VerifT"
	}
	g2 := vGeneration(n2)
	g2.reload(g1)
	vKindOfA = "VerifR"
	if kindChanged {
		fa, isT := g2.filters["a"].(*vTFilter)
		verifAssert(isT && fa.inits == 1 && fa.inherits == 0 && fa.injects == 1, "filter-whose-kind-changed-starts-afresh")
		verifAssert(f1[0].closed == 0, "old-generation-untouched-by-the-update")
		verifCover("filter-kind-changed")
		return
	}
	for i, n := range pool {
		if !in2[i] {
			_, present := g2.filters[n]
			verifAssert(!present, "dropped-filter-is-not-in-the-new-generation")
			continue
		}
		f2 := g2.filters[n].(*vRFilter)
		verifAssert(f2 != f1[i], "new-generation-gets-a-fresh-instance")
		if in1[i] {
			verifAssert(f2.inherits == 1 && f2.inits == 0 && f2.prev == filters.Filter(f1[i]), "filter-of-the-same-name-inherits-once-from-the-old-instance")
			verifCover("inherited")
		} else {
			verifAssert(f2.inits == 1 && f2.inherits == 0, "new-filter-initialised-once")
			verifCover("new-filter")
		}
		// the policies of the NEW generation, given exactly once
		verifAssert(f2.injects == 1, "resilience-policies-injected-into-every-filter-of-the-new-generation")
		if f2.injects == 1 {
			f2.injected["probe"] = nil
			_, same := g2.resilience["probe"]
			delete(g2.resilience, "probe")
			verifAssert(same, "injected-policies-are-the-new-generations")
		}
	}
	for i := range pool {
		if in1[i] {
			verifAssert(f1[i].injects == 1 && f1[i].closed == 0 && f1[i].inits == 1, "old-generation-untouched-by-the-update")
		}
	}
}
