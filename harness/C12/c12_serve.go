package httpserver

import (
	"net/http"
	"net/url"

	"github.com/megaease/easegress/pkg/context"
	"github.com/megaease/easegress/pkg/supervisor"
)

// C12 at the level of the REAL serveHTTP (search + cache + rewrite + backend lookup) with the
// real match methods: the same spec with and without route cache serves the same sequence of
// requests; per request the same backend is invoked with the same (rewritten) path and the same
// status is written. Entries carry rewrite targets whose result is itself routable by another
// entry, and method lists next to entries without one - so whatever the cache is keyed by, a
// request must not change how a later, different request is routed.
type vNamedMapper struct{ b [2]*vBackend }

func (m *vNamedMapper) GetHandler(name string) (context.Handler, bool) {
	switch name {
	case "b0":
		return m.b[0], true
	case "b1":
		return m.b[1], true
	}
	return nil, false
}

func vServeSpec(cacheSize uint32, rewrite string, methods0 []string) *Spec {
	return &Spec{CacheSize: cacheSize, ClientMaxBodySize: 2, Rules: []*Rule{{Paths: []*Path{
		{PathPrefix: "/a", RewriteTarget: rewrite, Backend: "b0", Methods: methods0},
		{PathPrefix: "/", Backend: "b1"},
	}}}}
}

func vServeMux(spec *Spec, mapper context.MuxMapper) *mux {
	m := &mux{}
	m.inst.Store(&muxInstance{spec: &Spec{}})
	superSpec := &supervisor.Spec{}
	verifSetField(superSpec, "objectSpec", spec)
	verifSetField(superSpec, "meta", &supervisor.MetaSpec{Name: "server"})
	m.reload(superSpec, mapper)
	return m
}

func verifC12_ServeCache() {
	rewrite := []string{"", "/b", "/"}[verifChoose("entry0.rewriteTarget", 3)]
	var methods0 []string
	if verifBool("entry0.hasMethodList") {
		methods0 = []string{"POST"}
	}
	mapPlain := &vNamedMapper{b: [2]*vBackend{{status: 200}, {status: 201}}}
	mapCached := &vNamedMapper{b: [2]*vBackend{{status: 200}, {status: 201}}}
	plain := vServeMux(vServeSpec(0, rewrite, methods0), mapPlain)
	cached := vServeMux(vServeSpec(4, rewrite, methods0), mapCached)

	paths := []string{"/a/x", "/b/x", "/x", "/a"}
	for k := 0; k < verifBound("history"); k++ {
		path := paths[verifChoose("req.path", len(paths))]
		method := []string{"GET", "POST"}[verifChoose("req.method", 2)]
		// the server limits request bodies to 2 bytes: a body of 3 gets 413 with and without cache
		blen := []int{0, 3}[verifChoose("req.bodyLength", 2)]
		var st [2]int
		var called [2][2]int
		var seen [2][2]string
		for i, m := range []*mux{plain, cached} {
			mp := []*vNamedMapper{mapPlain, mapCached}[i]
			before := [2]int{mp.b[0].calls, mp.b[1].calls}
			std := &http.Request{Method: method, Host: "h", URL: &url.URL{Path: path}, Header: http.Header{}, Body: &vReqBody{data: make([]byte, blen)},
				ContentLength: int64(blen), RemoteAddr: "9.9.9.9:1"}
			w := &vWriter{hdr: http.Header{}}
			m.inst.Load().(*muxInstance).serveHTTP(w, std)
			st[i] = w.status
			for j := 0; j < 2; j++ {
				called[i][j] = mp.b[j].calls - before[j]
				if called[i][j] > 0 {
					seen[i][j] = mp.b[j].seenPath
				}
			}
		}
		verifAssert(st[0] == st[1], "same-status-with-cache")
		if blen == 3 && st[0] == 413 && k > 0 {
			verifCover("oversized-body-on-a-later-request")
		}
		verifAssert(called[0] == called[1], "same-backend-with-cache")
		verifAssert(seen[0] == seen[1], "same-rewritten-path-with-cache")
		if k > 0 && vCacheHits > 0 {
			verifCover("cache-hit")
		}
	}
}
