package validator

import (
	"encoding/base64"
	"errors"
	"io"
	"net/http"
	"net/url"
	"time"

	"github.com/golang-jwt/jwt"

	"github.com/megaease/easegress/pkg/context"
	"github.com/megaease/easegress/pkg/protocols/httpprot"
	"github.com/megaease/easegress/pkg/protocols/httpprot/httpheader"
	"github.com/megaease/easegress/pkg/util/signer"
)

// ---------------------------------------------------------------------------
// C06 harnesses, package validator.
// ---------------------------------------------------------------------------

var (
	vCalls    [8]string
	vNCalls   int
	errNope   = errors.New("rejected (harness)")
	vSeenBody []byte
	vSawBody  bool
)

func vVerdict(who string) error {
	vCalls[vNCalls] = who
	vNCalls++
	if verifBool("accepts." + who) {
		return nil
	}
	return errNope
}

func vHeadersValidate(v httpheader.Validator, h *httpheader.HTTPHeader) error {
	return vVerdict("headers")
}
func vJWTValidate(v *JWTValidator, r *httpprot.Request) error         { return vVerdict("jwt") }
func vSignerVerify(s *signer.Signer, r *http.Request) error           { return vVerdict("signature") }
func vOAuth2Validate(v *OAuth2Validator, r *httpprot.Request) error   { return vVerdict("oauth2") }
func vBasicValidate(v *BasicAuthValidator, r *httpprot.Request) error { return vVerdict("basic") }

func vRealIP(r *http.Request) string { return "9.9.9.9" }

func vRequest() (*context.Context, *httpprot.Request) {
	std := &http.Request{Method: "GET", URL: &url.URL{Path: "/"}, Header: http.Header{}}
	req := &httpprot.Request{Request: std}
	ctx := context.New(nil)
	ctx.SetRequest(context.DefaultNamespace, req)
	return ctx, req
}

// verifC06_Conjunction: a request passes iff every configured method accepts it;
// otherwise result invalid with 400 (headers) / 401, and nothing after the first failure is consulted.
func verifC06_Conjunction() {
	v := &Validator{spec: &Spec{}}
	order := []string{"headers", "jwt", "signature", "oauth2", "basic"}
	var configured [5]bool
	for i := range order {
		configured[i] = verifBool("configured")
	}
	if configured[0] {
		v.headers = &httpheader.Validator{}
	}
	if configured[1] {
		v.jwt = &JWTValidator{}
	}
	if configured[2] {
		v.signer = &signer.Signer{}
	}
	if configured[3] {
		v.oauth2 = &OAuth2Validator{}
	}
	if configured[4] {
		v.basicAuth = &BasicAuthValidator{}
	}
	ctx, _ := vRequest()
	vNCalls = 0
	result := v.Handle(ctx)
	// every call went to a configured validator, in order; all but the last accepted
	k := 0
	for i := range order {
		if !configured[i] {
			continue
		}
		if k < vNCalls {
			verifAssert(vCalls[k] == order[i], "validators-consulted-in-order")
			k++
		}
	}
	nconf := 0
	for i := range order {
		if configured[i] {
			nconf++
		}
	}
	resp, _ := ctx.GetOutputResponse().(*httpprot.Response)
	if result == "" {
		verifAssert(vNCalls == nconf, "accepted-only-if-every-configured-method-was-consulted-and-accepted")
		verifAssert(resp == nil, "no-error-response-when-accepted")
		verifCover("accepted")
	} else {
		verifAssert(result == resultInvalid && resp != nil, "rejected-with-result-invalid")
		first := vCalls[vNCalls-1]
		if first == "headers" {
			verifAssert(resp.StatusCode() == 400, "header-rule-failure-is-400")
		} else {
			verifAssert(resp.StatusCode() == 401, "credential-failure-is-401")
		}
		verifCover("rejected")
	}
}

// ---- Basic credentials ------------------------------------------------------------

type vUsers struct{ user, pass string }

func (u *vUsers) Match(user, pass string) bool { return user == u.user && pass == u.pass }
func (u *vUsers) WatchChanges()                {}
func (u *vUsers) Close()                       {}

// base64 is replaced by the identity (bijection contract)
func vB64Decode(enc *base64.Encoding, s string) ([]byte, error) { return []byte(s), nil }

// verifC06_BasicAuth: accepted iff the presented credentials are exactly
// user ":" password of the configured user (the user id contains no ':', the
// password may).
func verifC06_BasicAuth() {
	n := verifBound("maxStr")
	user := verifString("user", n)
	pass := verifString("password", n)
	for i := 0; i < len(user); i++ {
		verifAssume(user[i] != ':')
	}
	bav := &BasicAuthValidator{spec: &BasicAuthValidatorSpec{}, authorizedUsersCache: &vUsers{user, pass}}
	creds := verifString("presentedCredentials", 2*n+1)
	_, req := vRequest()
	hasHeader := verifBool("hasAuthorizationHeader")
	if hasHeader {
		req.Std().Header["Authorization"] = []string{"Basic " + creds}
	}
	err := bav.Validate(req)
	valid := hasHeader && creds == user+":"+pass
	verifAssert((err == nil) == valid, "accepted-iff-credentials-equal-a-configured-user")
	if valid {
		verifCover("valid-credentials")
		for i := 0; i < len(pass); i++ {
			if pass[i] == ':' {
				verifCover("password-with-colon")
			}
		}
	}
}

// verifC06_BasicAuthExact: the configured pair with a blank / tab / newline / NUL added in front
// or behind (of the whole credentials, of the user or of the password) is a different pair:
// credentials are compared exactly, not after normalisation.
func verifC06_BasicAuthExact() {
	user := verifString("user", 2)
	pass := verifString("password", 2)
	for i := 0; i < len(user); i++ {
		verifAssume(user[i] != ':')
	}
	verifAssume(len(user) > 0)
	bav := &BasicAuthValidator{spec: &BasicAuthValidatorSpec{}, authorizedUsersCache: &vUsers{user, pass}}
	pads := []string{"", " ", "\n", "\t"}[:verifBound("paddings")]
	pre := pads[verifChoose("paddingInFront", len(pads))]
	mid1 := pads[verifChoose("paddingAfterUser", len(pads))]
	mid2 := pads[verifChoose("paddingBeforePassword", len(pads))]
	post := pads[verifChoose("paddingBehind", len(pads))]
	presented := pre + user + mid1 + ":" + mid2 + pass + post
	_, req := vRequest()
	req.Std().Header["Authorization"] = []string{"Basic " + presented}
	err := bav.Validate(req)
	valid := presented == user+":"+pass
	verifAssert((err == nil) == valid, "credentials-are-compared-exactly")
	if pre+mid1+mid2+post != "" {
		verifCover("padded-credentials")
		if valid {
			verifCover("padding-that-is-part-of-the-configured-pair")
		}
	} else {
		verifCover("exact-credentials")
	}
}

// ---- signature: the body the signer sees ----------------------------------------------

type vBody struct {
	data []byte
	pos  int
}

func (b *vBody) Read(p []byte) (int, error) {
	if b.pos >= len(b.data) {
		return 0, io.EOF
	}
	n := copy(p, b.data[b.pos:])
	b.pos += n
	return n, nil
}
func (b *vBody) Close() error { return nil }

// contract of Signer.Verify: it hashes the body it can read from the request it is given
func vSignerVerifyRecording(s *signer.Signer, r *http.Request) error {
	vSawBody = true
	if r.Body == nil {
		vSeenBody = nil
		return nil
	}
	vSeenBody, _ = io.ReadAll(r.Body)
	return nil
}

// verifC06_SignatureBody: as requests arrive through the HTTP server (payload
// already fetched), the body covered by the signature check is the body that
// will be forwarded.
func verifC06_SignatureBody() {
	m := verifChoose("bodyLength", verifBound("maxBody")+1)
	body := verifBytes("body", m)
	std := &http.Request{Method: "POST", URL: &url.URL{Path: "/"}, Header: http.Header{}, Body: &vBody{data: body}, ContentLength: int64(m)}
	req, _ := httpprot.NewRequest(std)
	verifAssert(req.FetchPayload(0) == nil, "payload-fetched-as-the-server-does")
	ctx := context.New(nil)
	ctx.SetRequest(context.DefaultNamespace, req)
	v := &Validator{spec: &Spec{}, signer: &signer.Signer{}}
	vSawBody = false
	result := v.Handle(ctx)
	verifAssert(result == "" && vSawBody, "signature-checked")
	forwarded := req.RawPayload()
	verifAssert(len(vSeenBody) == len(forwarded), "signature-covers-the-body-that-is-forwarded")
	for i := range forwarded {
		if i < len(vSeenBody) {
			verifAssert(vSeenBody[i] == forwarded[i], "signature-covers-the-body-that-is-forwarded")
		}
	}
	if m > 0 {
		verifCover("non-empty-body")
	}
	// and the payload is still intact afterwards
	after, _ := io.ReadAll(req.GetPayload())
	verifAssert(len(after) == m, "payload-intact-after-verification")
}

// ---- JWT: token source and algorithm pinning -------------------------------------

type vMethod struct{ alg string }

func (m *vMethod) Verify(signingString, signature string, key interface{}) error { return nil }
func (m *vMethod) Sign(signingString string, key interface{}) (string, error)    { return "", nil }
func (m *vMethod) Alg() string                                                   { return m.alg }

var (
	vParsedToken string
	vTokenAlg    string
	vSigValid    bool
	vClaimsValid bool
	vKeyUsed     []byte
	// the token's exp / nbf / iat are written as non-integer numbers (1700000000.5)
	vFractionalDates bool
	// the token's aud claim is a list of strings (as RFC 7519 allows)
	vAudienceIsAList bool
)

// vJWTParse models jwt.Parse by its contract: the key function is asked for the
// key given the token's alg; the token is valid iff the key function succeeds,
// the signature verifies under that key and the claims (exp, nbf, iat) are valid.
// As the real parser does, a failure is reported as a *jwt.ValidationError whose
// bit field names EVERY reason that applies (signature and any subset of the
// claim checks), so the caller cannot conclude anything from a single bit.
//
// The model is attached to (*jwt.Parser).Parse (jwt.Parse is new(Parser).Parse), and honours
// the parser's options as golang-jwt v3.2.1 implements them: ValidMethods is checked before the
// key function is asked; SkipClaimsValidation skips the claim checks; with UseJSONNumber a
// numeric date that is not an integer cannot be read from the json.Number and is treated as
// absent, i.e. an expired / not-yet-valid token with fractional dates passes the claim checks.
//
// The model sits on (*Parser).ParseWithClaims, which Parse, jwt.Parse and jwt.ParseWithClaims all
// end in. With a typed claims struct (StandardClaims) instead of MapClaims the library decodes
// the payload into fixed Go types: a token whose `aud` is a list or whose dates are not integers
// does not fit and is reported as malformed although it is perfectly valid.
func vJWTParse(p *jwt.Parser, tokenString string, claims jwt.Claims, keyFunc jwt.Keyfunc) (*jwt.Token, error) {
	vParsedToken = tokenString
	tok := &jwt.Token{Raw: tokenString, Method: &vMethod{vTokenAlg}}
	if _, isMap := claims.(jwt.MapClaims); !isMap && (vFractionalDates || vAudienceIsAList) {
		return tok, &jwt.ValidationError{Inner: errors.New("json: cannot unmarshal into typed claims"), Errors: jwt.ValidationErrorMalformed}
	}
	if p.ValidMethods != nil {
		listed := false
		for _, m := range p.ValidMethods {
			if m == vTokenAlg {
				listed = true
			}
		}
		if !listed {
			return tok, &jwt.ValidationError{Inner: errors.New("signing method is invalid"), Errors: jwt.ValidationErrorSignatureInvalid}
		}
	}
	claimsValid := vClaimsValid
	if p.SkipClaimsValidation || (p.UseJSONNumber && vFractionalDates) {
		claimsValid = true
	}
	key, err := keyFunc(tok)
	if err != nil {
		return tok, &jwt.ValidationError{Inner: err, Errors: jwt.ValidationErrorUnverifiable}
	}
	vKeyUsed, _ = key.([]byte)
	var bits uint32
	if !claimsValid {
		// a non-empty subset of the claim failures
		if verifBool("claims.expired") {
			bits |= jwt.ValidationErrorExpired
		}
		if verifBool("claims.issuedInTheFuture") {
			bits |= jwt.ValidationErrorIssuedAt
		}
		if verifBool("claims.notValidYet") {
			bits |= jwt.ValidationErrorNotValidYet
		}
		verifAssume(bits != 0)
	}
	if !vSigValid {
		bits |= jwt.ValidationErrorSignatureInvalid
	}
	if bits != 0 {
		return tok, &jwt.ValidationError{Inner: errors.New("token invalid"), Errors: bits}
	}
	tok.Valid = true
	return tok, nil
}

var vCookieValue string
var vHasCookie bool

func vCookie(r *http.Request, name string) (*http.Cookie, error) {
	if vHasCookie && name == "auth" {
		return &http.Cookie{Name: name, Value: vCookieValue}, nil
	}
	return nil, http.ErrNoCookie
}

func verifC06_JWT() {
	algs := []string{"HS256", "HS384", "HS512", "none", "RS256"}
	spec := &JWTValidatorSpec{Algorithm: algs[verifChoose("configuredAlgorithm", 3)], Secret: "0a0b"}
	if verifBool("cookieConfigured") {
		spec.CookieName = "auth"
	}
	v := NewJWTValidator(spec)
	vTokenAlg = algs[verifChoose("tokenAlgorithm", 5)]
	vSigValid, vClaimsValid = verifBool("signatureValidUnderConfiguredSecret"), verifBool("claimsCurrentlyValid")
	vFractionalDates = verifBool("claims.numericDatesAreNotIntegers")
	vAudienceIsAList = verifBool("claims.audienceIsAList")
	vHasCookie = verifBool("hasCookie")
	vCookieValue = verifString("cookieValue", 2)
	bearer := verifString("bearerToken", 2)
	_, req := vRequest()
	hasAuth := verifBool("hasAuthorizationHeader")
	if hasAuth {
		req.Std().Header["Authorization"] = []string{"Bearer " + bearer}
	}
	vParsedToken, vKeyUsed = "<none>", nil
	err := v.Validate(req)

	fromCookie := spec.CookieName != "" && vHasCookie && vCookieValue != ""
	if err == nil {
		verifAssert(vTokenAlg == spec.Algorithm, "accepted-only-with-the-configured-algorithm")
		verifAssert(vSigValid && vClaimsValid, "accepted-only-with-valid-signature-and-claims")
		verifAssert(len(vKeyUsed) == 2 && vKeyUsed[0] == 0x0a && vKeyUsed[1] == 0x0b, "verified-under-the-configured-secret")
		verifCover("accepted")
	}
	if fromCookie {
		verifAssert(vParsedToken == vCookieValue, "token-taken-from-the-cookie-when-configured-and-present")
		verifCover("token-from-cookie")
	} else if hasAuth {
		verifAssert(vParsedToken == bearer, "token-is-the-bearer-remainder")
	} else {
		verifAssert(err != nil, "no-token-no-access")
	}
	if (fromCookie || hasAuth) && vTokenAlg == spec.Algorithm && vSigValid && vClaimsValid {
		verifAssert(err == nil, "valid-token-accepted")
	}
	// the same token is presented again later: "currently valid" is decided anew every time
	// (the token may have expired in between)
	vClaimsValid = verifBool("claimsStillValidAtTheSecondRequest")
	err2 := v.Validate(req)
	if err2 == nil {
		verifAssert(vTokenAlg == spec.Algorithm && vSigValid && vClaimsValid, "second-presentation-accepted-only-if-still-valid")
	}
	if err == nil && err2 != nil {
		verifCover("token-expired-between-two-requests")
	}
}

// ---- header rules ----------------------------------------------------------------------

// verifC06_HeaderRules: the configured header rules with the REAL httpheader.Validator and the
// real regexp package: a request passes iff every rule's header is PRESENT and its value is one
// of the rule's values or matches the rule's pattern - a rule that admits the empty string
// (a pattern matching "", or "" among the values) still needs the header to be there.
// Otherwise: result invalid, 400.
func verifC06_HeaderRules() {
	patterns := []string{"", "^[a-z0-9]*$", "^t[0-9]$"}
	pk := verifChoose("rule.regexp", len(patterns))
	vv := &httpheader.ValueValidator{Regexp: patterns[pk]}
	switch verifChoose("rule.values", 3) {
	case 1:
		vv.Values = []string{"", "prod"}
	case 2:
		vv.Values = []string{verifString("rule.value", 2)}
	}
	verifAssume(vv.Validate() == nil) // neither values nor regexp: rejected by validation
	hs := httpheader.ValidatorSpec{"X-Tenant": vv}
	v := &Validator{spec: &Spec{Headers: &hs}}
	v.headers = httpheader.NewValidator(v.spec.Headers)

	ctx, req := vRequest()
	present := verifBool("req.hasHeader")
	value := ""
	if present {
		value = verifString("req.headerValue", 3)
		req.Std().Header["X-Tenant"] = []string{value}
	}
	result := v.Handle(ctx)

	matches := false
	for _, x := range vv.Values {
		if x == value {
			matches = true
		}
	}
	switch pk {
	case 1:
		ok := true
		for i := 0; i < len(value); i++ {
			c := value[i]
			if !(c >= 'a' && c <= 'z' || c >= '0' && c <= '9') {
				ok = false
			}
		}
		matches = matches || ok
	case 2:
		matches = matches || (len(value) == 2 && value[0] == 't' && value[1] >= '0' && value[1] <= '9')
	}
	want := present && matches
	resp, _ := ctx.GetOutputResponse().(*httpprot.Response)
	if want {
		verifAssert(result == "" && resp == nil, "request-satisfying-the-header-rules-is-accepted")
		verifCover("accepted")
	} else {
		verifAssert(result == resultInvalid && resp != nil && resp.StatusCode() == 400, "request-failing-a-header-rule-is-rejected-400")
		if !present && (pk == 1 || len(vv.Values) == 2) {
			verifCover("missing-header-with-a-rule-admitting-the-empty-string")
		}
	}
}

// ---- Basic credentials kept in etcd (custom data) ----------------------------------------

var vEtcdCreds = map[string]*etcdCredentials{}

// vYAMLUnmarshalCreds replaces yaml.Unmarshal for etcdCredentials: the text is a key into a
// table of decoded entries (YAML decoding is out of reach).
func vYAMLUnmarshalCreds(in []byte, out interface{}) error {
	c, ok := vEtcdCreds[string(in)]
	if !ok {
		return errors.New("yaml: cannot unmarshal")
	}
	*(out.(*etcdCredentials)) = *c
	return nil
}

// verifC06_EtcdUsers: the user list built from etcd entries (real kvsToReader): an entry's user
// name is its `username`, or its `key` when it has no username (the custom-data item key is
// not a login name when a username is given); entries without a name or without a password
// are skipped. What the htpasswd matcher is fed is exactly "<user>:<password>" per entry.
func verifC06_EtcdUsers() {
	key, user, pass := verifString("entry.key", 2), verifString("entry.username", 2), verifString("entry.password", 2)
	verifAssume(vNoColonNL(key) && vNoColonNL(user) && vNoColonNL(pass))
	vEtcdCreds["e1"] = &etcdCredentials{Key: key, User: user, Pass: pass}
	r := kvsToReader(map[string]string{"/custom-data/credentials/1": "e1"})
	text, _ := io.ReadAll(r)
	want := ""
	name := user
	if name == "" {
		name = key
	}
	if name != "" && pass != "" {
		want = name + ":" + pass
		verifCover("entry-used")
		if user != "" && key != "" && user != key {
			verifCover("entry-with-key-and-username")
		}
	}
	verifAssert(string(text) == want, "etcd-entry-yields-username-else-key-with-its-password")
}

func vNoColonNL(s string) bool {
	ok := true
	for i := 0; i < len(s); i++ {
		if s[i] == ':' || s[i] == '\n' {
			ok = false
		}
	}
	return ok
}

// ---- the Validator's generation change over the Basic-auth user stores ----------------------
// newHtpasswdUserCache is replaced by a constructor that only remembers WHICH file the store
// stands for (reading and watching the file are outside the engine's reach); Match answers for
// the one user each file knows, named after the file.
func vNewFileStore(userFile string, d time.Duration) *htpasswdUserCache {
	return &htpasswdUserCache{userFile: userFile}
}

func vFileStoreMatch(c *htpasswdUserCache, user, pass string) bool {
	return user == "user-of-"+c.userFile && pass == "pw"
}

// verifC06_InheritUserStore: "Basic credentials must equal a CURRENTLY configured user's" across
// an update of the Validator: the new generation (Inherit) answers from the user file the NEW
// spec names - a user of the old file only is refused, a user of the new file is admitted -
// whether the file changed or not.
func verifC06_InheritUserStore() {
	files := []string{"/etc/users-a", "/etc/users-b"}
	oldFile := files[verifChoose("old.userFile", 2)]
	newFile := files[verifChoose("new.userFile", 2)]
	v1 := &Validator{spec: &Spec{BasicAuth: &BasicAuthValidatorSpec{Mode: "FILE", UserFile: oldFile}}}
	v1.Init()
	v2 := &Validator{spec: &Spec{BasicAuth: &BasicAuthValidatorSpec{Mode: "FILE", UserFile: newFile}}}
	v2.Inherit(v1)
	verifAssert(v2.basicAuth != nil, "basic-auth-configured")
	try := func(user string) bool {
		std := &http.Request{Method: "GET", URL: &url.URL{Path: "/"}, Header: http.Header{}}
		std.Header.Set("Authorization", "Basic "+user+":pw") // base64 = identity (replaced decoder)
		req, _ := httpprot.NewRequest(std)
		return v2.basicAuth.Validate(req) == nil
	}
	verifAssert(try("user-of-"+newFile), "user-of-the-currently-configured-file-is-admitted")
	if oldFile != newFile {
		verifAssert(!try("user-of-"+oldFile), "user-of-the-previous-file-only-is-refused")
		verifCover("user-file-changed-by-the-update")
	}
}
