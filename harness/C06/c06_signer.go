package signer

import (
	"net/url"
)

// ---------------------------------------------------------------------------
// C06, package signer: which parts of a request the signature covers.
// The digest functions are collision-free by contract, so "changing a covered part
// makes the request rejected" is: the canonical text fed to the digest is an
// injective function of the covered part. The REAL buildCanonicalURI and the REAL
// net/url request-URI parser are executed over symbolic wire paths.
// ---------------------------------------------------------------------------

func vPathAlphabet(s string) bool {
	ok := true
	for i := 0; i < len(s); i++ {
		c := s[i]
		if !(c == '/' || c == '%' || c == '4' || c == '1' || c == 'A' || c == '2' || c == 'F' || c == '+' || c == 'b') {
			ok = false
		}
	}
	return ok
}

func vHexVal(c byte) int {
	switch {
	case c >= '0' && c <= '9':
		return int(c - '0')
	case c >= 'A' && c <= 'F':
		return int(c-'A') + 10
	}
	return -1
}

// vDecodeCanonical inverts the canonical form: %XX (upper-case hex) is one byte, everything
// else stands for itself. ok=false when the text is not in canonical form.
func vDecodeCanonical(c string) (string, bool) {
	out := make([]byte, 0, len(c))
	for i := 0; i < len(c); {
		if c[i] != '%' {
			out = append(out, c[i])
			i++
			continue
		}
		if i+2 >= len(c) {
			return "", false
		}
		h, l := vHexVal(c[i+1]), vHexVal(c[i+2])
		if h < 0 || l < 0 {
			return "", false
		}
		out = append(out, byte(h<<4|l))
		i += 3
	}
	return string(out), true
}

// verifC06_CanonicalURI: the canonical URI that is signed determines the path as it is on the
// wire (a left inverse exists), hence two requests whose wire paths differ never have the same
// canonical URI, and a signature made for one never verifies for the other.
func verifC06_CanonicalURI() {
	n := verifBound("maxStr")
	w := verifString("wirePath", n)
	verifAssume(len(w) > 0 && w[0] == '/')
	verifAssume(vPathAlphabet(w))
	u, err := url.ParseRequestURI(w)
	verifAssume(err == nil) // the HTTP server rejects unparsable request URIs
	verifAssert(u.EscapedPath() == w, "parser-keeps-the-wire-form")
	c := buildCanonicalURI(u)
	back, ok := vDecodeCanonical(c)
	verifAssert(ok && back == w, "canonical-uri-determines-the-wire-path")
	if u.RawPath != "" {
		verifCover("escaped-reserved-character")
	}
	if u.Path != w {
		verifCover("wire-path-differs-from-decoded-path")
	}
}
