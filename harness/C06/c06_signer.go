package signer

import (
	"io"
	"net/http"
	"net/url"
	"time"
)

// ---------------------------------------------------------------------------
// C06, package signer: which parts of a request the signature covers.
// The digest functions are collision-free by contract, so "changing a covered part
// makes the request rejected" is: the canonical text fed to the digest is an
// injective function of the covered part. The REAL buildCanonicalURI and the REAL
// net/url request-URI parser are executed over symbolic wire paths.
// ---------------------------------------------------------------------------

func vPathAlphabet(s string) bool {
	ok := true
	for i := 0; i < len(s); i++ {
		c := s[i]
		if !(c == '/' || c == '%' || c == '4' || c == '1' || c == 'A' || c == '2' || c == 'F' || c == '+' || c == 'b') {
			ok = false
		}
	}
	return ok
}

func vHexVal(c byte) int {
	switch {
	case c >= '0' && c <= '9':
		return int(c - '0')
	case c >= 'A' && c <= 'F':
		return int(c-'A') + 10
	}
	return -1
}

// vDecodeCanonical inverts the canonical form: %XX (upper-case hex) is one byte, everything
// else stands for itself. ok=false when the text is not in canonical form.
func vDecodeCanonical(c string) (string, bool) {
	out := make([]byte, 0, len(c))
	for i := 0; i < len(c); {
		if c[i] != '%' {
			out = append(out, c[i])
			i++
			continue
		}
		if i+2 >= len(c) {
			return "", false
		}
		h, l := vHexVal(c[i+1]), vHexVal(c[i+2])
		if h < 0 || l < 0 {
			return "", false
		}
		out = append(out, byte(h<<4|l))
		i += 3
	}
	return string(out), true
}

// verifC06_CanonicalURI: the canonical URI that is signed determines the path as it is on the
// wire (a left inverse exists), hence two requests whose wire paths differ never have the same
// canonical URI, and a signature made for one never verifies for the other.
func verifC06_CanonicalURI() {
	n := verifBound("maxStr")
	w := verifString("wirePath", n)
	verifAssume(len(w) > 0 && w[0] == '/')
	verifAssume(vPathAlphabet(w))
	u, err := url.ParseRequestURI(w)
	verifAssume(err == nil) // the HTTP server rejects unparsable request URIs
	verifAssert(u.EscapedPath() == w, "parser-keeps-the-wire-form")
	c := buildCanonicalURI(u)
	back, ok := vDecodeCanonical(c)
	verifAssert(ok && back == w, "canonical-uri-determines-the-wire-path")
	if u.RawPath != "" {
		verifCover("escaped-reserved-character")
	}
	if u.Path != w {
		verifCover("wire-path-differs-from-decoded-path")
	}
}

// ---- the whole Sign / Verify flow with transparent digests -------------------------------
//
// HMAC-SHA256 and SHA-256 are collision-free by contract. They are replaced by injective
// text encodings (the digest of x "is" x), so that "the signature verifies" becomes "the
// canonical texts are equal" and the solver can decide which parts of a request the signature
// covers. Everything else is the REAL signer code: canonical URI / query / headers, the
// Authorization header format and its parser, scope and date handling, the TTL check.

func vHmac(key []byte, data []byte) []byte {
	return []byte("H(" + string(key) + "|" + string(data) + ")")
}
func vSha(data []byte) string       { return "S(" + string(data) + ")" }
func vHex(src []byte) string        { return string(src) }

var vSignTime = time.Date(2022, 3, 4, 5, 6, 7, 0, time.UTC)
var vVerifyAge time.Duration

func vSignerNow() time.Time { return vSignTime.Add(vVerifyAge) }

type vKeyStore struct{}

func (vKeyStore) GetSecret(id string) (string, bool) {
	if id == "key1" {
		return "secret1", true
	}
	return "", false
}

type vReqBody struct {
	data []byte
	pos  int
}

func (b *vReqBody) Read(p []byte) (int, error) {
	if b.pos >= len(b.data) {
		return 0, io.EOF
	}
	n := copy(p, b.data[b.pos:])
	b.pos += n
	return n, nil
}
func (b *vReqBody) Close() error { return nil }

func vAlnum(s string) bool {
	ok := true
	for i := 0; i < len(s); i++ {
		c := s[i]
		if !(c >= 'a' && c <= 'z' || c >= '0' && c <= '9') {
			ok = false
		}
	}
	return ok
}

type vParts struct {
	method, path, query, header string
	body                        []byte
	host, scheme                string // "" = api.example.com over http
}

func vPartsOf(label string, n int) vParts {
	p := vParts{}
	p.method = []string{"GET", "POST"}[verifChoose(label+".method", 2)]
	p.path = "/" + verifString(label+".path", n)
	p.query = verifString(label+".queryValue", n)
	p.header = verifString(label+".signedHeaderValue", n)
	verifAssume(vAlnum(p.path[1:]) && vAlnum(p.query) && vAlnum(p.header))
	p.body = verifBytes(label+".body", verifChoose(label+".bodyLength", n+1))
	return p
}

func (p vParts) request() *http.Request {
	u := &url.URL{Scheme: "http", Host: "api.example.com", Path: p.path, RawQuery: "q=" + p.query}
	return &http.Request{Method: p.method, URL: u, Host: "api.example.com", Header: http.Header{"X-Tenant": []string{p.header}},
		Body: &vReqBody{data: p.body}, ContentLength: int64(len(p.body))}
}

// clientRequest: the request as a client builds it (http.NewRequest with an absolute URL: the
// authority is in the URL, Request.Host is empty) before signing it.
func (p vParts) clientRequest() *http.Request {
	u := &url.URL{Scheme: p.scheme, Host: p.host, Path: p.path, RawQuery: "q=" + p.query}
	return &http.Request{Method: p.method, URL: u, Header: http.Header{"X-Tenant": []string{p.header}},
		Body: &vReqBody{data: p.body}, ContentLength: int64(len(p.body))}
}

// serverRequest: the request as the HTTP server hands it over (http.ReadRequest): origin-form
// target, so no scheme and no authority in the URL, the Host header in Request.Host.
func (p vParts) serverRequest() *http.Request {
	u := &url.URL{Path: p.path, RawQuery: "q=" + p.query}
	return &http.Request{Method: p.method, URL: u, Host: p.host, Header: http.Header{"X-Tenant": []string{p.header}},
		Body: &vReqBody{data: p.body}, ContentLength: int64(len(p.body))}
}

// vWireHost: the Host header net/http writes for a client request (Request.Host, else URL.Host)
func vWireHost(r *http.Request) string {
	if r.Host != "" {
		return r.Host
	}
	return r.URL.Host
}

// vDefaultPortStripped: the authority without the port when that is the scheme's default
func vDefaultPortStripped(host, scheme string) string {
	if scheme == "http" && vHasSuffixS(host, ":80") {
		return host[:len(host)-3]
	}
	if scheme == "https" && vHasSuffixS(host, ":443") {
		return host[:len(host)-4]
	}
	return host
}

func vHasSuffixS(s, suf string) bool {
	return len(s) >= len(suf) && s[len(s)-len(suf):] == suf
}

var vHosts = []string{"api.example.com", "api.example.com:80", "api.example.com:443", "api.example.com:8080", "b.example.com"}

func vSameBytes(a, b []byte) bool {
	if len(a) != len(b) {
		return false
	}
	same := true
	for i := range a {
		if a[i] != b[i] {
			same = false
		}
	}
	return same
}

// verifC06_SignVerifyHost: the Host as a covered part, for requests as they travel: the client
// builds the request from an absolute URL (scheme http or https, authority with or without a
// port, possibly the scheme's default port written out), signs it and sends it; the server sees
// an origin-form request (no scheme) with the Host header the client wrote. Unchanged, the
// request verifies; with another Host it does not - Hosts that differ only by the signing
// scheme's default port are left open (the signer treats them as one authority by design).
func verifC06_SignVerifyHost() {
	signed := vParts{method: "POST", path: "/a", query: "x", header: "t", body: []byte{7}}
	signed.host = vHosts[verifChoose("signed.host", 4)]
	signed.scheme = []string{"http", "https"}[verifChoose("signed.scheme", 2)]
	r1 := signed.clientRequest()
	client := New().SetCredential("key1", "secret1")
	s := CreateFromSpec(&Spec{AccessKeys: map[string]string{"key1": "secret1"}, TTL: "1m"})
	verifAssert(client.NewContext(vSignTime, "scope1").Sign(r1) == nil, "signing-succeeds")
	wireHost := vWireHost(r1)
	verifAssert(vDefaultPortStripped(wireHost, signed.scheme) == vDefaultPortStripped(signed.host, signed.scheme), "signing-keeps-the-authority")

	sent := signed
	sent.host = wireHost
	if verifBool("hostChangedOnTheWay") {
		sent.host = vHosts[verifChoose("sent.host", len(vHosts))]
	}
	r2 := sent.serverRequest()
	r2.Header.Set("Authorization", r1.Header.Get("Authorization"))
	r2.Header.Set("X-Me-Date", r1.Header.Get("X-Me-Date"))
	vVerifyAge = 0
	err := s.Verify(r2)
	if sent.host == wireHost {
		verifAssert(err == nil, "request-sent-as-signed-is-accepted")
		verifCover("verified")
		if signed.host != vDefaultPortStripped(signed.host, signed.scheme) {
			verifCover("default-port-written-out")
		}
	} else if vDefaultPortStripped(sent.host, signed.scheme) != vDefaultPortStripped(wireHost, signed.scheme) {
		verifAssert(err != nil, "changed-host-is-rejected")
		verifCover("changed-host-rejected")
	}
}

// verifC06_SignVerify: a request signed by a holder of the access key verifies; a request that
// differs from the signed one in the method, the path, a query value, a signed header or the
// body - and carries the signed request's Authorization and date - does not; outside the TTL
// or with an unknown key nothing verifies.
func verifC06_SignVerify() {
	n := verifBound("maxStr")
	// the signed request is fixed; the request that is sent differs from it in ONE part, whose
	// new value is symbolic (it may coincide with the signed value: then nothing was changed)
	// (the signed header value contains a tab: legal in a header value, and not a space)
	signed := vParts{method: "POST", path: "/a", query: "x", header: "a\tb", body: []byte{7}}
	changedPart := verifChoose("changedPart", 6)
	if changedPart == 5 {
		// the body is covered whatever the method (a GET or HEAD may carry one as well)
		signed.method = []string{"POST", "GET", "HEAD"}[verifChoose("signed.method", 3)]
		if signed.method != "POST" {
			verifCover("body-of-a-get-or-head-request-is-covered")
		}
	}
	r1 := signed.request()
	// the client signs with its own signer; the Validator's signer is built from a spec that
	// lists the known access keys only (as the Validator filter does)
	client := New().SetCredential("key1", "secret1")
	s := CreateFromSpec(&Spec{AccessKeys: map[string]string{"key1": "secret1"}, TTL: "1m"})
	ttl := time.Minute
	verifAssert(client.NewContext(vSignTime, "scope1").Sign(r1) == nil, "signing-succeeds")
	auth, date := r1.Header.Get("Authorization"), r1.Header.Get("X-Me-Date")
	verifAssert(auth != "" && date != "", "signature-headers-set")

	sent := signed
	switch changedPart {
	case 1:
		// (a method token is case-sensitive: "post" is another method than "POST")
		sent.method = []string{"GET", "POST", "PUT", "post"}[verifChoose("sent.method", 4)]
	case 2:
		sent.path = "/" + verifString("sent.path", n)
		verifAssume(vAlnum(sent.path[1:]))
	case 3:
		sent.query = verifString("sent.queryValue", n)
		verifAssume(vAlnum(sent.query))
	case 4:
		// letters, spaces and tabs: values that differ only by runs of SPACES are one value by
		// design (the canonical form trims and collapses them) - anything else is a change
		if verifBool("sent.signedHeaderValueFromThePool") {
			sent.header = []string{"a b", "a\tb", "a \tb", "ab", "a  b", " a\tb "}[verifChoose("sent.signedHeaderValue", 6)]
		} else {
			sent.header = verifString("sent.signedHeaderValue", n)
			verifAssume(vLettersSpacesTabs(sent.header))
		}
	case 5:
		sent.body = verifBytes("sent.body", verifChoose("sent.bodyLength", n+1))
	}
	r2 := sent.request()
	r2.Header.Set("Authorization", auth)
	r2.Header.Set("X-Me-Date", date)
	if verifBool("unknownAccessKey") {
		r2.Header.Set("Authorization", "ME-HMAC-SHA256 Credential=key2"+auth[len("ME-HMAC-SHA256 Credential=key1"):])
		verifCover("unknown-key")
	}
	forged := verifBool("signedAfreshWithAnAccessKeyNobodyConfigured")
	if forged {
		// a well-formed signature over exactly this request, made with credentials that are
		// not among the configured access keys (the empty id with the empty secret included)
		cred := [][2]string{{"", ""}, {"key9", "secret1"}, {"key1x", ""}}[verifChoose("forgedCredential", 3)]
		r2 = sent.request()
		verifAssert(New().SetCredential(cred[0], cred[1]).NewContext(vSignTime, "scope1").Sign(r2) == nil, "signing-succeeds")
		verifCover("forged-signature")
	}
	ages := []time.Duration{0, ttl, -ttl, ttl + 1, -ttl - 1}
	vVerifyAge = ages[verifChoose("ageAtVerification", len(ages))]
	err := s.Verify(r2)

	same := signed.method == sent.method && signed.path == sent.path && signed.query == sent.query &&
		signed.header == sent.header && vSameBytes(signed.body, sent.body)
	if signed.header != sent.header && vCollapseSpaces(signed.header) == vCollapseSpaces(sent.header) {
		return // equal up to runs of spaces: not asserted either way
	}
	inTTL := vVerifyAge >= -ttl && vVerifyAge <= ttl
	knownKey := r2.Header.Get("Authorization") == auth && !forged
	verifAssert((err == nil) == (same && inTTL && knownKey), "verifies-iff-every-covered-part-is-unchanged-within-ttl-known-key")
	if err == nil {
		verifCover("verified")
	} else if inTTL && knownKey {
		verifCover("tampered-request-rejected")
	}
	if !inTTL {
		verifCover("expired")
	}
}

func vLettersSpacesTabs(s string) bool {
	ok := true
	for i := 0; i < len(s); i++ {
		c := s[i]
		if !(c == 'a' || c == 'b' || c == ' ' || c == '\t') {
			ok = false
		}
	}
	return ok
}

// vCollapseSpaces: leading and trailing spaces removed, runs of spaces collapsed to one space
func vCollapseSpaces(s string) string {
	out := ""
	pending := false
	for i := 0; i < len(s); i++ {
		if s[i] == ' ' {
			pending = true
			continue
		}
		if pending && out != "" {
			out += " "
		}
		pending = false
		out += string(s[i])
	}
	return out
}
