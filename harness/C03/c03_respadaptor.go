package responseadaptor

import (
	"errors"
	"io"
	"net/http"
	"strings"

	"github.com/megaease/easegress/pkg/context"
	"github.com/megaease/easegress/pkg/protocols/httpprot"
	"github.com/megaease/easegress/pkg/util/readers"
)

// C03, ResponseAdaptor compress / decompress (package responseadaptor): the codings the client
// is told to undo stay consistent with what was done to the body. The gzip coder and decoder
// are replaced by pass-through readers that record that they were applied (bit-exact gzip is
// outside the engine's reach); the REAL Handle / compress / decompress decide when to apply
// them and how to label the result.
var vGzipApplied, vGunzipApplied int

type vPass struct{ r io.Reader }

func (p *vPass) Read(b []byte) (int, error) { return p.r.Read(b) }
func (p *vPass) Close() error               { return nil }

var vCoders = map[*readers.GZipCompressReader]io.Reader{}

func vNewGzipRA(r io.Reader) *readers.GZipCompressReader {
	vGzipApplied++
	g := &readers.GZipCompressReader{}
	vCoders[g] = r
	return g
}
func vGzipReadRA(g *readers.GZipCompressReader, p []byte) (int, error) { return vCoders[g].Read(p) }
func vGzipCloseRA(g *readers.GZipCompressReader)                        {}

var vDecoders = map[*readers.GZipDecompressReader]io.Reader{}

// vOutermostGzip: whether the body really is a gzip stream (its outermost coding is gzip);
// the real decoder rejects anything else when it reads the header
var vOutermostGzip bool

func vNewGunzipRA(r io.Reader) (*readers.GZipDecompressReader, error) {
	if !vOutermostGzip {
		return nil, errNotGzip
	}
	vGunzipApplied++
	g := &readers.GZipDecompressReader{}
	vDecoders[g] = r
	return g, nil
}
func vGunzipReadRA(g *readers.GZipDecompressReader, p []byte) (int, error) { return vDecoders[g].Read(p) }
func vGunzipCloseRA(g *readers.GZipDecompressReader) error                  { return nil }

var errNotGzip = errors.New("gzip: invalid header")

func vTokens(lines []string) []string {
	var out []string
	for _, l := range lines {
		for _, t := range strings.Split(l, ",") {
			if t = strings.TrimSpace(t); t != "" {
				out = append(out, t)
			}
		}
	}
	return out
}

func vSameTokens(a, b []string) bool {
	if len(a) != len(b) {
		return false
	}
	for i := range a {
		if a[i] != b[i] {
			return false
		}
	}
	return true
}

func verifC03_ResponseAdaptorCoding() {
	labels := [][]string{nil, {"gzip"}, {"br"}, {"deflate"}, {"deflate, gzip"}, {"deflate", "gzip"}, {"gzip", "deflate"}}
	before := labels[verifChoose("resp.contentEncoding", len(labels))]
	spec := &Spec{}
	switch verifChoose("adaptor.mode", 2) {
	case 0:
		spec.Compress = "gzip"
	case 1:
		spec.Decompress = "gzip"
	}
	ra := &ResponseAdaptor{spec: spec}
	ra.Init()
	ctx := context.New(nil)
	req, _ := httpprot.NewRequest(&http.Request{Method: "GET", Header: http.Header{}})
	ctx.SetRequest(context.DefaultNamespace, req)
	resp, _ := httpprot.NewResponse(nil)
	if verifBool("resp.stream") {
		// a streamed backend response (Proxy in stream mode)
		resp.SetPayload(&vPass{r: strings.NewReader("xy")})
		verifCover("streamed-response")
	} else {
		resp.SetPayload([]byte("xy"))
	}
	for _, l := range before {
		resp.HTTPHeader().Add("Content-Encoding", l)
	}
	ctx.SetResponse(context.DefaultNamespace, resp)
	vGzipApplied, vGunzipApplied = 0, 0
	tb := vTokens(before)
	vOutermostGzip = len(tb) > 0 && tb[len(tb)-1] == "gzip"
	res := ra.Handle(ctx)
	after := vTokens(resp.HTTPHeader().Values("Content-Encoding"))
	was := vTokens(before)
	verifAssert(vGzipApplied+vGunzipApplied <= 1, "at-most-one-coding-step")
	switch {
	case vGzipApplied == 1 && res == "":
		verifAssert(vSameTokens(after, append(append([]string{}, was...), "gzip")), "compressed-body-keeps-its-earlier-codings-and-gets-gzip-last")
		verifCover("compressed")
	case vGunzipApplied == 1 && res == "":
		verifAssert(len(was) > 0 && was[len(was)-1] == "gzip", "only-an-outermost-gzip-layer-is-removed")
		if len(was) > 0 {
			verifAssert(vSameTokens(after, was[:len(was)-1]), "decompressed-body-keeps-its-inner-codings")
		}
		verifCover("decompressed")
	case res == "":
		verifAssert(vSameTokens(after, was), "untouched-body-keeps-its-label")
		verifCover("untouched")
	}
}
