package readers

import (
	"compress/gzip"
	"io"
)

// C03, package readers: the chunking / buffering logic of GZipCompressReader (which feeds the
// client the compressed stream of a proxied response) with the DEFLATE engine replaced by a
// framing stand-in: Write passes its input through, Close appends one trailer byte. Whatever
// sizes the consumer reads with and wherever the flush boundaries fall, the bytes read are
// exactly the compressor's output, in order, nothing lost and nothing repeated - so that
// undoing the coding gives the backend's body back. bodyFlushSize is set to 2 so that bodies
// of a few bytes span several flushes.
func vGzipWrite(z *gzip.Writer, p []byte) (int, error) {
	w := verifGetField(z, "w").(io.Writer)
	return w.Write(p)
}

func vGzipWriterClose(z *gzip.Writer) error {
	w := verifGetField(z, "w").(io.Writer)
	_, err := w.Write([]byte{0xEE})
	return err
}

type vSrc struct {
	data []byte
	pos  int
}

func (s *vSrc) Read(p []byte) (int, error) {
	if s.pos >= len(s.data) {
		return 0, io.EOF
	}
	n := copy(p, s.data[s.pos:])
	s.pos += n
	return n, nil
}

func verifC03_GzipReaderFraming() {
	bodyFlushSize = 2
	n := verifChoose("body.length", verifBound("maxBody")+1)
	body := verifBytes("body", n)
	r := NewGZipCompressReader(&vSrc{data: body})
	var out [16]byte
	got := 0
	reads := 0
	for reads < 12 {
		size := verifChoose("read.size", 3) + 1
		var p [3]byte
		m, err := r.Read(p[:size])
		verifAssert(m >= 0 && m <= size, "read-count-within-the-buffer")
		for i := 0; i < m; i++ {
			verifAssert(got < n+1, "no-more-bytes-than-the-compressor-produced")
			if got < 16 {
				out[got] = p[i]
			}
			got++
		}
		reads++
		if err != nil {
			verifAssert(err == io.EOF, "only-EOF")
			break
		}
		if m == 0 && got >= n+1 {
			break
		}
	}
	verifAssert(got == n+1, "the-whole-compressed-stream-is-delivered")
	for i := 0; i < n; i++ {
		verifAssert(out[i] == body[i], "compressed-stream-delivered-in-order-without-loss-or-repetition")
	}
	verifAssert(out[n] == 0xEE, "stream-ends-with-the-compressors-trailer")
	if n > 2 {
		verifCover("body-spans-several-flushes")
	}
}
