package proxy

import (
	"crypto/tls"
	"crypto/x509"
	"encoding/base64"
	"net/http"
)

// Stubs (as in the C11 proxy harness): base64 = identity, the key pair keeps the bytes it was
// given, the CA pool accepts them.
func vC03X509KeyPair(certPEM, keyPEM []byte) (tls.Certificate, error) {
	return tls.Certificate{Certificate: [][]byte{certPEM, keyPEM}}, nil
}
func vC03B64(e *base64.Encoding, s string) ([]byte, error) { return []byte(s), nil }
func vC03AppendCerts(p *x509.CertPool, pem []byte) bool    { return true }

// C03, the HTTP client the Proxy sends with (package proxy): "the client receives the backend's
// status, end-to-end headers and body". net/http's Client follows a 3xx answer by itself - it
// issues further requests the client never made and returns the LAST answer - unless its
// CheckRedirect hook returns http.ErrUseLastResponse. The pool harnesses replace the transport
// (fnSendRequest), so this contract of the library is decided here on the client that the real
// Init/reload builds: for every redirect status, with and without mTLS / compression, the hook is
// installed and answers ErrUseLastResponse for any request and any chain of earlier requests.
func verifC03_RedirectAnswers() {
	urls := []string{"http://10.0.0.1:80", "https://backend.example:8443"}
	s := &Spec{Pools: []*ServerPoolSpec{{Servers: []*Server{{URL: urls[verifChoose("server", 2)]}}}}}
	s.BaseSpec.MetaSpec.Name, s.BaseSpec.MetaSpec.Kind = "proxy", "Proxy"
	if verifBool("mtls") {
		s.MTLS = &MTLS{CertBase64: "c1", KeyBase64: "k1", RootCertBase64: "r"}
		verifCover("client-with-mtls")
	}
	if verifBool("compression") {
		s.Compression = &CompressionSpec{MinLength: 1}
	}
	p := &Proxy{spec: s}
	p.Init()
	if verifBool("second-generation") {
		p2 := &Proxy{spec: s}
		p2.Inherit(p)
		p = p2
		verifCover("inherited-generation")
	}
	c := p.client
	verifAssert(c != nil, "proxy-has-a-client")
	verifAssert(c.CheckRedirect != nil, "redirect-answers-are-forwarded-not-followed")
	methods := []string{"GET", "POST", "HEAD"}
	req := &http.Request{Method: methods[verifChoose("method", 3)], Header: http.Header{}}
	via := make([]*http.Request, 1+verifChoose("earlier-requests", 2))
	for i := range via {
		via[i] = &http.Request{Method: "POST", Header: http.Header{}}
	}
	verifAssert(c.CheckRedirect(req, via) == http.ErrUseLastResponse, "redirect-answers-are-forwarded-not-followed")
	// no client-side limit on the whole exchange: stream bodies of any size/duration pass
	verifAssert(c.Timeout == 0, "client-imposes-no-overall-timeout-on-streams")
}
