package proxy

import (
	stdcontext "context"
	"errors"
	"github.com/megaease/easegress/pkg/object/serviceregistry"
	cache "github.com/patrickmn/go-cache"
	"io"
	"net/http"
	"net/url"
	"strconv"
	"time"

	gohttpstat "github.com/tcnksm/go-httpstat"

	"github.com/megaease/easegress/pkg/context"
	"github.com/megaease/easegress/pkg/protocols/httpprot"
	"github.com/megaease/easegress/pkg/resilience"
	"github.com/megaease/easegress/pkg/tracing"
	"github.com/megaease/easegress/pkg/util/readers"
)

// ---------------------------------------------------------------------------
// Proxy pool harnesses (C03, C07 response side, C08 proxy mapping, C10 layer 2),
// package proxy: the REAL ServerPool.handle / doHandle / prepareRequest /
// cloneHeader / buildResponse / compression / Response.FetchPayload /
// resilience wrappers, with a harness transport (fnSendRequest).
// ---------------------------------------------------------------------------

type vBody struct {
	data   []byte
	pos    int
	closed bool
}

func (b *vBody) Read(p []byte) (int, error) {
	if b.pos >= len(b.data) {
		return 0, io.EOF
	}
	n := copy(p, b.data[b.pos:])
	b.pos += n
	return n, nil
}
func (b *vBody) Close() error { b.closed = true; return nil }

// what the transport saw
type vSent struct {
	method, url, host string
	header            http.Header
	body              []byte
	ctxErr            error
	declaredLen       int64
}

var (
	vSends    [8]vSent
	vNSends   int
	vOutcome  func(attempt int) (*http.Response, error)
	vDeadline bool // the pool timeout has elapsed (set by the transport stub)
)

func vSend(r *http.Request, client *http.Client) (*http.Response, error) {
	s := vSent{method: r.Method, url: r.RequestURI, host: r.Host, header: r.Header, declaredLen: r.ContentLength}
	if r.Body != nil {
		s.body, _ = io.ReadAll(r.Body)
	}
	vSends[vNSends] = s
	vNSends++
	return vOutcome(vNSends - 1)
}

// vNewRequest replaces http.NewRequestWithContext (URL parsing is out of reach):
// the assembled URL text is kept in RequestURI for the oracle.
func vNewRequest(ctx stdcontext.Context, method, u string, body io.Reader) (*http.Request, error) {
	r := &http.Request{Method: method, RequestURI: u, Header: http.Header{}, URL: &url.URL{}}
	if body != nil {
		if rc, ok := body.(io.ReadCloser); ok {
			r.Body = rc
		} else {
			r.Body = io.NopCloser(body)
		}
	}
	return r.WithContext(ctx), nil
}

func vWithHTTPStat(ctx stdcontext.Context, r *gohttpstat.Result) stdcontext.Context { return ctx }
func vMetaReq(r *httpprot.Request) int64                                            { return 0 }
func vMetaResp(r *httpprot.Response) int64                                          { return 0 }
func vFastNow() time.Time                                                           { return time.Time{} }
func vFastSince(t time.Time) time.Duration                                          { return 0 }
func vTimeNow() time.Time                                                           { return time.Time{} }
func vTimeSince(t time.Time) time.Duration                                          { return 0 }

// a compressor delivers some number of bytes unrelated to its input
type vGzip struct {
	in   io.Reader
	out  []byte
	pos  int
	done bool
}

func (g *vGzip) Read(p []byte) (int, error) {
	if !g.done {
		io.Copy(io.Discard, g.in)
		g.done = true
	}
	if g.pos >= len(g.out) {
		return 0, io.EOF
	}
	n := copy(p, g.out[g.pos:])
	g.pos += n
	return n, nil
}
func (g *vGzip) Close() error { return nil }

var vGzipLen int
var vGzips = map[*readers.GZipCompressReader]*vGzip{}

var vGzipOut []byte

var vGzipCalls int

func vNewGzip(r io.Reader) *readers.GZipCompressReader {
	vGzipCalls++
	g := &readers.GZipCompressReader{}
	vGzipOut = verifBytes("gzipOutput", vGzipLen)
	vGzips[g] = &vGzip{in: r, out: vGzipOut}
	return g
}
func vGzipRead(g *readers.GZipCompressReader, p []byte) (int, error) { return vGzips[g].Read(p) }
func vGzipClose(g *readers.GZipCompressReader)                       {}

// deadline context for the pool timeout
type vTimeoutCtx struct {
	stdcontext.Context
}

func (c *vTimeoutCtx) Err() error {
	if vDeadline {
		return stdcontext.DeadlineExceeded
	}
	return c.Context.Err()
}

func vWithTimeout(parent stdcontext.Context, d time.Duration) (stdcontext.Context, stdcontext.CancelFunc) {
	ctx, cancel := stdcontext.WithCancel(parent)
	vDeadline = false // a fresh deadline for this attempt
	return &vTimeoutCtx{ctx}, cancel
}

func vAfter(d time.Duration) <-chan time.Time {
	ch := make(chan time.Time, 1)
	ch <- time.Time{}
	return ch
}

func vRandIntn(n int) int { return 0 }

var vHop = []string{"Connection", "Proxy-Connection", "Keep-Alive", "Proxy-Authenticate", "Proxy-Authorization", "Te", "Trailer", "Transfer-Encoding", "Upgrade"}

func vBytesEq(a, b []byte) bool {
	if len(a) != len(b) {
		return false
	}
	for i := range a {
		if a[i] != b[i] {
			return false
		}
	}
	return true
}

func vPool(poolLimit, proxyLimit int64) (*ServerPool, *Server) {
	svr := &Server{URL: "http://10.0.0.1:8080"}
	if vSymbolicRequest {
		svr.KeepHost = verifBool("server.keepHost")
		svr.addrIsHostName = verifBool("server.addrIsHostName")
	}
	p := &Proxy{spec: &Spec{ServerMaxBodySize: proxyLimit}}
	verifInitMaps(p) // maps a bypassed constructor would have made
	sp := &ServerPool{proxy: p, spec: &ServerPoolSpec{ServerMaxBodySize: poolLimit, Servers: []*Server{svr}}, name: "pool", failureCodes: map[int]struct{}{}}
	verifInitMaps(sp) // maps a bypassed constructor would have made
	sp.loadBalancer.Store(NewLoadBalancer(&LoadBalanceSpec{}, sp.spec.Servers))
	return sp, svr
}

var vSymbolicRequest = true

var vWellKnown string
var vMethodOverride string
var vWellKnownHeaders = [][2]string{{"Expect", "100-continue"}, {"Authorization", "Basic dTpw"}, {"Cookie", "a=b"},
	{"Content-Type", "text/plain"}, {"Range", "bytes=0-1"}, {"If-None-Match", "\"e\""}, {"Cache-Control", "no-cache"}}

func vClientRequest(body []byte, stream bool) (*context.Context, *httpprot.Request, *http.Request) {
	path, query, hv, method := "/p", "q=1", "v", "POST"
	if vSymbolicRequest {
		path = verifString("req.path", 2)
		query = verifString("req.rawQuery", 2)
		hv = verifString("req.header", 2)
		method = []string{"GET", "POST", "PUT"}[verifChoose("req.method", 3)]
	}
	if !vSymbolicRequest && vMethodOverride != "" {
		method = vMethodOverride
	}
	hdr := http.Header{"X-End-To-End": []string{hv}, "Accept-Encoding": []string{"gzip"}}
	vWellKnown = ""
	if vSymbolicRequest {
		// one of the well-known END-TO-END fields a proxy might be tempted to treat specially
		k := verifChoose("req.wellKnownEndToEndHeader", len(vWellKnownHeaders))
		vWellKnown = vWellKnownHeaders[k][0]
		hdr[vWellKnown] = []string{vWellKnownHeaders[k][1]}
	}
	std := &http.Request{Method: method, Host: "client.host",
		URL: &url.URL{Path: path, RawQuery: query}, Header: hdr, Proto: "HTTP/1.1"}
	std = std.WithContext(stdcontext.Background())
	req := &httpprot.Request{Request: std}
	if stream {
		req.SetPayload(&vBody{data: body})
	} else {
		req.SetPayload(body)
	}
	ctx := context.New(tracing.NoopSpan)
	ctx.SetRequest(context.DefaultNamespace, req)
	return ctx, req, std
}

func vLimit(label string) int64 {
	switch verifChoose(label+".kind", 3) {
	case 0:
		return 0
	case 1:
		return -1
	}
	return verifInt(label, 1, int64(verifBound("maxLimit")))
}

// verifC03_Forward: request assembly, hop-by-hop stripping, response fidelity,
// framing under compression, response body limits (pool over proxy over 4MB).
func verifC03_Request()  { vForward(true) }
func verifC03_Response() { vForward(false) }

func vForward(requestSide bool) {
	vSymbolicRequest = requestSide
	var poolLimit, proxyLimit int64
	if !requestSide {
		poolLimit, proxyLimit = vLimit("poolLimit"), vLimit("proxyLimit")
	}
	sp, svr := vPool(poolLimit, proxyLimit)
	compress := !requestSide && verifBool("compression")
	if compress {
		sp.proxy.compression = newCompression(&CompressionSpec{MinLength: uint32(verifInt("compression.minLength", 0, 4))})
		vGzipLen = verifChoose("gzipOutputLength", verifBound("maxBody")+2)
	}
	reqBody := verifBytes("req.body", verifChoose("req.bodyLength", 3))
	// stream mode: the payload is a reader; the length the client declared need not be the
	// length of that stream (a RequestAdaptor in front may have replaced the body)
	// (on the response side too: whether the REQUEST was streamed says nothing about how much of
	// the response may be buffered)
	stream := (requestSide || !compress) && verifBool("req.stream")
	ctx, req, std := vClientRequest(reqBody, stream)
	if stream {
		std.ContentLength = verifInt("req.clientDeclaredLength", -1, 3)
		verifCover("request-stream-mode")
	}
	// hop-by-hop headers: a subset of the fixed ones, plus one named by Connection
	// one of the fixed hop-by-hop headers, or all of them
	// (their values include the ones other proxies treat specially, e.g. "TE: trailers")
	hopValue := "x"
	if requestSide {
		hopValue = []string{"x", "trailers", "gzip, trailers"}[verifChoose("req.hopHeaderValue", 3)]
	}
	if k := verifChoose("req.hopHeader", len(vHop)); k == 0 {
		for _, h := range vHop[1:] {
			std.Header[h] = []string{hopValue}
		}
	} else {
		std.Header[vHop[k]] = []string{hopValue}
	}
	named := requestSide && verifBool("req.connectionNamesHeader")
	if named {
		// the header is named by the first or by a later Connection field line
		if verifBool("req.connectionRepeated") {
			std.Header["Connection"] = []string{"keep-alive", " x-custom "}
			verifCover("repeated-connection-header")
		} else {
			std.Header["Connection"] = []string{" x-custom ,keep-alive"}
		}
		std.Header["X-Custom"] = []string{"c"}
	}

	m := 1
	if !requestSide {
		m = verifChoose("resp.bodyLength", verifBound("maxBody")+1)
	}
	respBody := &vBody{data: verifBytes("resp.body", m)}
	declared := int64(m)
	chunked := !requestSide && verifBool("resp.chunked")
	status := 200
	if !requestSide {
		status = int(verifInt("resp.status", 200, 599))
	}
	// the backend may label its body with a content coding of its own
	backendCE := ""
	if !requestSide {
		codings := []string{"", "gzip", "br", "deflate, gzip", "GZIP", "x-gzip"}
		backendCE = codings[verifChoose("resp.contentEncoding", verifBound("contentCodings"))]
	}
	// the pool may keep a memory cache of responses (the cache itself - the go-cache library - is
	// replaced by one that never hits): storing a response must not disturb its delivery,
	// buffered or streamed
	if !requestSide && !compress && !stream && verifBool("pool.memoryCache") {
		sp.memoryCache = &MemoryCache{spec: &MemoryCacheSpec{Expiration: "10s", MaxEntryBytes: 2, Codes: []int{200, 404}, Methods: []string{"GET", "POST", "PUT"}},
			cache: &cache.Cache{}}
		verifCover("pool-with-memory-cache")
	}
	// the pool lists 503 among its failureCodes: a backend answer with that status is reported
	// with result failureCode, and is still the backend's answer (status, headers, body)
	if !requestSide {
		sp.failureCodes[503] = struct{}{}
	}
	vNSends, vGzipCalls = 0, 0
	// the media type of the backend's answer (varied for plain, uncoded answers)
	respCT := ""
	if !requestSide && !compress && backendCE == "" {
		respCT = []string{"", "text/event-stream", "application/grpc"}[verifChoose("resp.contentType", 3)]
	}
	vOutcome = func(int) (*http.Response, error) {
		h := http.Header{"X-Backend": []string{"b"}, "Vary": []string{"Origin"}, "Etag": []string{"\"abc\""}}
		if backendCE != "" {
			h.Set("Content-Encoding", backendCE)
		}
		if respCT != "" {
			h.Set("Content-Type", respCT)
		}
		cl := declared
		if chunked {
			cl = -1
		} else {
			h.Set("Content-Length", strconv.Itoa(m))
		}
		return &http.Response{StatusCode: status, Header: h, Body: respBody, ContentLength: cl}, nil
	}
	fnSendRequest = vSend
	result := sp.handle(ctx, false)

	// ---- what the backend received
	verifAssert(vNSends == 1, "exactly-one-request-sent")
	s := vSends[0]
	wantURL := svr.URL + req.Path()
	if std.URL.RawQuery != "" {
		wantURL += "?" + std.URL.RawQuery
	}
	verifAssert(s.method == std.Method && s.url == wantURL, "backend-gets-method-path-query")
	verifAssert(vBytesEq(s.body, reqBody), "backend-gets-body")
	// framing of the forwarded request: a declared length (0 / -1 = not declared, the transport
	// then sends chunked) must be the number of body bytes actually sent
	verifAssert(s.declaredLen <= 0 || s.declaredLen == int64(len(reqBody)), "forwarded-request-length-matches-body")
	if !svr.addrIsHostName || svr.KeepHost {
		verifAssert(s.host == "client.host", "client-host-for-ip-or-keephost-servers")
	} else {
		verifAssert(s.host == "", "server-host-name-otherwise")
		verifCover("host-not-kept")
	}
	for _, h := range vHop {
		_, present := s.header[h]
		verifAssert(!present, "hop-by-hop-header-stripped")
	}
	if named {
		_, present := s.header["X-Custom"]
		verifAssert(!present, "header-named-by-connection-stripped")
		verifCover("connection-named-header")
	}
	e2e := s.header["X-End-To-End"]
	verifAssert(len(e2e) == 1 && e2e[0] == std.Header["X-End-To-End"][0], "end-to-end-header-forwarded")
	verifAssert(len(std.Header["X-End-To-End"]) == 1, "client-request-headers-not-modified")
	if vWellKnown != "" {
		got := s.header[vWellKnown]
		verifAssert(len(got) == 1 && got[0] == std.Header[vWellKnown][0], "end-to-end-header-forwarded")
		if vWellKnown == "Expect" {
			verifCover("expect-header-forwarded")
		}
	}

	// ---- what the client gets
	effective := poolLimit
	if effective == 0 {
		effective = proxyLimit
	}
	if effective == 0 {
		effective = httpprot.DefaultMaxPayloadSize
	}
	resp, _ := ctx.GetOutputResponse().(*httpprot.Response)
	verifAssert(resp != nil, "a-response-is-always-set")
	// whether the proxy compresses is observed (the compressor was created); for a body without
	// a coding of its own the decision is the documented one
	compressed := vGzipCalls > 0
	verifAssert(vGzipCalls <= 1, "compressed-at-most-once")
	if backendCE == "" {
		verifAssert(compressed == (compress && (chunked || declared >= int64(sp.proxy.compression.spec.MinLength))), "compression-decision")
	}
	if !compress {
		verifAssert(!compressed, "no-compression-unless-configured")
	}
	bodyLen := int64(m)
	if compressed {
		bodyLen = int64(vGzipLen)
	}
	tooLarge := effective >= 0 && bodyLen > effective
	if tooLarge {
		verifAssert(result == resultInternalError && resp.StatusCode() == 500, "oversized-response-withheld-5xx")
		verifCover("response-too-large")
		return
	}
	if !requestSide && status == 503 {
		verifAssert(result == resultFailureCode, "failure-code-status-reported-as-failureCode")
		verifCover("failure-code-response-passed-on")
	} else {
		verifAssert(result == "", "well-formed-backend-response-is-not-a-proxy-error")
	}
	verifAssert(resp.StatusCode() == status, "client-gets-backend-status")
	verifAssert(resp.HTTPHeader().Get("X-Backend") == "b", "client-gets-backend-headers")
	// a header the proxy itself adds to (Vary, when it compresses) keeps the backend's values
	keptVary := false
	for _, v := range resp.HTTPHeader().Values("Vary") {
		if v == "Origin" {
			keptVary = true
		}
	}
	verifAssert(keptVary, "client-gets-backend-headers")
	// validators and other end-to-end headers arrive as the backend sent them, compressed or not
	verifAssert(resp.HTTPHeader().Get("Etag") == "\"abc\"", "client-gets-backend-headers")
	got, _ := io.ReadAll(resp.GetPayload())
	// the codings the client is told to undo: the backend's own, plus gzip last iff the proxy
	// compressed - undoing them in reverse order must give back the backend's content
	gotCE := ""
	for i, v := range resp.HTTPHeader().Values("Content-Encoding") {
		if i > 0 {
			gotCE += ", "
		}
		gotCE += v
	}
	if compressed {
		wantCE := "gzip"
		if backendCE != "" {
			wantCE = backendCE + ", gzip"
		}
		verifAssert(gotCE == wantCE, "compressed-response-labelled-with-every-coding-applied")
		verifAssert(vBytesEq(got, vGzipOut), "client-gets-the-whole-compressed-stream")
		verifCover("compressed")
	} else {
		verifAssert(gotCE == backendCE, "backend-content-coding-label-kept")
		verifAssert(vBytesEq(got, respBody.data), "client-gets-backend-body")
		if backendCE != "" {
			verifCover("backend-coded-body-passed-through")
		}
	}
	if cl := resp.HTTPHeader().Get("Content-Length"); cl != "" {
		verifAssert(cl == strconv.Itoa(len(got)), "declared-content-length-equals-body-bytes")
	}
	if effective < 0 {
		verifCover("streamed")
	}
	verifCover("forwarded")
}

// verifC03_DiscoveredHost: the Host rule for servers that come from service discovery (built by
// the real useService from the registry's report, classified by the real checkAddrPattern): an
// instance addressed by IP gets the client's Host, an instance addressed by host name gets its own.
func verifC03_DiscoveredHost() {
	vSymbolicRequest = false
	sp, _ := vPool(0, 0)
	sp.spec.ServerTags = []string{"blue"}
	byName := verifChoose("instance.addressedByHostName", 2) == 1
	addr := "10.1.0.7"
	if byName {
		addr = "users.backend.internal"
	}
	sp.useService(map[string]*serviceregistry.ServiceInstanceSpec{
		"i0": {InstanceID: "i0", Address: addr, Port: 8080, Tags: []string{"blue"}},
	})
	vNSends, vGzipCalls = 0, 0
	vOutcome = func(int) (*http.Response, error) {
		return &http.Response{StatusCode: 200, Header: http.Header{}, Body: &vBody{}, ContentLength: 0}, nil
	}
	fnSendRequest = vSend
	ctx, _, _ := vClientRequest([]byte{1}, false)
	sp.handle(ctx, false)
	verifAssert(vNSends == 1, "exactly-one-request-sent")
	s := vSends[0]
	want := "http://" + addr + ":8080/p?q=1"
	verifAssert(s.url == want, "request-goes-to-the-discovered-instance")
	if byName {
		verifAssert(s.host == "", "server-host-name-otherwise")
		verifCover("discovered-host-name-server")
	} else {
		verifAssert(s.host == "client.host", "client-host-for-ip-or-keephost-servers")
	}
}

var errNet = errors.New("network error")

// vLaterDeadlineCtx: a request context whose own deadline is one hour away (on the harness clock)
type vLaterDeadlineCtx struct{ stdcontext.Context }

func (c vLaterDeadlineCtx) Deadline() (time.Time, bool) {
	var t time.Time
	verifSetField(&t, "wall", uint64(1<<63|(4000000000<<30)))
	verifSetField(&t, "ext", int64(time.Hour))
	return t, true
}

// verifC10_Pool: retry, time limit and circuit breaker at the pool level.
func verifC10_Pool() {
	vSymbolicRequest = false
	sp, _ := vPool(0, 0)
	maxAttempts := verifChoose("retry.maxAttempts", verifBound("maxAttempts")) + 1
	hasRetry, hasBreaker := verifBool("hasRetryPolicy"), verifBool("hasCircuitBreaker")
	if hasRetry {
		sp.retryWrapper = (&resilience.RetryPolicy{MaxAttempts: maxAttempts, WaitDuration: "1ms"}).CreateWrapper()
	}
	var cbw resilience.Wrapper
	if hasBreaker {
		cbw = (&resilience.CircuitBreakerPolicy{FailureRateThreshold: 50, SlowCallRateThreshold: 100, SlidingWindowSize: 2,
			MinimumNumberOfCalls: 2, PermittedNumberOfCallsInHalfOpen: 1, WaitDurationInOpen: "1h", SlowCallDurationThreshold: "1h"}).CreateWrapper()
		sp.circuitBreakerWrapper = cbw
	}
	sp.failureCodes[503] = struct{}{}
	hasTimeout := verifBool("hasTimeout")
	if hasTimeout {
		sp.timeout = time.Second
	}
	stream := verifBool("req.stream")
	vMethodOverride = ""
	if stream && verifBool("req.streamedBodyOnASafeMethod") {
		// a streamed body is a stream whatever the method (a GET may carry one)
		vMethodOverride = "GET"
		verifCover("streamed-body-on-a-safe-method")
	}
	fnSendRequest = vSend

	requests := verifBound("clientRequests")
	failedRequests := 0
	// reference breaker (count-based window 2, minimum 2, threshold 50%, wait 1h under a
	// constant clock): open once the last two recorded client requests contain a failure
	breakerOpen := false
	var recorded []bool
	// service discovery may replace the server list while the first attempt of the first request
	// is under way: every later attempt goes to a server of the list that is current then
	replaced := hasRetry && verifBool("discoveryReplacesTheServerListDuringTheFirstAttempt")
	newServer := &Server{URL: "http://10.0.0.2:8080"}
	currentURL := "http://10.0.0.1:8080"
	// the client's own request may carry a deadline that lies far beyond the pool timeout: the
	// pool timeout applies all the same
	clientDeadline := hasTimeout && verifBool("clientRequestHasALaterDeadlineOfItsOwn")
	for k := 0; k < requests; k++ {
		ctx, creq, _ := vClientRequest([]byte{1, 2}, stream)
		if clientDeadline {
			creq.Request = creq.Request.WithContext(vLaterDeadlineCtx{stdcontext.Background()})
			verifCover("client-deadline-later-than-the-pool-timeout")
		}
		vNSends, vDeadline = 0, false
		var outcomes [8]int // 0 success, 1 failure code, 2 network error, 3 timeout
		var listAtAttempt [8]string
		vOutcome = func(attempt int) (*http.Response, error) {
			no := 3
			if hasTimeout {
				no = 4
			}
			listAtAttempt[attempt] = currentURL
			if replaced && k == 0 && attempt == 0 {
				sp.createLoadBalancer([]*Server{newServer})
				currentURL = newServer.URL
			}
			o := verifChoose("attemptOutcome", no)
			outcomes[attempt] = o
			switch o {
			case 0:
				return &http.Response{StatusCode: 200, Header: http.Header{}, Body: &vBody{}, ContentLength: 0}, nil
			case 1:
				return &http.Response{StatusCode: 503, Header: http.Header{}, Body: &vBody{}, ContentLength: 0}, nil
			case 3:
				vDeadline = true
				return nil, stdcontext.DeadlineExceeded
			}
			return nil, errNet
		}
		result := sp.handle(ctx, false)
		resp, _ := ctx.GetOutputResponse().(*httpprot.Response)
		verifAssert(resp != nil, "a-response-is-always-set")
		if hasBreaker && breakerOpen {
			// buffered or stream, with or without retry: an open breaker lets nothing through
			verifAssert(result == resultShortCircuited, "open-breaker-short-circuits-every-call")
		}
		if result == resultShortCircuited {
			verifAssert(hasBreaker && vNSends == 0 && resp.StatusCode() == 503, "short-circuited-call-contacts-no-server-503")
			// the breaker (window 2, minimum 2, threshold 50%) records one outcome per client request
			verifAssert(failedRequests >= 1 && k >= 2, "breaker-counts-client-requests-not-attempts")
			verifCover("short-circuited")
			continue
		}
		verifAssert(vNSends >= 1, "at-least-one-attempt")
		for a := 0; a < vNSends; a++ {
			u := vSends[a].url
			want := listAtAttempt[a]
			verifAssert(len(u) >= len(want) && u[:len(want)] == want, "every-attempt-goes-to-a-server-of-the-current-list")
			if a > 0 && replaced && k == 0 {
				verifCover("retry-after-the-list-was-replaced")
			}
		}
		if result != "" {
			failedRequests++
		}
		recorded = append(recorded, result != "")
		if n := len(recorded); n >= 2 && (recorded[n-1] || recorded[n-2]) {
			breakerOpen = true
		}
		limit := 1
		if hasRetry && !stream {
			limit = maxAttempts
		}
		verifAssert(vNSends <= limit, "attempts-bounded-and-streams-never-resent")
		last := outcomes[vNSends-1]
		for a := 0; a < vNSends-1; a++ {
			verifAssert(outcomes[a] != 0, "no-attempt-after-a-success")
		}
		if last != 0 && hasRetry && !stream {
			verifAssert(vNSends == maxAttempts, "all-attempts-used-before-giving-up")
		}
		switch last {
		case 0:
			verifAssert(result == "" && resp.StatusCode() == 200, "client-sees-last-attempt-success")
			if vNSends > 1 {
				verifCover("succeeded-after-retry")
			}
		case 1:
			verifAssert(result == resultFailureCode && resp.StatusCode() == 503, "client-sees-last-attempt-failure-code")
		case 2:
			verifAssert(result == resultServerError && resp.StatusCode() == 503, "client-sees-last-attempt-network-error")
		case 3:
			verifAssert(result == resultTimeout && resp.StatusCode() == 408, "timeout-yields-408-result-timeout")
			verifCover("timeout")
		}
	}
}

// verifC03_ServerAddr: which Host a server gets depends on whether its URL is IP-addressed.
// The REAL Server.checkAddrPattern (url.Parse executed by the engine, net.ParseIP native) over
// every combination of scheme x host shape x port; the expected answer comes from the table.
func verifC03_ServerAddr() {
	type hostShape struct {
		text string
		isIP bool
		v6   bool
	}
	hosts := []hostShape{
		{"10.0.0.1", true, false}, {"255.255.255.255", true, false}, {"::1", true, true}, {"2001:db8::1", true, true},
		{"fe80::1:2:3", true, true}, {"example.com", false, false}, {"localhost", false, false},
		{"10.0.0.256", false, false}, {"a1.2.3.4", false, false}, {"1.2.3", false, false},
	}
	h := hosts[verifChoose("server.hostShape", len(hosts))]
	scheme := []string{"http", "https"}[verifChoose("server.scheme", 2)]
	port := []string{"", ":80", ":8080"}[verifChoose("server.port", 3)]
	text := h.text
	if h.v6 {
		text = "[" + text + "]"
	}
	svr := &Server{URL: scheme + "://" + text + port}
	svr.checkAddrPattern()
	verifAssert(svr.addrIsHostName == !h.isIP, "server-is-ip-addressed-iff-its-host-is-an-ip-literal")
	if h.v6 && port == "" {
		verifCover("bracketed-ipv6-without-port")
	}
	if !h.isIP {
		verifCover("host-name")
	}
}

func vGoCacheGet(c *cache.Cache, k string) (interface{}, bool)             { return nil, false }
func vGoCacheSet(c interface{}, k string, x interface{}, d time.Duration) {}

// verifC11_ClosedPoolServes (C11, registered there): "a request that already holds the old
// generation still completes" through a Proxy - an update closes the pools of the old generation
// (it stops following the service registry); a request that took the old generation just before
// is still forwarded to the servers the pool last knew.
func verifC11_ClosedPoolServes() {
	vSymbolicRequest = false
	sp, _ := vPool(0, 0)
	sp.done = make(chan struct{})
	fnSendRequest = vSend
	vOutcome = func(attempt int) (*http.Response, error) {
		return &http.Response{StatusCode: 200, Header: http.Header{"X-Backend": []string{"b"}}, Body: &vBody{data: []byte{7}}, ContentLength: 1}, nil
	}
	ctx, _, _ := vClientRequest([]byte{1}, false)
	if verifBool("generation-closed-by-an-update-while-the-request-holds-it") {
		sp.close()
		verifCover("old-generation-closed")
	}
	vNSends = 0
	result := sp.handle(ctx, false)
	resp, _ := ctx.GetOutputResponse().(*httpprot.Response)
	verifAssert(result == "" && vNSends == 1 && resp != nil && resp.StatusCode() == 200, "request-holding-the-old-generation-still-completes")
}
