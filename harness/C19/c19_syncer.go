package cluster

import (
	"context"
	"errors"
	"math"
	"time"

	"github.com/megaease/easegress/pkg/option"

	"go.etcd.io/etcd/api/v3/etcdserverpb"
	"go.etcd.io/etcd/api/v3/mvccpb"
	clientv3 "go.etcd.io/etcd/client/v3"
)

// ---------------------------------------------------------------------------
// C19 harness, package cluster: the REAL syncer.run / pull / isDataEqual /
// isKeyValueEqual / SyncPrefix / Sync against a harness store. The etcd watch is
// a harness channel on which the writer may or may not announce each write
// (lost events), or announce a cancelled watch; the periodic pull is a harness
// ticker. Every schedule of syncer vs. writer within the preemption bound.
// ---------------------------------------------------------------------------

type vWatcher struct{ closed int }

func (w *vWatcher) Watch(ctx context.Context, key string, opts ...clientv3.OpOption) clientv3.WatchChan {
	return nil
}
func (w *vWatcher) RequestProgress(ctx context.Context) error { return nil }
func (w *vWatcher) Close() error                              { w.closed++; return nil }

var (
	vStoreKV    map[string]string // the etcd key space
	vStoreRev   map[string]int64  // mod revision of each key
	vRevision   int64
	vWatchCh    chan clientv3.WatchResponse
	vTickCh     chan time.Time
	vPullFails  bool // the server is down: pulls fail
	vWatchCount int
)

func vWatch(s *syncer, key string, prefix bool) (clientv3.Watcher, clientv3.WatchChan) {
	vWatchCount++
	return &vWatcher{}, vWatchCh
}

// vBytes: as the etcd client decodes it - an empty value is a nil byte slice
func vBytes(v string) []byte {
	if v == "" {
		return nil
	}
	return []byte(v)
}

func vHasPrefix(k, p string) bool { return len(k) >= len(p) && k[:len(p)] == p }

// etcd's per-key bookkeeping: Version counts the modifications since the key was (re-)created
// (1 for a fresh key, so a delete followed by a re-creation starts again at 1), CreateRevision
// is the revision of that creation.
var (
	vStoreVer    = map[string]int64{}
	vStoreCreate = map[string]int64{}
)

func vPut(k, v string) {
	vRevision++
	if _, ok := vStoreKV[k]; !ok {
		vStoreVer[k], vStoreCreate[k] = 0, vRevision
	}
	vStoreKV[k] = v
	vStoreRev[k] = vRevision
	vStoreVer[k]++
	vRecordHistory()
}

func vDel(k string) {
	if _, ok := vStoreKV[k]; ok {
		vRevision++
	}
	delete(vStoreKV, k)
	delete(vStoreRev, k)
	delete(vStoreVer, k)
	delete(vStoreCreate, k)
	vRecordHistory()
}

func vKV(k, v string) *mvccpb.KeyValue {
	return &mvccpb.KeyValue{Key: []byte(k), Value: vBytes(v), ModRevision: vStoreRev[k], Version: vStoreVer[k], CreateRevision: vStoreCreate[k]}
}

// ---- the etcd client's key-value API over the harness store -------------------------------
// The REAL cluster.GetRaw / GetRawPrefix run; what they call - clientv3's KV.Get - answers from
// the harness store, honouring the options the real clientv3.OpGet computes (prefix range end,
// revision). Reads at a revision are served from the history of the store.
type vKVSnap struct {
	val                 string
	mod, ver, createRev int64
}

var vHistory = map[int64]map[string]vKVSnap{} // store content after each revision

func vRecordHistory() {
	snap := map[string]vKVSnap{}
	for k, v := range vStoreKV {
		snap[k] = vKVSnap{v, vStoreRev[k], vStoreVer[k], vStoreCreate[k]}
	}
	vHistory[vRevision] = snap
}

type vEtcdKV struct{}

func (vEtcdKV) Get(ctx context.Context, key string, opts ...clientv3.OpOption) (*clientv3.GetResponse, error) {
	if vPullFails {
		return nil, errors.New("etcd server unavailable")
	}
	op := clientv3.OpGet(key, opts...)
	lo, hi := string(op.KeyBytes()), string(op.RangeBytes())
	content := map[string]vKVSnap{}
	rev := op.Rev()
	// etcd contract: a SERIALIZABLE read is answered from the local state of whichever member
	// the client happens to talk to - a member that lags behind answers with an older content
	// (linearizable reads, the default, never do)
	if op.IsSerializable() && rev == 0 && vRevision > 1 && verifBool("serializable-read-answered-by-a-lagging-member") {
		rev = vRevision - 1
	}
	if rev > 0 && rev < vRevision {
		r := rev
		for r > 0 {
			if h, ok := vHistory[r]; ok {
				content = h
				break
			}
			r--
		}
	} else {
		for k, v := range vStoreKV {
			content[k] = vKVSnap{v, vStoreRev[k], vStoreVer[k], vStoreCreate[k]}
		}
	}
	resp := &clientv3.GetResponse{Header: &etcdserverpb.ResponseHeader{Revision: vRevision}}
	for k, e := range content {
		in := k == lo
		if hi != "" {
			in = k >= lo && k < hi
		}
		if in {
			resp.Kvs = append(resp.Kvs, &mvccpb.KeyValue{Key: []byte(k), Value: vBytes(e.val), ModRevision: e.mod, Version: e.ver, CreateRevision: e.createRev})
		}
	}
	resp.Count = int64(len(resp.Kvs))
	return resp, nil
}
func (vEtcdKV) Put(ctx context.Context, key, val string, opts ...clientv3.OpOption) (*clientv3.PutResponse, error) {
	panic("harness KV: Put is not used by the syncer")
}
func (vEtcdKV) Delete(ctx context.Context, key string, opts ...clientv3.OpOption) (*clientv3.DeleteResponse, error) {
	panic("harness KV: Delete is not used by the syncer")
}
func (vEtcdKV) Compact(ctx context.Context, rev int64, opts ...clientv3.CompactOption) (*clientv3.CompactResponse, error) {
	panic("harness KV: Compact is not used by the syncer")
}
func (vEtcdKV) Do(ctx context.Context, op clientv3.Op) (clientv3.OpResponse, error) {
	panic("harness KV: Do is not used by the syncer")
}
func (vEtcdKV) Txn(ctx context.Context) clientv3.Txn {
	panic("harness KV: Txn is not used by the syncer")
}

func vRequestContext(c *cluster) (context.Context, context.CancelFunc) {
	return context.Background(), func() {}
}

// ---- the client the cluster builds ----------------------------------------------------------
// A pull is ONE read that carries the whole content of the prefix, so convergence "for every
// content" needs a client that accepts whatever the store can hold: the etcd client's own
// default (MaxCallRecvMsgSize 0 = math.MaxInt32). In particular the limit on what one WRITE
// may carry (cluster.max-call-send-msg-size) must not bound what a read may return.
var vClientConfig *clientv3.Config

func vNewClient(cfg clientv3.Config) (*clientv3.Client, error) {
	vClientConfig = &cfg
	return &clientv3.Client{KV: vEtcdKV{}}, nil
}

func verifC19_ClientReadLimit() {
	opt := &option.Options{}
	opt.Cluster.MaxCallSendMsgSize = int(verifInt("max-call-send-msg-size", 1, 1<<30))
	opt.Cluster.InitialCluster = map[string]string{"m1": "http://127.0.0.1:2380"}
	c := &cluster{opt: opt, requestTimeout: time.Second}
	cl, err := c.getClient()
	verifAssert(err == nil && cl != nil && vClientConfig != nil, "client-is-built")
	verifAssert(vClientConfig.MaxCallSendMsgSize == opt.Cluster.MaxCallSendMsgSize, "write-limit-is-the-configured-one")
	verifAssert(vClientConfig.MaxCallRecvMsgSize == 0 || vClientConfig.MaxCallRecvMsgSize >= math.MaxInt32,
		"reads-are-not-bounded-below-what-the-store-may-hold")
	cl2, _ := c.getClient()
	verifAssert(cl2 == cl, "one-client-per-cluster-handle")
}

func vCluster() *cluster {
	return &cluster{client: &clientv3.Client{KV: vEtcdKV{}}, requestTimeout: time.Second}
}

func vNewTicker(d time.Duration) *time.Ticker { return &time.Ticker{C: vTickCh} }
func vTickerStop(t *time.Ticker)              {}

func vSnapshot(prefix string) map[string]string {
	out := map[string]string{}
	for k, v := range vStoreKV {
		if vHasPrefix(k, prefix) {
			out[k] = v
		}
	}
	return out
}

func vSameMap(a, b map[string]string) bool {
	if len(a) != len(b) {
		return false
	}
	for k, v := range a {
		if w, ok := b[k]; !ok || w != v {
			return false
		}
	}
	return true
}

func verifC19_SyncPrefix() {
	// the watched prefix, written with or without a trailing separator: "/p" also covers "/pb"
	prefix := []string{"/p/", "/p"}[verifChoose("prefixText", 2)]
	keys := []string{"/p/a", "/p/b", "/pb"}
	vals := []string{"v1", "v2"}
	vStoreKV, vStoreRev, vRevision = map[string]string{}, map[string]int64{}, 1
	vStoreVer, vStoreCreate = map[string]int64{}, map[string]int64{}
	vHistory = map[int64]map[string]vKVSnap{}
	// the store starts empty, with one key or with two keys under the prefix
	if n := verifChoose("initialKeysUnderThePrefix", 3); n >= 1 {
		vPut("/p/a", "v1")
		if n == 2 {
			vPut("/p/b", "v2")
		}
	}
	vWatchCh = make(chan clientv3.WatchResponse, 8)
	vTickCh = make(chan time.Time, 8)
	vPullFails, vWatchCount = false, 0

	var history [8]map[string]string
	history[0] = vSnapshot(prefix)
	nh := 1

	s := &syncer{cluster: vCluster(), client: &clientv3.Client{KV: vEtcdKV{}}, pullInterval: time.Second, done: make(chan struct{})}
	verifInitMaps(s) // maps a bypassed constructor would have made
	ch, _ := s.SyncPrefix(prefix)

	writes := verifBound("writes")
	cancels := 0
	for i := 0; i < writes; i++ {
		k := keys[verifChoose("write.key", 3)]
		if verifBool("write.deletesEverythingUnderThePrefix") {
			// one transaction (DeletePrefix, lease revocation): all keys vanish at once
			if len(history[nh-1]) >= 2 {
				verifCover("several-keys-vanish-at-once")
			}
			vDel("/p/a")
			vDel("/p/b")
		} else if verifBool("write.isDelete") {
			vDel(k)
		} else {
			vPut(k, vals[verifChoose("write.value", 2)])
		}
		history[nh] = vSnapshot(prefix)
		nh++
		switch verifChoose("write.announcement", 4) {
		case 0: // the watch delivers the event
			vWatchCh <- clientv3.WatchResponse{Header: etcdserverpb.ResponseHeader{Revision: vRevision}, Events: []*clientv3.Event{{}}}
		case 1: // the event is lost (server restarted, watch broken silently)
			verifCover("lost-event")
		case 2: // the watch is cancelled: the syncer must re-create it
			vWatchCh <- clientv3.WatchResponse{Canceled: true}
			cancels++
			verifCover("cancelled-watch")
		case 3: // the server is down for a while: a pull fails, then it is back
			vPullFails = true
			vWatchCh <- clientv3.WatchResponse{Header: etcdserverpb.ResponseHeader{Revision: vRevision}, Events: []*clientv3.Event{{}}}
			verifQuiesce()
			vPullFails = false
			verifCover("failed-pull")
		}
	}
	// writes have stopped; the server may still be down when the next periodic pull is due
	// (that pull fails), then one periodic pull happens with the server back
	verifQuiesce()
	if verifBool("serverDownAtTheNextPeriodicPull") {
		vPullFails = true
		verifAdvance(int64(time.Second))
		verifQuiesce()
		vPullFails = false
		verifCover("periodic-pull-failed")
	}
	verifAdvance(int64(time.Second)) // the pull interval passes: the syncer's timer is due
	verifQuiesce()

	// consume
	var got [16]map[string]string
	ng := 0
	for {
		select {
		case m := <-ch:
			got[ng] = m
			ng++
			continue
		default:
		}
		break
	}
	final := history[nh-1]
	// every snapshot is a content the store had, in non-decreasing store order; consecutive ones differ
	pos := 0
	for i := 0; i < ng; i++ {
		found := -1
		for j := pos; j < nh; j++ {
			if vSameMap(got[i], history[j]) {
				found = j
				break
			}
		}
		verifAssert(found >= 0, "snapshot-is-a-real-store-state-in-store-order")
		if found >= 0 {
			pos = found
		}
		if i > 0 {
			verifAssert(!vSameMap(got[i], got[i-1]), "consecutive-snapshots-differ")
		}
	}
	if len(history[0]) > 0 && ng >= 1 && vSameMap(got[0], history[0]) {
		verifCover("non-empty-start")
	}
	// convergence: the last delivery equals the final content (an initially empty and
	// finally empty store needs no delivery at all)
	if ng == 0 {
		// nothing was ever delivered: the consumer's view is the empty content
		verifAssert(len(final) == 0, "converges-to-the-final-content")
	} else {
		verifAssert(vSameMap(got[ng-1], final), "converges-to-the-final-content")
		verifCover("converged")
	}
	verifAssert(vWatchCount == 1+cancels, "cancelled-watch-is-re-created")
	if vWatchCount >= 2 {
		verifCover("watch-recreated")
	}
	s.Close()
}

// verifC19_SyncKey: the single-key adapter over a history of writes to the watched key, to a
// sibling key that has the watched key as a prefix, and to an unrelated key. Watch events
// (with their PUT/DELETE payload, as etcd sends them for the watched key only) may be lost or
// queue up behind each other and behind a periodic pull; the consumer reads at the end.
// Every delivered value is a value the key had, in store order, consecutive ones differ, the
// last one is the final value, and writes to other keys cause no delivery.
func verifC19_SyncKey() {
	const key = "/k"
	keys := []string{"/k", "/k2", "/x"}
	vals := []string{"v1", ""} // the empty string is a value like any other (absent is "<absent>")
	vStoreKV, vStoreRev, vRevision = map[string]string{}, map[string]int64{}, 1
	vStoreVer, vStoreCreate = map[string]int64{}, map[string]int64{}
	vHistory = map[int64]map[string]vKVSnap{}
	vWatchCh = make(chan clientv3.WatchResponse, 8)
	vTickCh = make(chan time.Time, 8)
	vPullFails, vWatchCount = false, 0
	s := &syncer{cluster: vCluster(), client: &clientv3.Client{KV: vEtcdKV{}}, pullInterval: time.Second, done: make(chan struct{})}
	verifInitMaps(s) // maps a bypassed constructor would have made
	ch, _ := s.Sync(key)
	verifQuiesce()

	// history of the watched key
	const absent = "<absent>"
	var history [8]string
	history[0] = absent
	nh := 1
	changes := 0
	writes := verifBound("writes")
	for i := 0; i < writes; i++ {
		k := keys[verifChoose("write.key", 3)]
		before, had := vStoreKV[key]
		var ev *clientv3.Event
		if verifBool("write.isDelete") {
			vDel(k)
			ev = &clientv3.Event{Type: mvccpb.DELETE, Kv: &mvccpb.KeyValue{Key: []byte(k)}}
		} else {
			v := vals[verifChoose("write.value", 2)]
			vPut(k, v)
			ev = &clientv3.Event{Type: mvccpb.PUT, Kv: vKV(k, v)}
		}
		after, has := vStoreKV[key]
		if had != has || before != after {
			changes++
		}
		cur := absent
		if has {
			cur = after
		}
		history[nh] = cur
		nh++
		if k == key && verifBool("write.announced") {
			vWatchCh <- clientv3.WatchResponse{Header: etcdserverpb.ResponseHeader{Revision: vRevision}, Events: []*clientv3.Event{ev}}
		} else if k != key {
			verifCover("write-to-another-key")
		}
		switch verifChoose("afterWrite", 3) {
		case 0: // the syncer gets time to catch up
			verifQuiesce()
		case 1: // a periodic pull becomes due while events are still queued
			verifAdvance(int64(time.Second)) // the pull interval passes: the syncer's timer is due
			verifCover("tick-while-events-are-queued")
		case 2: // the next write follows immediately
		}
	}
	verifQuiesce()
	verifAdvance(int64(time.Second)) // the pull interval passes: the syncer's timer is due
	verifQuiesce()

	var got [16]string
	ng := 0
	for {
		select {
		case v := <-ch:
			if v == nil {
				got[ng] = absent
			} else {
				got[ng] = *v
				if *v == "" {
					verifCover("empty-value-delivered")
				}
			}
			ng++
			continue
		default:
		}
		break
	}
	pos := 0
	for i := 0; i < ng; i++ {
		found := -1
		for j := pos; j < nh; j++ {
			if got[i] == history[j] {
				found = j
				break
			}
		}
		verifAssert(found >= 0, "delivered-value-is-a-real-value-of-the-key-in-store-order")
		if found >= 0 {
			pos = found
		}
		if i > 0 {
			verifAssert(got[i] != got[i-1], "consecutive-deliveries-differ")
		}
	}
	final := history[nh-1]
	if ng == 0 {
		verifAssert(final == absent, "converges-to-the-final-content")
	} else {
		verifAssert(got[ng-1] == final, "converges-to-the-final-content")
		verifCover("delivered")
	}
	// the first delivery reports the initial (absent) state; afterwards at most one delivery
	// per change of the watched key
	verifAssert(ng <= changes+1, "writes-to-other-keys-cause-no-delivery")
	s.Close()
}

// verifC19_SlowConsumer: a consumer that does not read for a long time (more distinct store
// contents than the delivery channel buffers) and then drains still ends with the final
// content, without any further write.
func verifC19_SlowConsumer() {
	const prefix = "/p/"
	vStoreKV, vStoreRev, vRevision = map[string]string{}, map[string]int64{}, 1
	vStoreVer, vStoreCreate = map[string]int64{}, map[string]int64{}
	vHistory = map[int64]map[string]vKVSnap{}
	vWatchCh = make(chan clientv3.WatchResponse, 32)
	vTickCh = make(chan time.Time, 8)
	vPullFails, vWatchCount = false, 0
	s := &syncer{cluster: vCluster(), client: &clientv3.Client{KV: vEtcdKV{}}, pullInterval: time.Second, done: make(chan struct{})}
	verifInitMaps(s) // maps a bypassed constructor would have made
	ch, _ := s.SyncPrefix(prefix)
	// more writes than the channel capacity; the consumer reads a few snapshots, then stalls
	writes := 11 + verifChoose("writesBeyondCapacity", verifBound("extraWrites")+1)
	early := verifChoose("readsBeforeStalling", 3)
	vals := []string{"v1", "v2", "v3"}
	final := ""
	for i := 0; i < writes; i++ {
		if i < early {
			select {
			case <-ch:
			default:
			}
		}
		final = vals[i%3]
		vPut("/p/a", final)
		vWatchCh <- clientv3.WatchResponse{Header: etcdserverpb.ResponseHeader{Revision: vRevision}, Events: []*clientv3.Event{{}}} // every write is announced
		verifQuiesce()                                                                                                              // and the syncer gets time to pull (or blocks on the full channel)
	}
	// the consumer wakes up and drains, giving the syncer time after every receive
	last := ""
	n := 0
	for {
		verifQuiesce()
		select {
		case m := <-ch:
			last = m["/p/a"]
			n++
			continue
		default:
		}
		break
	}
	// a periodic pull, then drain again
	verifAdvance(int64(time.Second)) // the pull interval passes: the syncer's timer is due
	for {
		verifQuiesce()
		select {
		case m := <-ch:
			last = m["/p/a"]
			n++
			continue
		default:
		}
		break
	}
	verifAssert(n >= 1 && last == final, "slow-consumer-converges-to-the-final-content")
	if n > 10 {
		verifCover("more-snapshots-than-the-channel-buffers")
	}
}
