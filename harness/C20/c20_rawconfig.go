package rawconfigtrafficcontroller

import (
	"sync"

	"github.com/megaease/easegress/pkg/context"
	"github.com/megaease/easegress/pkg/object/trafficcontroller"
	"github.com/megaease/easegress/pkg/supervisor"
)

// C20, package rawconfigtrafficcontroller: one watcher event applied by the REAL handleEvent
// to the REAL TrafficController. The event is what the object registry emits for a snapshot
// change of a name: create, update, delete, or - for a change of kind - the same name in both
// Delete and Create. Afterwards the live object of the name is the snapshot's, the old
// generation was closed exactly once and the new one was initialised once and is not closed.

type vObj struct {
	kind     string
	inits    int
	inherits int
	closed   int
	prev     supervisor.Object
}

func (o *vObj) Category() supervisor.ObjectCategory { return supervisor.CategoryTrafficGate }
func (o *vObj) Kind() string                        { return o.kind }
func (o *vObj) DefaultSpec() interface{}            { return &struct{}{} }
func (o *vObj) Status() *supervisor.Status          { return nil }
func (o *vObj) Close()                              { o.closed++ }
func (o *vObj) Init(s *supervisor.Spec, m context.MuxMapper) {
	o.inits++
}
func (o *vObj) Inherit(s *supervisor.Spec, prev supervisor.Object, m context.MuxMapper) {
	o.inherits++
	o.prev = prev
}

func vEntity(name, kind string) (*supervisor.ObjectEntity, *vObj) {
	spec := &supervisor.Spec{}
	verifSetField(spec, "meta", &supervisor.MetaSpec{Name: name, Kind: kind})
	inst := &vObj{kind: kind}
	e := &supervisor.ObjectEntity{}
	verifSetField(e, "spec", spec)
	verifSetField(e, "instance", supervisor.Object(inst))
	return e, inst
}

func verifC20_RawConfigEvent() {
	kinds := []string{"Pipeline", "GateA", "GateB"}
	supervisor.TrafficObjectKinds["GateA"] = struct{}{}
	supervisor.TrafficObjectKinds["GateB"] = struct{}{}
	tc := &trafficcontroller.TrafficController{}
	verifSetField(tc, "mutex", &sync.Mutex{})
	verifSetField(tc, "namespaces", map[string]*trafficcontroller.Namespace{})
	rctc := &RawConfigTrafficController{tc: tc, namespace: DefaultNamespace}

	// pre-state: the name may be live with some kind; another object "o" keeps the namespace
	var pre *vObj
	preKind := -1
	if verifBool("pre.present") {
		preKind = verifChoose("pre.kind", 3)
		var e *supervisor.ObjectEntity
		e, pre = vEntity("x", kinds[preKind])
		rctc.handleEvent(&supervisor.ObjectEntityWatcherEvent{Create: map[string]*supervisor.ObjectEntity{"x": e}})
		verifAssert(pre.inits == 1, "pre-state-created")
	}
	if verifBool("anotherObjectLives") {
		eo, _ := vEntity("o", kinds[verifChoose("other.kind", 3)])
		rctc.handleEvent(&supervisor.ObjectEntityWatcherEvent{Create: map[string]*supervisor.ObjectEntity{"o": eo}})
	}

	// the snapshot change of name x
	postKind := -1
	if verifBool("post.present") {
		postKind = verifChoose("post.kind", 3)
	}
	ev := &supervisor.ObjectEntityWatcherEvent{Delete: map[string]*supervisor.ObjectEntity{},
		Create: map[string]*supervisor.ObjectEntity{}, Update: map[string]*supervisor.ObjectEntity{}}
	var post *vObj
	var postEntity *supervisor.ObjectEntity
	switch {
	case preKind < 0 && postKind < 0:
		return
	case preKind < 0:
		postEntity, post = vEntity("x", kinds[postKind])
		ev.Create["x"] = postEntity
	case postKind < 0:
		old, _ := vLookup(tc, "x", kinds[preKind])
		ev.Delete["x"] = old
	case preKind == postKind:
		postEntity, post = vEntity("x", kinds[postKind])
		ev.Update["x"] = postEntity
	default: // change of kind: delete + create of the same name in one event
		old, _ := vLookup(tc, "x", kinds[preKind])
		ev.Delete["x"] = old
		postEntity, post = vEntity("x", kinds[postKind])
		ev.Create["x"] = postEntity
		verifCover("kind-changed")
		if preKind != 0 && postKind != 0 {
			verifCover("kind-changed-between-two-traffic-gate-kinds")
		}
	}
	rctc.handleEvent(ev)

	if pre != nil {
		if postKind == preKind {
			verifAssert(pre.closed == 0, "updated-object-is-not-closed-by-the-controller")
			verifAssert(post.inherits == 1 && post.inits == 0 && post.prev == supervisor.Object(pre), "update-inherits-once-from-the-live-generation")
		} else {
			verifAssert(pre.closed == 1, "old-object-closed-exactly-once")
		}
	}
	if post != nil {
		verifAssert(post.closed == 0, "new-object-not-closed")
		if postKind != preKind {
			verifAssert(post.inits == 1 && post.inherits == 0, "new-object-initialised-exactly-once")
		}
		live, ok := vLookup(tc, "x", kinds[postKind])
		verifAssert(ok && live == postEntity, "live-object-is-the-snapshots")
		verifCover("live-after-the-event")
	} else {
		_, okp := tc.GetPipeline(DefaultNamespace, "x")
		_, okg := tc.GetTrafficGate(DefaultNamespace, "x")
		verifAssert(!okp && !okg, "deleted-name-is-gone")
		verifCover("deleted")
	}
	// nothing of the other kind is left behind under the name
	if post != nil {
		if postKind == 0 {
			_, okg := tc.GetTrafficGate(DefaultNamespace, "x")
			verifAssert(!okg, "no-stale-object-of-the-old-kind")
		} else {
			_, okp := tc.GetPipeline(DefaultNamespace, "x")
			verifAssert(!okp, "no-stale-object-of-the-old-kind")
		}
	}
}

func vLookup(tc *trafficcontroller.TrafficController, name, kind string) (*supervisor.ObjectEntity, bool) {
	if kind == "Pipeline" {
		return tc.GetPipeline(DefaultNamespace, name)
	}
	return tc.GetTrafficGate(DefaultNamespace, name)
}
