package supervisor

import "github.com/megaease/easegress/pkg/context"

// ---------------------------------------------------------------------------
// C20 harnesses, package supervisor. Two harness controller kinds record their
// lifecycle callbacks; the reference is the per-name rule of the statement.
// ---------------------------------------------------------------------------

const (
	opInit = iota + 1
	opInherit
	opClose
)

type vLogEntry struct {
	op   int
	name string // spec name (Init / Inherit)
	rev  int64
	self Object
	prev Object
}

var (
	vLog     [32]vLogEntry
	vNLog    int
	vPanicAt int // index of the callback invocation that panics (-1: none)
	vPanicAt2 = -1 // a second panicking invocation (thorough tier)
	vTokens  map[string]*vTok
)

type vTok struct {
	name string
	kind string
	rev  int64
}

func vRecord(e vLogEntry) {
	idx := vNLog
	vLog[vNLog] = e
	vNLog++
	if idx == vPanicAt || idx == vPanicAt2 {
		panic("lifecycle callback panics (harness)")
	}
}

func vRevOf(s *Spec) int64 { return s.rawSpec["rev"].(int64) }

type vCtlA struct{ pad int }
type vCtlB struct{ pad int }

func (c *vCtlA) Category() ObjectCategory { return CategoryBusinessController }
func (c *vCtlA) Kind() string             { return "VA" }
func (c *vCtlA) DefaultSpec() interface{} { return &struct{}{} }
func (c *vCtlA) Status() *Status          { return nil }
func (c *vCtlA) Close()                   { vRecord(vLogEntry{op: opClose, self: c}) }
func (c *vCtlA) Init(s *Spec)             { vRecord(vLogEntry{op: opInit, name: s.Name(), rev: vRevOf(s), self: c}) }
func (c *vCtlA) Inherit(s *Spec, p Object) {
	vRecord(vLogEntry{op: opInherit, name: s.Name(), rev: vRevOf(s), self: c, prev: p})
}

func (c *vCtlB) Category() ObjectCategory { return CategoryBusinessController }
func (c *vCtlB) Kind() string             { return "VB" }
func (c *vCtlB) DefaultSpec() interface{} { return &struct{}{} }
func (c *vCtlB) Status() *Status          { return nil }
func (c *vCtlB) Close()                   { vRecord(vLogEntry{op: opClose, self: c}) }
func (c *vCtlB) Init(s *Spec)             { vRecord(vLogEntry{op: opInit, name: s.Name(), rev: vRevOf(s), self: c}) }
func (c *vCtlB) Inherit(s *Spec, p Object) {
	vRecord(vLogEntry{op: opInherit, name: s.Name(), rev: vRevOf(s), self: c, prev: p})
}

// vNewSpec replaces (*Supervisor).NewSpec (YAML + JSON-schema reflection): the
// configuration text is a token whose meaning (name, kind, revision) is kept in
// a harness table.
func vNewSpec(s *Supervisor, yamlConfig string) (*Spec, error) {
	t := vTokens[yamlConfig]
	return &Spec{super: s, yamlConfig: yamlConfig,
		meta:    &MetaSpec{Name: t.name, Kind: t.kind, Version: DefaultSpecVersion},
		rawSpec: map[string]interface{}{"name": t.name, "kind": t.kind, "rev": t.rev}}, nil
}

var vNames = []string{"a", "b", "c"}
var vKinds = []string{"VA", "VB", "VP"} // VP: a kind of another category (a pipeline): not the supervisor's

// vCtlP: an object of a category the supervisor's own watcher does not handle
type vCtlP struct{ pad int }

func (c *vCtlP) Category() ObjectCategory { return CategoryPipeline }
func (c *vCtlP) Kind() string             { return "VP" }
func (c *vCtlP) DefaultSpec() interface{} { return &struct{}{} }
func (c *vCtlP) Status() *Status          { return nil }
func (c *vCtlP) Close()                   { vRecord(vLogEntry{op: opClose, self: c}) }
func (c *vCtlP) Init(s *Spec, m context.MuxMapper) {
	vRecord(vLogEntry{op: opInit, name: s.Name(), rev: vRevOf(s), self: c})
}
func (c *vCtlP) Inherit(s *Spec, p Object, m context.MuxMapper) {
	vRecord(vLogEntry{op: opInherit, name: s.Name(), rev: vRevOf(s), self: c, prev: p})
}

type vAbs struct {
	present bool
	kind    int
	rev     int64
	inst    Object
	entity  *ObjectEntity
}

func vSetup() {
	objectRegistry["VA"] = &vCtlA{}
	objectRegistry["VB"] = &vCtlB{}
	objectRegistry["VP"] = &vCtlP{}
	vTokens = map[string]*vTok{}
	vNLog = 0
}

func vToken(label string, name string, kind int, rev int64) string {
	tok := label + ":" + name
	vTokens[tok] = &vTok{name: name, kind: vKinds[kind], rev: rev}
	return tok
}

func vNewInstance(kind int) Object {
	switch kind {
	case 0:
		return &vCtlA{}
	case 1:
		return &vCtlB{}
	}
	return &vCtlP{}
}

func vKindOf(o Object) int {
	switch o.(type) {
	case *vCtlA:
		return 0
	case *vCtlB:
		return 1
	}
	return 2
}

// vCheckName compares the callbacks received for one name with the statement.
func vCheckName(name string, pre, post vAbs, s *Supervisor, or *ObjectRegistry) {
	inits, inherits, closes := 0, 0, 0
	var initSelf, inhSelf, inhPrev Object
	for i := 0; i < vNLog; i++ {
		e := vLog[i]
		switch {
		case e.op == opInit && e.name == name:
			inits++
			initSelf = e.self
			verifAssert(e.rev == post.rev, "init-with-the-snapshot-spec")
		case e.op == opInherit && e.name == name:
			inherits++
			inhSelf, inhPrev = e.self, e.prev
			verifAssert(e.rev == post.rev, "inherit-with-the-snapshot-spec")
		case e.op == opClose && pre.present && e.self == pre.inst:
			closes++
		}
	}
	// a snapshot entry of another category is not the supervisor's to run: for the supervisor
	// the name is absent (an earlier controller of that name is closed), the registry keeps it
	foreign := post.present && post.kind == 2
	if foreign {
		verifAssert(inits == 0 && inherits == 0, "object-of-another-category-is-not-started-by-the-supervisor")
		if pre.present {
			verifAssert(closes == 1, "kind-change-across-categories-closes-the-old-controller")
			verifCover("kind-changed-across-categories")
		}
		_, ok1 := or.entities[name]
		_, ok2 := s.businessControllers.Load(name)
		_, ok3 := s.watcher.entities[name]
		verifAssert(ok1 && !ok2 && !ok3, "live-set-equals-snapshot")
		return
	}
	switch {
	case !pre.present && !post.present:
		verifAssert(inits == 0 && inherits == 0 && closes == 0, "absent-name-untouched")
	case !pre.present && post.present:
		verifAssert(inits == 1 && inherits == 0, "init-exactly-once-on-appearance")
		verifAssert(initSelf != nil && vKindOf(initSelf) == post.kind, "init-on-instance-of-snapshot-kind")
		verifCover("appeared")
	case pre.present && !post.present:
		verifAssert(closes == 1 && inits == 0 && inherits == 0, "close-exactly-once-on-disappearance")
		verifCover("disappeared")
	case pre.kind != post.kind:
		verifAssert(closes == 1, "kind-change-closes-old-object")
		verifAssert(inits == 1 && inherits == 0, "kind-change-inits-new-object")
		verifCover("kind-changed")
	case pre.rev == post.rev:
		verifAssert(inits == 0 && inherits == 0 && closes == 0, "unchanged-spec-untouched")
		verifCover("unchanged")
	default:
		verifAssert(inherits == 1 && inits == 0 && closes == 0, "inherit-exactly-once-on-change")
		verifAssert(inhPrev == pre.inst, "inherit-from-previous-live-generation")
		verifAssert(inhSelf != nil && inhSelf != pre.inst && vKindOf(inhSelf) == post.kind, "inherit-on-new-instance")
		verifCover("changed")
	}
	// an object that is live after the step was not closed during it (also not when its own
	// init or inherit panicked: the name is still in the snapshot)
	for i := 0; i < vNLog; i++ {
		if e := vLog[i]; e.op == opClose && post.present && ((initSelf != nil && e.self == initSelf) || (inhSelf != nil && e.self == inhSelf)) {
			verifAssert(false, "object-of-a-name-still-in-the-snapshot-is-not-closed")
		}
	}
	// the live set equals the snapshot
	e1, ok1 := or.entities[name]
	v2, ok2 := s.businessControllers.Load(name)
	e3, ok3 := s.watcher.entities[name]
	verifAssert(ok1 == post.present && ok2 == post.present && ok3 == post.present, "live-set-equals-snapshot")
	if post.present && ok1 && ok2 && ok3 {
		verifAssert(vRevOf(e1.spec) == post.rev && e1.spec.Kind() == vKinds[post.kind], "registry-holds-snapshot-spec")
		e2 := v2.(*ObjectEntity)
		verifAssert(e2 == e1 && e3 == e1, "supervisor-and-registry-agree")
		if pre.present && pre.kind == post.kind && pre.rev == post.rev {
			verifAssert(e1 == pre.entity, "unchanged-entity-kept")
		}
	}
}

func vDrain(s *Supervisor) {
	for {
		select {
		case ev := <-s.watcher.eventChan:
			s.handleEvent(ev)
		default:
			return
		}
	}
}

// vSnapshotKinds: 2 = the two controller kinds; 3 = also the kind of another category
var vSnapshotKinds = 2

func vSnapshot(label string, n int) (map[string]string, [3]vAbs) {
	var post [3]vAbs
	config := map[string]string{}
	for i := 0; i < n; i++ {
		if verifBool(label + ".present") {
			post[i] = vAbs{present: true, kind: verifChoose(label+".kind", vSnapshotKinds), rev: verifInt(label+".rev", 0, 3)}
			config[vNames[i]] = vToken(label, vNames[i], post[i].kind, post[i].rev)
		}
	}
	return config, post
}

// verifC20_Step: one snapshot transition from an arbitrary quiescent pre-state.
func verifC20_Step() {
	vSetup()
	n := verifBound("names")
	s := &Supervisor{}
	w := &ObjectEntityWatcher{filter: FilterCategory(CategoryBusinessController),
		entities: map[string]*ObjectEntity{}, eventChan: make(chan *ObjectEntityWatcherEvent, 10)}
	or := &ObjectRegistry{super: s, entities: map[string]*ObjectEntity{}, watchers: map[string]*ObjectEntityWatcher{watcherName: w}}
	verifInitMaps(or) // maps a bypassed constructor would have made
	s.objectRegistry, s.watcher = or, w

	var pre [3]vAbs
	for i := 0; i < n; i++ {
		if !verifBool("pre.present") {
			continue
		}
		a := vAbs{present: true, kind: verifChoose("pre.kind", 2), rev: verifInt("pre.rev", 0, 3)}
		a.inst = vNewInstance(a.kind)
		spec, _ := vNewSpec(s, vToken("pre", vNames[i], a.kind, a.rev))
		a.entity = &ObjectEntity{super: s, generation: uint64(verifInt("pre.generation", 0, 2)), instance: a.inst, spec: spec}
		or.entities[vNames[i]] = a.entity
		w.entities[vNames[i]] = a.entity
		s.businessControllers.Store(vNames[i], a.entity)
		pre[i] = a
	}
	vSnapshotKinds = 3
	config, post := vSnapshot("snap", n)
	vSnapshotKinds = 2
	vPanicAt = int(verifInt("panicAt", -1, 3))
	vPanicAt2 = -1
	if verifBound("panics") >= 2 && vPanicAt >= 0 {
		vPanicAt2 = int(verifInt("panicAt2", -1, 4))
		verifAssume(vPanicAt2 == -1 || vPanicAt2 > vPanicAt)
	}

	or.applyConfig(config)
	vDrain(s)

	for i := 0; i < n; i++ {
		vCheckName(vNames[i], pre[i], post[i], s, or)
	}
	if vPanicAt >= 0 && vPanicAt < vNLog {
		verifCover("a-callback-panicked")
	}
}

// verifC20_Hist: an empty registry, NewWatcher, then a sequence of snapshots.
func verifC20_Hist() {
	vSetup()
	n := verifBound("names")
	s := &Supervisor{firstHandle: true, firstHandleDone: make(chan struct{})}
	or := &ObjectRegistry{super: s, entities: map[string]*ObjectEntity{}, watchers: map[string]*ObjectEntityWatcher{}}
	verifInitMaps(or) // maps a bypassed constructor would have made
	s.objectRegistry = or
	s.watcher = or.NewWatcher(watcherName, FilterCategory(CategoryBusinessController))
	vPanicAt = -1
	vDrain(s)
	verifAssert(vNLog == 0 && !s.firstHandle, "first-event-of-an-empty-registry")

	var cur [3]vAbs
	labels := []string{"s1", "s2", "s3"}
	for k := 0; k < verifBound("snapshots"); k++ {
		config, post := vSnapshot(labels[k], n)
		vNLog = 0
		or.applyConfig(config)
		vDrain(s)
		for i := 0; i < n; i++ {
			vCheckName(vNames[i], cur[i], post[i], s, or)
			if post[i].present {
				e := or.entities[vNames[i]]
				if e != nil {
					post[i].entity, post[i].inst = e, e.instance
				}
			}
		}
		cur = post
	}
}
