package trafficcontroller

import (
	"sync"

	"github.com/megaease/easegress/pkg/supervisor"
)

// C20 at the traffic-controller layer (package trafficcontroller): a sequence of create /
// update / delete operations on one traffic gate "g" and one pipeline "p" of a namespace,
// chosen freely, against a reference live set: an operation fails iff it is illegal in the
// reference (create of a live name is an overwrite and excluded), a live object is initialised
// once when created, inherited once per update with the previous live generation as
// predecessor, closed once when deleted - whatever happened to the OTHER object of the
// namespace in between (e.g. the last pipeline was deleted while the gate lives).
func verifC20_TrafficObjects() {
	tc := &TrafficController{mutex: &sync.Mutex{}, namespaces: map[string]*Namespace{}}
	verifInitMaps(tc) // maps a bypassed constructor would have made
	const ns = "default"
	names := []string{"g", "p"}
	var live [2]*vPipe // reference: the live generation of each object
	var gens [2]int
	steps := verifBound("operations")
	for i := 0; i < steps; i++ {
		o := verifChoose("op.object", 2) // 0 traffic gate, 1 pipeline
		kind := verifChoose("op.kind", 3) // 0 create, 1 update, 2 delete
		gens[o]++
		e, inst := vEntity(names[o], gens[o], int64(gens[o]))
		var err error
		switch kind {
		case 0:
			verifAssume(live[o] == nil) // creating over a live name is not a lifecycle step
			// Init may panic (recovered by the entity): the name is configured, so the object
			// is live all the same, and a later change of its spec is an update of it
			inst.panicInit = verifBool("op.initPanics")
			if inst.panicInit {
				verifCover("init-panicked")
			}
			if o == 0 {
				_, err = tc.CreateTrafficGate(ns, e)
			} else {
				_, err = tc.CreatePipeline(ns, e)
			}
			verifAssert(err == nil, "create-succeeds")
			verifAssert(inst.inits == 1 && inst.inherits == 0 && inst.closed == 0, "created-object-initialised-exactly-once")
			live[o] = inst
		case 1:
			// the new generation's Inherit may panic (the panic is recovered by the entity): the
			// name is still configured, so the new generation is the live one all the same
			inst.panicInherit = verifBool("op.inheritPanics")
			if inst.panicInherit && live[o] != nil {
				verifCover("inherit-panicked")
			}
			if o == 0 {
				_, err = tc.UpdateTrafficGate(ns, e)
			} else {
				_, err = tc.UpdatePipeline(ns, e)
			}
			if live[o] == nil {
				verifAssert(err != nil && inst.inits == 0 && inst.inherits == 0, "update-of-a-missing-object-fails-without-side-effects")
			} else {
				verifAssert(err == nil, "update-of-a-live-object-succeeds")
				verifAssert(inst.inherits == 1 && inst.inits == 0 && inst.prev == supervisor.Object(live[o]), "updated-object-inherits-once-from-the-previous-live-generation")
				live[o] = inst
				verifCover("inherited")
			}
		case 2:
			if o == 0 {
				err = tc.DeleteTrafficGate(ns, names[o])
			} else {
				err = tc.DeletePipeline(ns, names[o])
			}
			if live[o] == nil {
				verifAssert(err != nil, "delete-of-a-missing-object-fails")
			} else {
				verifAssert(err == nil, "delete-of-a-live-object-succeeds")
				verifAssert(live[o].closed == 1, "deleted-object-closed-exactly-once")
				live[o] = nil
				verifCover("closed")
			}
		}
		// the live set equals the reference after every step
		eg, okg := tc.GetTrafficGate(ns, "g")
		verifAssert(okg == (live[0] != nil) && (!okg || eg.Instance() == supervisor.Object(live[0])), "live-traffic-gates-equal-the-reference")
		ep, okp := tc.GetPipeline(ns, "p")
		verifAssert(okp == (live[1] != nil) && (!okp || ep.Instance() == supervisor.Object(live[1])), "live-pipelines-equal-the-reference")
		for k := 0; k < 2; k++ {
			if live[k] != nil {
				verifAssert(live[k].closed == 0, "live-object-not-closed")
			}
		}
		if live[0] != nil && live[1] == nil && i > 0 {
			verifCover("gate-alone-in-its-namespace")
		}
	}
}
