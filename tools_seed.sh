#!/bin/bash
# usage: tools_seed.sh <PROP> <n> <pkgdir-of-demo> "<test pkgs>" [harness-filter]
# 1. confirms the seeded change in the scratch worktree /tmp/seed_<PROP> (tests pass, demo fails with / passes without)
# 2. applies it to /repo, runs ./check <PROP> quick, reverts
SEEDFLAGS=${SEEDFLAGS:-}
export GOFLAGS=-mod=mod GOPROXY=off GOSUMDB=off GOTOOLCHAIN=local
P=$1; N=$2; DEMODIR=$3; PKGS=$4; ONLY=$5
OUT=/tmp/seed_${P}_out/$N; WT=/tmp/seed_$P
cd $WT || exit 9
git checkout -q -- . ; rm -f $DEMODIR/zz_demo_test.go
git apply $OUT/patch.diff || { echo "SEED: patch does not apply in worktree"; exit 9; }
go test $SEEDFLAGS -vet=off -count=1 $PKGS > /tmp/seed_t.log 2>&1; T1=$?
cp $OUT/demo_test.go $DEMODIR/zz_demo_test.go
go test $SEEDFLAGS -vet=off -count=1 -run 'ZZ|Demo' ./$DEMODIR > /tmp/seed_d1.log 2>&1; D1=$?
git checkout -q -- .
go test $SEEDFLAGS -vet=off -count=1 -run 'ZZ|Demo' ./$DEMODIR > /tmp/seed_d0.log 2>&1; D0=$?
rm -f $DEMODIR/zz_demo_test.go
echo "SEED $P/$N: existing-tests-with-patch exit=$T1 (want 0); demo-with-patch exit=$D1 (want !=0); demo-without exit=$D0 (want 0)"
cd /repo && git apply $OUT/patch.diff || { echo "SEED: patch does not apply to /repo"; exit 9; }
cd /verif
if [ -n "$ONLY" ]; then
  ./build/symgo -suite harness/${HP:-$P}/harness.json -no-evidence -budget 20m -only "$ONLY" 2>&1 | grep -v "time budget" | tail -8
else
  ./build/symgo -suite harness/${HP:-$P}/harness.json -no-evidence -budget 20m 2>&1 | grep -v "time budget" | tail -12
fi
echo "check exit=$?"
cd /repo && git checkout -q -- . && git status --short
