#!/usr/bin/env python3
"""tools_saveseed2.py PROP N_OUT N_NEW "caught by ..." : copy a confirmed round-2 seeded change
(/tmp/seed_<PROP>_out/<N_OUT>: patch.diff, demo_test.go, notes.txt) into /verif/seeded/<PROP>-<N_NEW>/"""
import json, shutil, sys, os
prop, n, nn, caught = sys.argv[1:5]
src = f"/tmp/seed_{prop}_out/{n}"
dst = f"/verif/seeded/{prop}-{nn}"
os.makedirs(dst, exist_ok=True)
shutil.copy(f"{src}/patch.diff", f"{dst}/patch.diff")
shutil.copy(f"{src}/demo_test.go", f"{dst}/demo_test.go.txt")
notes = open(f"{src}/notes.txt").read()
meta = {"property": prop, "round": 2, "notes": notes,
        "confirmed_by_me": "applied in scratch worktree: existing tests of the touched packages pass, demo test fails; reverted: demo passes (tools_seed2.sh)",
        "check_result": caught}
json.dump(meta, open(f"{dst}/meta.json", "w"), indent=1)
print("saved", dst)
