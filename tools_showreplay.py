#!/usr/bin/env python3
"""Pretty-print a replay file: strings reassembled from their byte/len inputs."""
import json, re, sys
r = json.load(open(sys.argv[1]))
v = r['violation']
vals = {i['name']: i['value'] for i in v['inputs']}
done = set()
print("harness:", v['harness'], "kind:", v['kind'], "label:", v['label'], v.get('detail', ''))
for k, val in vals.items():
    m = re.match(r'(.*)\.len$', k)
    if m:
        b = m.group(1)
        s = ''.join(chr(vals.get(f'{b}[{i}]', 63)) for i in range(min(val, 64)))
        print(f"  {b} = {s!r}")
        done.add(k)
        for i in range(64):
            done.add(f'{b}[{i}]')
for k, val in vals.items():
    if k not in done:
        if val >= 2**63: val -= 2**64
        print(f"  {k} = {val}")
print("  enum choices:", v.get('enum_choices'))
print("  confirmed:", v['confirmed'])
for t in v.get('trace') or []:
    print("  trace:", t)
